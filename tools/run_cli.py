"""run_cli — worker for C17 / C20 (reads a JSON list of jobs on stdin, writes a JSON list).

ops
  cli     write the schema files into job["dir"], then for every run execute the REAL command
          line (`python -m bitproto._main <args>`, cwd = dir, environment = vlib.IMPL_ENV as
          inherited) in its own subprocess with a timeout; returns exit status, stderr,
          parsed diagnostics and the content of every file found in the run's out directory.
  parse   parse the root file in-process with bitproto.parser.parse and dump, per proto of
          the file set, the bound definitions in proto.filter order (class, declared name,
          lineno, token_col_start, indent, len(scope_stack), enum values) and the references.
  names   pascal_case / snake_case / str.isupper of the given names, from the real utils.
"""
import json
import os
import re
import subprocess
import sys

ANSI = re.compile(r"\x1b\[[0-9;]*m")
DIAG = re.compile(r"^(error|warning):\s+(?:(\S*?):)?L(\d+) (.*?) => (.*)$")


def lint_classes():
    import bitproto.errors as E
    out = {}
    for name in dir(E):
        c = getattr(E, name)
        if isinstance(c, type) and issubclass(c, E.LintWarning) and c is not E.LintWarning:
            out[(c.__doc__ or "").strip()] = name
    return out


def parse_diags(stderr: str, docs):
    diags = []
    other = []
    for raw in stderr.splitlines():
        line = ANSI.sub("", raw)
        m = DIAG.match(line)
        if m:
            sev, f, ln, tok, msg = m.groups()
            cls = None
            if sev == "warning":
                cls = docs.get(msg.split(" suggestion => ")[0].strip())
            diags.append({"sev": sev, "file": f or "", "line": int(ln), "token": tok, "msg": msg, "cls": cls,
                          "colored": raw != line})
        elif line.strip():
            other.append(line)
    return diags, other


def op_cli(job):
    d = job["dir"]
    os.makedirs(d, exist_ok=True)
    for name, text in job["files"].items():
        with open(os.path.join(d, name), "w") as f:
            f.write(text)
    docs = lint_classes()
    import bitproto
    res = {"impl": os.path.dirname(bitproto.__file__), "runs": []}
    for run in job["runs"]:
        out = run.get("out")
        if out:
            os.makedirs(os.path.join(d, out), exist_ok=True)
            for old in os.listdir(os.path.join(d, out)):
                os.remove(os.path.join(d, out, old))
        cmd = [sys.executable, "-m", "bitproto._main"] + run["args"]
        timed_out = False
        for attempt, tmo in enumerate((job.get("timeout", 120), 600)):
            try:
                p = subprocess.run(cmd, cwd=d, capture_output=True, text=True, timeout=tmo)
                rc, so, se = p.returncode, p.stdout, p.stderr
                timed_out = False
                break
            except subprocess.TimeoutExpired:       # a loaded machine: retry once with a long limit
                rc, so, se = 124, "", "TIMEOUT"
                timed_out = True
        diags, other = parse_diags(se, docs)
        files = {}
        if out:
            for fn in sorted(os.listdir(os.path.join(d, out))):
                with open(os.path.join(d, out, fn)) as f:
                    files[fn] = f.read()
        res["runs"].append({"rc": rc, "stderr": se[-4000:], "stdout": so[-500:], "diags": diags, "other": other,
                            "files": files, "traceback": "Traceback (most recent call last)" in se,
                            "timeout": timed_out})
    return res


def op_parse(job):
    d = job["dir"]
    os.makedirs(d, exist_ok=True)
    for name, text in job["files"].items():
        with open(os.path.join(d, name), "w") as f:
            f.write(text)
    import bitproto
    from bitproto._ast import BoundDefinition, Enum, Proto
    from bitproto.parser import parse
    cwd = os.getcwd()
    os.chdir(d)
    try:
        try:
            root = parse(job["root"])
        except Exception as e:  # noqa
            return {"error": type(e).__name__ + ": " + str(e)[:300]}
        protos = {}

        def visit(p):
            key = os.path.basename(p.filepath)
            if key in protos:
                return
            defs = []
            for name, m in p.filter(BoundDefinition, recursive=True, bound=p):
                row = {"cls": type(m).__name__, "mro": [c.__name__ for c in type(m).__mro__], "name": name,
                       "dname": m.name, "lineno": m.lineno, "col": m.token_col_start, "indent": m.indent,
                       "depth": len(m.scope_stack), "token": m.token, "file": os.path.basename(m.filepath)}
                if isinstance(m, Enum):
                    row["values"] = [f.value for f in m.fields()]
                defs.append(row)
            refs = [{"token": r.token, "lineno": r.lineno, "col": r.token_col_start,
                     "file": os.path.basename(r.filepath)} for r in p.references]
            protos[key] = {"name": p.name, "defs": defs, "refs": refs}
            for _, c in p.protos(recursive=False):
                visit(c)

        visit(root)
        return {"impl": os.path.dirname(bitproto.__file__), "protos": protos}
    finally:
        os.chdir(cwd)


def op_names(job):
    from bitproto.utils import pascal_case, snake_case
    return {"rows": [[pascal_case(n), snake_case(n), n.isupper()] for n in job["names"]]}


def main():
    jobs = json.load(sys.stdin)
    out = []
    for j in jobs:
        try:
            if j["op"] == "cli":
                out.append(op_cli(j))
            elif j["op"] == "parse":
                out.append(op_parse(j))
            elif j["op"] == "names":
                out.append(op_names(j))
            else:
                out.append({"worker_error": "unknown op"})
        except Exception as e:  # noqa
            import traceback
            out.append({"worker_error": traceback.format_exc()[-1500:]})
    json.dump(out, sys.stdout)


if __name__ == "__main__":
    main()
