"""names_parse — tie T1 for C15: the identifiers DECLARED in generated .h/.c/.go/.py text, as
(kind, name) pairs in the vocabulary of coq/theories/Names.v (`ikind`).  Fail-closed on top-level
lines of an unknown shape.  Pure text/AST processing: nothing of the implementation runs here.
"""
from __future__ import annotations

import ast
import re
from typing import Dict, List, Optional, Tuple

Ident = Tuple[str, Optional[str], str]   # (ikind constructor, owner or None, name)


class T1Error(Exception):
    pass


C_BASE = re.compile(r"^(bool|unsigned char|u?int(8|16|32|64)_t)$")
GO_BASE = re.compile(r"^(bool|byte|u?int(8|16|32|64))$")
PY_BASE = {"int", "bool", "bp.byte", "bytearray", "str"}
IDENT = r"[A-Za-z_][A-Za-z0-9_]*"


def strip_comment(line: str) -> str:
    i = line.find("//")
    return (line if i < 0 else line[:i]).rstrip()


# ---------------------------------------------------------------------------------------------
# C
# ---------------------------------------------------------------------------------------------

def parse_c_header(text: str) -> List[Ident]:
    out: List[Ident] = []
    lines = text.split("\n")
    i = 0
    depth_if = 0
    while i < len(lines):
        raw = lines[i]
        line = strip_comment(raw)
        i += 1
        if not line.strip():
            continue
        m = re.fullmatch(rf"#define ({IDENT})( .*)?", line)
        if m:
            name = m.group(1)
            if name.startswith("__BITPROTO__") or name == "BITPROTO_OPTIMIZATION_MODE":
                continue
            out.append(("IMacro", None, name))
            continue
        if line.startswith("#") or line in ('extern "C" {', "}"):
            continue
        m = re.fullmatch(rf"typedef (.+?) ({IDENT})(\[\d+\])?;", line)
        if m:
            ty, name = m.group(1), m.group(2)
            out.append(("ITypedef", None, name))
            if not C_BASE.match(ty):
                out.append(("IFieldType", name, ty))
            continue
        m = re.fullmatch(rf"struct ({IDENT}) \{{", line)
        if m:
            owner = m.group(1)
            out.append(("IStruct", None, owner))
            while True:
                if i >= len(lines):
                    raise T1Error(f".h: struct {owner} not closed")
                l2 = strip_comment(lines[i])
                i += 1
                if not l2.strip():
                    continue
                if re.fullmatch(r"\}( __attribute__\(\(.*\)\))?;", l2.strip()):
                    break
                m2 = re.fullmatch(rf"\s+(.+?) ({IDENT})(\[\d+\])?;", l2)
                if not m2:
                    raise T1Error(f".h: struct {owner}: unrecognised member line {l2!r}")
                ty, fname = m2.group(1), m2.group(2)
                out.append(("IField", owner, fname))
                if not C_BASE.match(ty):
                    out.append(("IFieldType", owner, f"{fname}:{ty}"))
            continue
        m = re.fullmatch(rf"(int|void) ({IDENT})\(.*\);", line)
        if m:
            out.append(("IFunc", None, m.group(2)))
            continue
        if re.fullmatch(r"#pragma .*|\} *;?", line):
            continue
        raise T1Error(f".h: unrecognised top-level line {line!r}")
    return out


def parse_c_source(text: str) -> List[Ident]:
    out: List[Ident] = []
    for raw in text.split("\n"):
        line = strip_comment(raw)
        if not line or line[0] in " \t":
            continue
        if line.startswith("#") or line == "}" or line.startswith("defined(") or line.startswith("("):
            continue
        m = re.fullmatch(rf"(static )?(inline )?(int|void) ({IDENT})\(.*\) \{{", line)
        if m:
            out.append(("IFunc", None, m.group(4)))
            continue
        raise T1Error(f".c: unrecognised line at column 0: {line!r}")
    return out


# ---------------------------------------------------------------------------------------------
# Go
# ---------------------------------------------------------------------------------------------

def go_elem(ty: str) -> str:
    m = re.fullmatch(r"\[\d+\](.+)", ty)
    return m.group(1) if m else ty


def parse_go(text: str) -> List[Ident]:
    out: List[Ident] = []
    lines = text.split("\n")
    i = 0
    while i < len(lines):
        line = strip_comment(lines[i])
        i += 1
        if not line.strip() or line[0] in " \t}":
            continue
        m = re.fullmatch(rf"type ({IDENT}) struct \{{", line)
        if m:
            owner = m.group(1)
            out.append(("IType", None, owner))
            while True:
                if i >= len(lines):
                    raise T1Error(f".go: struct {owner} not closed")
                l2 = strip_comment(lines[i])
                i += 1
                if not l2.strip():
                    continue
                if l2 == "}":
                    break
                m2 = re.fullmatch(rf"\t({IDENT}) (\S+) `({IDENT}):\"([^\"]*)\"`", l2)
                if not m2:
                    raise T1Error(f".go: struct {owner}: unrecognised field line {l2!r}")
                fname, ty, key, tag = m2.groups()
                out.append(("IField", owner, fname))
                if key != "json":
                    raise T1Error(f".go: struct {owner}: tag key {key!r}")
                out.append(("ITag", owner, f"{fname}:{tag}"))
                et = go_elem(ty)
                if not GO_BASE.match(et):
                    out.append(("IFieldType", owner, f"{fname}:{et}"))
            continue
        m = re.fullmatch(rf"type ({IDENT}) (\S+)", line)
        if m:
            name, ty = m.groups()
            out.append(("IType", None, name))
            et = go_elem(ty)
            if not GO_BASE.match(et):
                out.append(("IFieldType", name, et))
            continue
        m = re.fullmatch(rf"const ({IDENT}) \S+ = .*", line)
        if m:
            out.append(("IConst", None, m.group(1)))
            continue
        if line == "const (":
            while True:
                if i >= len(lines):
                    raise T1Error(".go: const block not closed")
                l2 = strip_comment(lines[i])
                i += 1
                if not l2.strip():
                    continue
                if l2 == ")":
                    break
                m2 = re.fullmatch(rf"\t({IDENT})( {IDENT})? = .*", l2)
                if not m2:
                    raise T1Error(f".go: unrecognised line in const block {l2!r}")
                out.append(("IConst", None, m2.group(1)))
            continue
        m = re.fullmatch(rf"func \(\w+ \*?({IDENT})\) ({IDENT})\(.*\{{( return .*\}})?", line)
        if m:
            owner, meth = m.group(1), m.group(2)
            if not meth.startswith("Bp") and meth != "String":
                out.append(("IMethod", owner, meth))
            continue
        if line.startswith("package ") or line.startswith("import") or line == ")" or line.startswith("var "):
            continue
        raise T1Error(f".go: unrecognised top-level line {line!r}")
    return out


# ---------------------------------------------------------------------------------------------
# Python
# ---------------------------------------------------------------------------------------------

def py_named(ann: ast.expr) -> Optional[str]:
    """The named (non-base) type inside an annotation such as List[X], Union[int, X], X."""
    if isinstance(ann, ast.Subscript):
        head = ast.unparse(ann.value)
        if head == "List":
            return py_named(ann.slice)
        if head == "Union":
            elts = ann.slice.elts if isinstance(ann.slice, ast.Tuple) else [ann.slice]
            named = [py_named(e) for e in elts]
            named = [n for n in named if n]
            if len(named) > 1:
                raise T1Error(f".py: Union with several named types {ast.unparse(ann)}")
            return named[0] if named else None
        if head == "ClassVar":
            return None
        raise T1Error(f".py: unrecognised annotation {ast.unparse(ann)}")
    txt = ast.unparse(ann)
    if txt in PY_BASE:
        return None
    if re.fullmatch(rf"{IDENT}(\.{IDENT})*", txt):
        return txt
    raise T1Error(f".py: unrecognised annotation {txt}")


def parse_py(text: str) -> List[Ident]:
    try:
        tree = ast.parse(text)
    except SyntaxError as e:
        raise T1Error(f".py: generated module is not valid Python: {e}")
    out: List[Ident] = []
    for n in tree.body:
        if isinstance(n, (ast.Import, ast.ImportFrom, ast.Expr, ast.FunctionDef)):
            continue
        if isinstance(n, ast.AnnAssign) and isinstance(n.target, ast.Name):
            if not n.target.id.startswith("_"):
                out.append(("IVar", None, n.target.id))
            continue
        if isinstance(n, ast.Assign) and len(n.targets) == 1 and isinstance(n.targets[0], ast.Name):
            name = n.targets[0].id
            if name.startswith("_"):
                continue
            out.append(("IVar", None, name))
            t = py_named(n.value)
            if t:
                out.append(("IFieldType", name, t))
            continue
        if isinstance(n, ast.ClassDef):
            cls = n.name
            out.append(("IClass", None, cls))
            bases = [ast.unparse(b) for b in n.bases]
            if bases == ["IntEnum"]:
                for s in n.body:
                    if isinstance(s, ast.Assign) and isinstance(s.targets[0], ast.Name):
                        out.append(("IAttr", cls, s.targets[0].id))
                    elif isinstance(s, (ast.Expr, ast.Pass)):
                        continue
                    else:
                        raise T1Error(f".py: enum {cls}: unrecognised statement {ast.unparse(s)[:80]}")
                continue
            if bases != ["bp.MessageBase"]:
                raise T1Error(f".py: class {cls} has bases {bases}")
            fields = set()
            for s in n.body:
                if isinstance(s, ast.AnnAssign) and isinstance(s.target, ast.Name):
                    name = s.target.id
                    if name.startswith("_"):
                        continue
                    if ast.unparse(s.annotation).startswith("ClassVar["):
                        out.append(("IAttr", cls, name))
                        continue
                    out.append(("IField", cls, name))
                    fields.add(name)
                    t = py_named(s.annotation)
                    if t:
                        out.append(("IFieldType", cls, f"{name}:{t}"))
                elif isinstance(s, ast.FunctionDef):
                    if s.name.startswith("_") or s.name.startswith("bp_") or s.name == "dict_factory":
                        continue
                    out.append(("IMethod", cls, s.name))
                elif isinstance(s, ast.Assign) and isinstance(s.targets[0], ast.Name):
                    # `mood = property(_get_mood, _set_mood)` re-binds an already listed field
                    if s.targets[0].id not in fields:
                        raise T1Error(f".py: class {cls}: assignment to unknown attribute {s.targets[0].id}")
                elif isinstance(s, (ast.Expr, ast.Pass)):
                    continue
                else:
                    raise T1Error(f".py: class {cls}: unrecognised statement {ast.unparse(s)[:80]}")
            continue
        raise T1Error(f".py: unrecognised top-level statement {ast.unparse(n)[:80]}")
    return out


def parse_mode(mode: str, files: Dict[str, str]) -> List[Ident]:
    out: List[Ident] = []
    for name, text in sorted(files.items()):
        if name.endswith(".h"):
            out += parse_c_header(text)
        elif name.endswith(".c"):
            out += parse_c_source(text)
        elif name.endswith(".go"):
            out += parse_go(text)
        elif name.endswith(".py"):
            out += parse_py(text)
        else:
            raise T1Error(f"unexpected output file {name}")
    seen = set()
    uniq = []
    for x in out:
        if x not in seen:
            seen.add(x)
            uniq.append(x)
    return uniq


LETTER = {"IMacro": "M", "ITypedef": "T", "IStruct": "S", "IFunc": "F", "IField": "f", "IFieldType": "t",
          "IType": "Y", "IConst": "C", "IMethod": "m", "ITag": "g", "IClass": "K", "IAttr": "A", "IVar": "V"}


def encode_idents(ids: List[Ident]) -> str:
    """One identifier per line, <kind letter>|<owner>|<name> (decoded by NamesT2.decode_idents)."""
    lines = []
    for k, owner, name in ids:
        for part in (owner or "", name):
            if "|" in part or "\n" in part:
                raise T1Error(f"identifier text contains a separator character: {part!r}")
        lines.append(f"{LETTER[k]}|{owner or ''}|{name}")
    return "\n".join(lines)
