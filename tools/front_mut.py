"""front_mut — single-violation mutants of valid surface trees (DESIGN Appendix B catalogue).

Every mutator works on a deep copy of a valid tree (dict file -> items), places ONE violation at
a random position / nesting depth / file (root or import) and returns
    {"files": mutated tree, "code": expected Front.kind_code or None, "file": key, "node": item,
     "rule": catalogue entry, "trad": bool}
`node` is the item whose line the diagnostic is expected to cite (None: line 0).  The
expectation is the catalogue's reading of the property text; it is compared with the real
compiler separately from the model tie.
"""
from __future__ import annotations

import copy
from typing import Any, Callable, Dict, List, Optional, Tuple

import front_gen as fg


def _slots(files):
    """every place a single type occurs: (file, item, getter, setter, where)"""
    out = []
    for key, items in files.items():
        for it, depth, parent, cont in fg.walk_items(items):
            if it[0] == "field":
                out.append((key, it, 2))
            elif it[0] == "alias":
                out.append((key, it, 3))
    return out


def _scopes(files, kinds=("file", "msg", "enum")):
    """(file, container list, kind, owner item or None, depth)"""
    out = []
    for key, items in files.items():
        if "file" in kinds:
            out.append((key, items, "file", None, 0))
        for it, depth, parent, cont in fg.walk_items(items):
            if it[0] in kinds and it[0] in ("msg", "enum"):
                out.append((key, it[4], it[0], it, depth + 1))
    return out


def _name_of(it):
    return it[3] if it[0] == "field" else (None if it[0] in ("proto", "import") else it[2])


def _free_number(body, rng):
    used = {x[4] for x in body if x[0] == "field"}
    for _ in range(100):
        n = rng.randint(1, 255)
        if n not in used:
            return n
    return None


def _top_index(items, it):
    """index in the file's item list of the top-level item containing it"""
    for i, x in enumerate(items):
        if x is it:
            return i
        if x[0] in ("enum", "msg") and any(y is it for y, _, _, _ in fg.walk_items(x[4])):
            return i
    return 0


def _insert_top_before(files, key, it, new):
    items = files[key]
    items.insert(_top_index(items, it), new)


class Mut:
    def __init__(self, rng):
        self.rng = rng
        self.n = 0

    def z(self, pre="Zq"):
        self.n += 1
        return f"{pre}{self.n}{self.rng.randrange(100)}"

    # ---- 1 widths ----
    def width(self, files):
        rng = self.rng
        cands = []
        for key, it, idx in _slots(files):
            t = it[idx]
            if t[1][0] in ("uint", "int"):
                cands.append((key, it, t[1]))
            elif rng.random() < 0.3 and t[1][0] in ("bool", "byte"):
                cands.append((key, it, t[1]))
        for key, items in files.items():
            for it, *_ in fg.walk_items(items):
                if it[0] == "enum":
                    cands.append((key, it, it[3]))
        if not cands:
            return None
        key, it, sty = rng.choice(cands)
        bad = rng.choice([0, 65, 65, 66, 100, 128, 1000])
        if sty[0] in ("bool", "byte"):
            sty[:] = [rng.choice(["uint", "int"]), bad]
        else:
            sty[1] = bad
        return dict(code=1 if sty[0] == "uint" else 2, file=key, node=it, rule="B1 width")

    # ---- 2 array capacity ----
    def array_cap(self, files):
        rng = self.rng
        slots = _slots(files)
        if not slots:
            return None
        key, it, idx = rng.choice(slots)
        t = it[idx]
        how = rng.choice(["lit0", "lit65536", "const", "expr", "nonint", "neg", "big"])
        ext = t[3] if t[0] == "arr" else False
        sty = t[1]
        if how == "lit0":
            capx = ["lit", 0]
        elif how == "lit65536":
            capx = ["lit", rng.choice([65536, 65537, 100000])]
        else:
            cn = self.z("ZCAP")
            v = {"const": ["expr", ["int", rng.choice([0, 65536])]],
                 "expr": ["expr", rng.choice([["add", ["int", 65535], ["int", 1]], ["mul", ["int", 256], ["int", 256]],
                                              ["sub", ["int", 7], ["int", 7]], ["div", ["int", 3], ["int", 4]]])],
                 "nonint": rng.choice([["bool", True], ["str", "8"]]),
                 "neg": ["expr", ["sub", ["int", 1], ["int", rng.choice([2, 9])]]],
                 "big": ["expr", ["mul", ["int", 65536], ["int", 65536]]]}[how]
            _insert_top_before(files, key, it, ["const", None, cn, v])
            capx = ["ref", [cn]]
        it[idx] = ["arr", sty, capx, ext]
        return dict(code=3, file=key, node=it, rule=f"B2 array capacity ({how})")

    # ---- 4 field numbers ----
    def field_number(self, files):
        rng = self.rng
        fields = [(k, it) for k, its in files.items() for it, *_ in fg.walk_items(its) if it[0] == "field"]
        if not fields:
            return None
        key, it = rng.choice(fields)
        it[4] = rng.choice([0, 256, 256, 257, 1000, 65536])
        return dict(code=15, file=key, node=it, rule="B4 field number range")

    def dup_number(self, files):
        rng = self.rng
        msgs = [(k, it) for k, its in files.items() for it, *_ in fg.walk_items(its)
                if it[0] == "msg" and sum(1 for x in it[4] if x[0] == "field") >= 2]
        if not msgs:
            return None
        key, m = rng.choice(msgs)
        fs = [x for x in m[4] if x[0] == "field"]
        j = rng.randrange(1, len(fs))
        i = rng.randrange(0, j)
        fs[j][4] = fs[i][4]
        return dict(code=16, file=key, node=fs[j], rule="B4 duplicate field number")

    # ---- 5 enums ----
    def enum_overflow(self, files):
        rng = self.rng
        ens = [(k, it) for k, its in files.items() for it, *_ in fg.walk_items(its)
               if it[0] == "enum" and it[3][0] == "uint" and any(x[0] == "efield" for x in it[4])]
        if not ens:
            return None
        key, e = rng.choice(ens)
        n = e[3][1]
        m = rng.choice([x for x in e[4] if x[0] == "efield"])
        m[3] = rng.choice([1 << n, (1 << n) + 1, 1 << (n + 3)])
        return dict(code=12, file=key, node=m, rule="B5 enum value overflow")

    def enum_dup_value(self, files):
        rng = self.rng
        ens = [(k, it) for k, its in files.items() for it, *_ in fg.walk_items(its)
               if it[0] == "enum" and sum(1 for x in it[4] if x[0] == "efield") >= 2]
        if not ens:
            return None
        key, e = rng.choice(ens)
        ms = [x for x in e[4] if x[0] == "efield"]
        j = rng.randrange(1, len(ms))
        ms[j][3] = ms[rng.randrange(0, j)][3]
        return dict(code=13, file=key, node=ms[j], rule="B5 duplicate enum value")

    def enum_base(self, files):
        rng = self.rng
        ens = [(k, it) for k, its in files.items() for it, *_ in fg.walk_items(its) if it[0] == "enum"]
        if not ens:
            return None
        key, e = rng.choice(ens)
        e[3] = rng.choice([["int", 8], ["bool"], ["byte"], ["ref", ["Zbase"]], ["int", 64]])
        return dict(code=34, file=key, node=e, rule="B5 enum over a non-uint type")

    # ---- 6 duplicate names ----
    def dup_name(self, files):
        rng = self.rng
        cands = []
        for key, cont, kind, owner, depth in _scopes(files):
            named = [x for x in cont if _name_of(x) is not None and x[0] != "option"]
            if len(named) >= 2:
                cands.append((key, named))
        if not cands:
            return None
        key, named = rng.choice(cands)
        j = rng.randrange(1, len(named))
        i = rng.randrange(0, j)
        nm = _name_of(named[i])
        if named[j][0] == "field":
            named[j][3] = nm
        else:
            named[j][2] = nm
        return dict(code=4, file=key, node=named[j], rule="B6 duplicate name in one scope")

    def dup_import_name(self, files):
        rng = self.rng
        cands = [(k, its) for k, its in files.items() if any(x[0] == "import" for x in its)]
        if not cands:
            return None
        key, items = rng.choice(cands)
        imps = [x for x in items if x[0] == "import"]
        how = rng.choice(["def", "two"] if len(imps) >= 2 else ["def"])
        if how == "two":
            # bound name of the first import: its as-name or the proto name (= file key stem)
            first = imps[0]
            nm = first[2] if first[2] is not None else first[3][:-len(".bitproto")]
            imps[1][2] = nm
            return dict(code=4, file=key, node=imps[1], rule="B6 two imports under one name")
        imp = rng.choice(imps)
        nm = imp[2] if imp[2] is not None else imp[3][:-len(".bitproto")]
        later = [x for x in items[items.index(imp) + 1:] if x[0] in ("const", "alias", "enum", "msg")]
        if not later:
            return None
        d = rng.choice(later)
        d[2] = nm
        # the FIRST item of that name after the import is the one reported
        firstdup = next(x for x in items[items.index(imp) + 1:] if _name_of(x) == nm)
        return dict(code=4, file=key, node=firstdup, rule="B6 import name vs definition")

    # ---- 7 message size ----
    def max_bytes(self, files):
        rng = self.rng
        msgs = [(k, it) for k, its in files.items() for it, *_ in fg.walk_items(its)
                if it[0] == "msg" and len(it) > 5 and it[5]["nbits"] > 8]
        if not msgs:
            return None
        key, m = rng.choice(msgs)
        nb = (m[5]["nbits"] + 7) // 8
        m[4][:] = [x for x in m[4] if not (x[0] == "option" and x[2] == "max_bytes")]
        m[4].insert(rng.randint(0, len(m[4])), ["option", None, "max_bytes", ["lit", ["i", nb - 1]]])
        return dict(code=19, file=key, node=m, rule="B7 max_bytes exceeded by one byte")

    def max_bytes_ok(self, files):
        rng = self.rng
        msgs = [(k, it) for k, its in files.items() for it, *_ in fg.walk_items(its)
                if it[0] == "msg" and len(it) > 5 and it[5]["nbits"] > 0]
        if not msgs:
            return None
        key, m = rng.choice(msgs)
        nb = (m[5]["nbits"] + 7) // 8
        m[4][:] = [x for x in m[4] if not (x[0] == "option" and x[2] == "max_bytes")]
        m[4].insert(rng.randint(0, len(m[4])), ["option", None, "max_bytes", ["lit", ["i", nb]]])
        return dict(code=0, file=key, node=None, rule="B7 max_bytes boundary accepted")

    def msg_too_big(self, files):
        rng = self.rng
        msgs = [(k, it) for k, its in files.items() for it, *_ in fg.walk_items(its)
                if it[0] == "msg" and len(it) > 5]
        if not msgs:
            return None
        key, m = rng.choice(msgs)
        nb = m[5]["nbits"]
        num = _free_number(m[4], rng)
        if num is None or nb > 60000:
            return None
        need = 65536 - nb
        ok = rng.random() < 0.4
        if ok:
            need -= 1
        if need < 1:
            return None
        # bool[need] fills the message to exactly 65536 (rejected) or 65535 (accepted) bits
        while need > 0:
            c = min(need, 65535)
            m[4].append(["field", None, ["arr", ["bool"], ["lit", c], False] if c > 1 else ["single", ["bool"]],
                         self.z("zpad"), num])
            need -= c
            num = _free_number(m[4], rng)
            if num is None:
                return None
        if any(x[0] == "option" and x[2] == "max_bytes" and x[3] != ["lit", ["i", 0]] for x in m[4]):
            return dict(code=None, file=key, node=m, rule="B7 message size (with max_bytes)")
        return dict(code=None if ok else 19, file=key, node=None if ok else m,
                    rule="B7 message of 65535 / 65536 bits")

    # ---- 8 aliases of named types ----
    def alias_named(self, files):
        rng = self.rng
        cands = [(k, its, x) for k, its in files.items() for x in its if x[0] in ("alias", "enum", "msg")]
        if not cands:
            return None
        key, items, d = rng.choice(cands)
        # a later top-level item of the same name cannot exist (valid tree): [name] resolves to d
        new = ["alias", None, self.z("ZAl"), ["single", ["ref", [d[2]]]]]
        items.insert(rng.randint(items.index(d) + 1, len(items)), new)
        return dict(code=14, file=key, node=new, rule=f"B8 alias of a {d[0]}")

    # ---- 9 items in scopes that forbid them ----
    def in_message(self, files):
        rng = self.rng
        sc = _scopes(files, ("msg",))
        if not sc:
            return None
        key, body, _, owner, depth = rng.choice(sc)
        what = rng.choice(["alias", "const", "proto"])
        new, code = {"alias": (["alias", None, self.z("ZAl"), ["single", ["uint", 3]]], 20),
                     "const": (["const", None, self.z("ZC"), ["expr", ["int", 1]]], 21),
                     "proto": (["proto", None, "zproto"], 23)}[what]
        body.insert(rng.randint(0, len(body)), new)
        return dict(code=code, file=key, node=new, rule=f"B9 {what} inside a message")

    def in_enum(self, files):
        rng = self.rng
        sc = _scopes(files, ("enum",))
        if not sc:
            return None
        key, body, _, owner, depth = rng.choice(sc)
        what = rng.choice(["alias", "const", "option", "enum", "msg", "field", "proto"])
        new, code = {"alias": (["alias", None, self.z("ZAl"), ["single", ["uint", 3]]], 24),
                     "const": (["const", None, self.z("ZC"), ["expr", ["int", 1]]], 25),
                     "option": (["option", None, rng.choice(["max_bytes", "zopt"]), ["lit", ["i", 1]]], 27),
                     "enum": (["enum", None, self.z("ZE"), ["uint", 3], []], 28),
                     "msg": (["msg", None, self.z("ZM"), False, []], 29),
                     "field": (["field", None, ["single", ["uint", 3]], self.z("zf"), 1], 30),
                     "proto": (["proto", None, "zproto"], 23)}[what]
        body.insert(rng.randint(0, len(body)), new)
        return dict(code=code, file=key, node=new, rule=f"B9 {what} inside an enum")

    def import_in_scope(self, files):
        rng = self.rng
        sc = _scopes(files, ("msg", "enum"))
        if not sc:
            return None
        key, body, kind, owner, depth = rng.choice(sc)
        lib = self.z("zlib")
        files[lib + ".bitproto"] = [["proto", None, lib]]
        new = ["import", None, None, lib + ".bitproto"]
        body.insert(rng.randint(0, len(body)), new)
        return dict(code=22 if kind == "msg" else 26, file=key, node=new, rule=f"B9 import inside a{' message' if kind == 'msg' else 'n enum'}")

    # ---- 10 options ----
    def option(self, files):
        rng = self.rng
        how = rng.choice(["unknown", "type", "range", "msg_at_file", "file_in_msg", "neg"])
        msgs = _scopes(files, ("msg",))
        if how in ("file_in_msg", "neg") and not msgs:
            how = "unknown"
        if how in ("unknown", "type", "range") and msgs and rng.random() < 0.5:
            key, body, _, owner, depth = rng.choice(msgs)
            body[:] = [x for x in body if not (x[0] == "option" and x[2] == "max_bytes")]
            new = {"unknown": ["option", None, rng.choice(["zzz", "max_bits", "c.name_prefix_"]), ["lit", ["i", 1]]],
                   "type": ["option", None, "max_bytes", ["lit", rng.choice([["b", True], ["s", "12"]])]],
                   "range": None}[how]
            if new is None:
                cn = self.z("ZNEG")
                _insert_top_before(files, key, owner, ["const", None, cn, ["expr", ["sub", ["int", 0], ["int", 1]]]])
                new = ["option", None, "max_bytes", ["ref", [cn]]]
            body.insert(rng.randint(0, len(body)), new)
            return dict(code=17 if how == "unknown" else 18, file=key, node=new, rule=f"B10 option ({how}, message)")
        if how in ("file_in_msg", "neg"):
            key, body, _, owner, depth = rng.choice(msgs)
            if how == "neg":
                cn = self.z("ZNEG")
                _insert_top_before(files, key, owner, ["const", None, cn, ["expr", ["sub", ["int", 3], ["int", 9]]]])
                body[:] = [x for x in body if not (x[0] == "option" and x[2] == "max_bytes")]
                new = ["option", None, "max_bytes", ["ref", [cn]]]
                code = 18
            else:
                new = ["option", None, rng.choice(["c.name_prefix", "py.module_name"]), ["lit", ["s", "x"]]]
                code = 17
            body.insert(rng.randint(0, len(body)), new)
            return dict(code=code, file=key, node=new, rule=f"B10 option ({how})")
        key = rng.choice(list(files))
        items = files[key]
        names = {x[2] for x in items if x[0] == "option"}
        new, code = {
            "unknown": (["option", None, rng.choice(["zzz", "c.prefix", "go.package"]), ["lit", ["s", "v"]]], 17),
            "type": (rng.choice([["option", None, "go.package_path", ["lit", ["i", 3]]],
                                 ["option", None, "c.struct_packing_alignment", ["lit", ["s", "4"]]],
                                 ["option", None, "py.module_name", ["lit", ["b", False]]]]), 18),
            "range": (["option", None, "c.struct_packing_alignment", ["lit", ["i", rng.choice([9, 16, 100])]]], 18),
            "msg_at_file": (["option", None, "max_bytes", ["lit", ["i", 8]]], 17),
        }[how]
        if new[2] in names:
            return None
        items.insert(rng.randint(0, len(items)), new)
        return dict(code=code, file=key, node=new, rule=f"B10 option ({how}, file)")

    # ---- 11 references ----
    def _field_into(self, files, sty_fn, code, rule, later=None, before=None):
        """insert a field with the given type into a random message"""
        rng = self.rng
        msgs = _scopes(files, ("msg",))
        if not msgs:
            return None
        key, body, _, owner, depth = rng.choice(msgs)
        num = _free_number(body, rng)
        if num is None:
            return None
        sty = sty_fn(key, owner)
        t = ["single", sty] if rng.random() < 0.7 else ["arr", sty, ["lit", 2], False]
        new = ["field", None, t, self.z("zf"), num]
        body.insert(rng.randint(0, len(body)), new)
        return dict(code=code, file=key, node=new, rule=rule)

    def undefined_type(self, files):
        return self._field_into(files, lambda k, o: ["ref", self.rng.choice([["Nope"], ["Nope", "X"], ["zz", "Q", "R"]])],
                                9, "B11 undefined type")

    def later_type(self, files):
        def sty(key, owner):
            nm = self.z("ZLater")
            kind = self.rng.choice(["msg", "enum", "alias"])
            new = {"msg": ["msg", None, nm, False, [["field", None, ["single", ["bool"]], "a", 1]]],
                   "enum": ["enum", None, nm, ["uint", 2], [["efield", None, "ZA", 0]]],
                   "alias": ["alias", None, nm, ["single", ["uint", 5]]]}[kind]
            items = files[key]
            items.insert(self.rng.randint(_top_index(items, owner) + 1, len(items)), new)
            return ["ref", [nm]]
        return self._field_into(files, sty, 9, "B11 type defined later")

    def extend_path(self, files):
        """a valid reference followed by a component that exists nowhere: nothing resolves it,
        whatever kind of definition the valid prefix denotes"""
        rng = self.rng
        refs = [(k, it, idx) for k, it, idx in _slots(files) if it[idx][1][0] == "ref"]
        if not refs:
            return None
        key, it, idx = rng.choice(refs)
        it[idx][1][1] = list(it[idx][1][1]) + [self.z("Zx")]
        return dict(code=9, file=key, node=it, rule="B11 path continued past a definition that has no such member")

    def importer_not_visible(self, files):
        """a definition of an IMPORTING file (direct or indirect importer), declared before the import
        statement, is not visible inside the imported file: used there as a field type, an array
        capacity, an option value or in a constant expression"""
        rng = self.rng
        edges = [(k, its, x) for k, its in files.items() for x in its if x[0] == "import" and x[3] in files]
        if not edges:
            return None
        key, items, imp = rng.choice(edges)
        # the file that uses the name: the imported file or one that it imports in turn (any depth)
        user = imp[3]
        chain = [user]
        while rng.random() < 0.5:
            nxt = [x[3] for x in files[user] if x[0] == "import" and x[3] in files and x[3] not in chain and x[3] != key]
            if not nxt:
                break
            user = rng.choice(nxt)
            chain.append(user)
        single = all(sum(1 for kk, its in files.items() for x in its if x[0] == "import" and x[3] == c) == 1 for c in chain)
        child = files[user]
        use = rng.choice(["type", "type", "cap", "option", "const"])
        nm = self.z("ZUp")
        if use == "type":
            decl = rng.choice([["enum", None, nm, ["uint", 2], [["efield", None, "ZA", 0]]],
                               ["alias", None, nm, ["single", ["uint", 5]]],
                               ["msg", None, nm, False, [["field", None, ["single", ["bool"]], "a", 1]]]])
        else:
            decl = ["const", None, nm, ["expr", ["int", 3]]]
        items.insert(rng.randint(0, items.index(imp)), decl)
        if use == "const":
            new = ["const", None, self.z("ZK"), rng.choice([["ref", [nm]], ["expr", ["add", ["ref", [nm]], ["int", 1]]]])]
            child.insert(rng.randint(0, len(child)), new)
            code = 7
        else:
            if use == "type":
                new = ["field", None, ["single", ["ref", [nm]]], self.z("zf"), None]
                code = 9
            elif use == "cap":
                new = ["field", None, ["arr", ["bool"], ["ref", [nm]], False], self.z("zf"), None]
                code = 7
            else:
                new = ["option", None, "max_bytes", ["ref", [nm]]]
                code = 7
            msgs = [x for x in child if x[0] == "msg"]
            if msgs and rng.random() < 0.8:
                m = rng.choice(msgs)
            else:
                m = ["msg", None, self.z("ZM"), False, []]
                child.append(m)
            if new[0] == "field":
                new[4] = _free_number(m[4], rng)
                if new[4] is None:
                    return None
                m[4].insert(rng.randint(0, len(m[4])), new)
            else:
                m[4][:] = [x for x in m[4] if not (x[0] == "option" and x[2] == "max_bytes")]
                m[4].insert(rng.randint(0, len(m[4])), new)
        return dict(code=code if single else None, file=user, node=new,
                    rule=f"B11 definition of an importing file used inside an imported file ({use}, depth {len(chain)})")

    def inner_not_visible(self, files):
        """a definition nested in a sibling message is not visible without its path"""
        def sty(key, owner):
            nm, inner = self.z("ZOuter"), self.z("ZInner")
            items = files[key]
            items.insert(_top_index(items, owner), ["msg", None, nm, False,
                                                    [["enum", None, inner, ["uint", 2], [["efield", None, "ZA", 0]]]]])
            return ["ref", [inner]]
        return self._field_into(files, sty, 9, "B11 nested definition referenced without its path")

    def const_as_type(self, files):
        def sty(key, owner):
            cn = self.z("ZC")
            _insert_top_before(files, key, owner, ["const", None, cn, ["expr", ["int", 3]]])
            return ["ref", [cn]]
        return self._field_into(files, sty, 10, "B11 constant used as a type")

    def type_as_const(self, files):
        rng = self.rng
        key = rng.choice(list(files))
        items = files[key]
        en = self.z("ZE")
        how = rng.choice(["type", "member", "undefined", "boolexpr", "strexpr", "cap_undefined"])
        pos = rng.randint(0, len(items))
        if how == "type":
            items.insert(pos, ["enum", None, en, ["uint", 2], [["efield", None, "ZA", 0]]])
            new = ["const", None, self.z("ZK"), rng.choice([["ref", [en]], ["expr", ["add", ["ref", [en]], ["int", 1]]]])]
            code = 8
        elif how == "member":
            items.insert(pos, ["enum", None, en, ["uint", 2], [["efield", None, "ZA", 0]]])
            new = ["const", None, self.z("ZK"), ["ref", [en, "ZA"]]]
            code = 8
        elif how == "undefined":
            new = ["const", None, self.z("ZK"), rng.choice([["ref", ["NOPE"]], ["expr", ["mul", ["int", 2], ["ref", ["NOPE", "X"]]]]])]
            pos -= 1
            code = 7
        elif how == "cap_undefined":
            new = ["alias", None, self.z("ZAl"), ["arr", ["uint", 3], ["ref", ["NOPE"]], False]]
            pos -= 1
            code = 7
        else:
            cn = self.z("ZB")
            items.insert(pos, ["const", None, cn, ["bool", True] if how == "boolexpr" else ["str", "s"]])
            new = ["const", None, self.z("ZK"), ["expr", rng.choice([["add", ["ref", [cn]], ["int", 1]],
                                                                     ["mul", ["int", 2], ["ref", [cn]]], ["ref", [cn]]])]]
            code = 33
        items.insert(rng.randint(pos + 1, len(items)), new)
        return dict(code=code, file=key, node=new, rule=f"B11 constant reference ({how})")

    def div_zero(self, files):
        """division by zero in a constant expression (directly or through a constant)"""
        rng = self.rng
        key = rng.choice(list(files))
        items = files[key]
        zn = self.z("ZZ")
        pos = rng.randint(0, len(items))
        items.insert(pos, ["const", None, zn, ["expr", ["sub", ["int", 4], ["int", 4]]]])
        d = rng.choice([["int", 0], ["ref", [zn]], ["mul", ["ref", [zn]], ["int", 7]]])
        new = ["const", None, self.z("ZK"), ["expr", rng.choice([["div", ["int", 9], d], ["add", ["int", 1], ["div", ["int", 2], d]]])]]
        items.insert(rng.randint(pos + 1, len(items)), new)
        return dict(code=33, file=key, node=new, rule="division by zero in a constant expression")

    def scenario_insert(self, files):
        """one of the round-2 scenario families (same dotted text reused, cross-kind shadowing, a
        member named like a visible definition, twin short names) appended to a random file of a
        valid tree, every identifier prefixed so that nothing else is disturbed"""
        rng = self.rng
        sfiles, _top, info = fg.scenario(rng, in_import=False)
        if len(sfiles) != 1:
            return None
        items = sfiles["rootp.bitproto"][1:]
        pre = self.z("Zs")
        fg.map_names(items, lambda n: pre + n)
        key = rng.choice(list(files))
        pos = rng.randint(0, len(files[key]))
        files[key][pos:pos] = items
        code, node = info["expect"]
        n_importers = sum(1 for kk, its in files.items() for x in its if x[0] == "import" and x[3] == key)
        return dict(code=code if (n_importers <= 1) else None, file=key, node=node,
                    rule=f"scenario {info['family']}/{info['variant']}")

    def big_division_cap(self, files):
        """an array capacity written as a quotient of operands beyond 2^53 (exact integer division)"""
        rng = self.rng
        slots = [(k, it, idx) for k, it, idx in _slots(files) if it[idx][0] == "arr" and it[idx][2][0] == "lit"]
        if not slots:
            return None
        key, it, idx = rng.choice(slots)
        n = it[idx][2][1]
        d = 1 << rng.choice([54, 56, 60, 62, 64])
        cn = self.z("ZBIG")
        _insert_top_before(files, key, it, ["const", None, cn, ["expr", ["div", ["int", (n + 1) * d - 1], ["int", d]]]])
        it[idx][2] = ["ref", [cn]]
        return dict(code=0, file=key, node=None, rule="capacity as a quotient of operands beyond 2^53")

    # ---- 12 imports ----
    def import_cycle(self, files):
        rng = self.rng
        keys = list(files)
        root = keys[0]
        # chains root -> ... -> k (by existing imports)
        chains = {root: [root]}
        todo = [root]
        while todo:
            k = todo.pop()
            for x in files[k]:
                if x[0] == "import" and x[3] in files and x[3] not in chains:
                    chains[x[3]] = chains[k] + [x[3]]
                    todo.append(x[3])
        k = rng.choice(list(chains))
        target = rng.choice(chains[k])
        new = ["import", None, rng.choice([None, self.z("zi")]), target]
        # when some file is reached by two chains the first import in parse order decides; only
        # files with a single importer get an expectation
        n_importers = sum(1 for kk, its in files.items() for x in its if x[0] == "import" and x[3] == k)
        files[k].insert(rng.randint(0, len(files[k])), new)
        exp = 6 if (n_importers <= 1 and all(
            sum(1 for kk, its in files.items() for x in its if x[0] == "import" and x[3] == c) <= 1 for c in chains[k][1:])) else None
        return dict(code=exp, file=k, node=new, rule=f"B12 import cycle of length {len(chains[k]) - chains[k].index(target)}")

    def import_twice(self, files):
        rng = self.rng
        cands = [(k, its, x) for k, its in files.items() for x in its if x[0] == "import"]
        if not cands:
            return None
        key, items, imp = rng.choice(cands)
        new = ["import", None, self.z("zi"), imp[3]]
        items.insert(rng.randint(items.index(imp) + 1, len(items)), new)
        return dict(code=5, file=key, node=new, rule="B12 the same file imported twice")

    def import_missing(self, files):
        rng = self.rng
        key = rng.choice(list(files))
        new = ["import", None, None, "zmissing.bitproto"]
        files[key].insert(rng.randint(0, len(files[key])), new)
        return dict(code=35, file="zmissing.bitproto", node=None, rule="B12 missing file (OS error)")

    # ---- 13 proto statement / traditional mode ----
    def no_proto(self, files):
        rng = self.rng
        key = rng.choice(list(files))
        files[key][:] = [x for x in files[key] if x[0] != "proto"]
        n_importers = sum(1 for kk, its in files.items() for x in its if x[0] == "import" and x[3] == key)
        return dict(code=31, file=key, node=None, rule="B13 missing proto statement")

    def traditional(self, files):
        rng = self.rng
        # remove every extensible marker, then put exactly one back
        marks = []
        for key, items in files.items():
            for it, *_ in fg.walk_items(items):
                if it[0] == "msg":
                    it[3] = False
                    marks.append((key, it, "msg"))
                for idx in ((2,) if it[0] == "field" else (3,) if it[0] == "alias" else ()):
                    if it[idx][0] == "arr":
                        it[idx][3] = False
                        marks.append((key, it, idx))
        if not marks:
            return None
        key, it, w = rng.choice(marks)
        if w == "msg":
            it[3] = True
        else:
            it[w][3] = True
        return dict(code=32, file=key, node=it, rule="B13 extensible marker in traditional mode", trad=True)

    def grammar_misplaced(self, files):
        rng = self.rng
        how = rng.choice(["field_top", "efield_top", "efield_msg"])
        if how == "efield_msg":
            sc = _scopes(files, ("msg",))
            if not sc:
                return None
            key, body, *_ = rng.choice(sc)
            new = ["efield", None, self.z("ZA"), 1]
            body.insert(rng.randint(0, len(body)), new)
        else:
            key = rng.choice(list(files))
            new = (["field", None, ["single", rng.choice([["uint", 3], ["bool"], ["ref", ["Zt"]]])], self.z("zf"), 1]
                   if how == "field_top" else ["efield", None, self.z("ZA"), 1])
            files[key].insert(rng.randint(0, len(files[key])), new)
        return dict(code=34, file=key, node=new, rule=f"grammar: {how}")

    ALL = ["width", "array_cap", "field_number", "dup_number", "enum_overflow", "enum_dup_value", "enum_base",
           "dup_name", "dup_import_name", "max_bytes", "max_bytes_ok", "msg_too_big", "alias_named", "in_message",
           "in_enum", "import_in_scope", "option", "undefined_type", "later_type", "inner_not_visible",
           "extend_path", "importer_not_visible", "div_zero", "scenario_insert", "big_division_cap",
           "const_as_type", "type_as_const", "import_cycle", "import_twice", "import_missing", "no_proto",
           "traditional", "grammar_misplaced"]


def mutate(files, rng, which: Optional[str] = None, tries: int = 8):
    """Returns (mutated files, info) or None."""
    for _ in range(tries):
        name = which or rng.choice(Mut.ALL)
        f2 = copy.deepcopy(files)
        m = Mut(rng)
        info = getattr(m, name)(f2)
        if info is not None:
            info["mutator"] = name
            info["files"] = f2
            return info
        if which:
            continue
    return None
