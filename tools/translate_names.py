"""translate_names — tie T0 for C15: regenerate coq/gen/GenNames.v from the naming code of
/repo's compiler on every run.

Translated (a change there changes the Coq model, or breaks the translation):
  * utils.py: the nine `_snakecase_re_*` patterns, parsed with CPython's own regex parser
    into character classes (lists of code ranges); only the pattern SHAPES the hand-written
    scanners of Names.v implement are accepted;
  * renderer/formatter.py: CaseStyle.from_name's table, the three formatters'
    case_style_mapping tables (resolved per definition kind through the real class hierarchy
    of _ast.py, the way CaseStyleMapping.__getitem__ walks the MRO), the delimiters, the
    namespace scopes, support_import_as_member, the prefix option name, the "_bp" suffix;
  * block.py / renderer_h.py / go,py renderers / c formatter: the literal name templates
    ("BYTES_LENGTH_" + upper(snake(.)), "Encode{}", "Decode{}", "Json{}", helper prefixes,
    Go/Python method names, the Go struct-tag template, the file extensions).
Hand-modelled control structure (pascal_case, snake_case's pass order, the enclosing-name
walk, format_case_style, ...) is pinned by AST digests (coq/ref/skeletons_names.json).
"""
from __future__ import annotations

import ast
import os
import re._parser as sre
import re._constants as srec
from typing import Any, Dict, List, Optional, Sequence, Tuple

from translate import find_func, skeleton_digest, strip_doc
from vlib import REPO, Broken

UTILS = "compiler/bitproto/utils.py"
FMT = "compiler/bitproto/renderer/formatter.py"
BLOCK = "compiler/bitproto/renderer/block.py"
ASTPY = "compiler/bitproto/_ast.py"
RENDERER = "compiler/bitproto/renderer/renderer.py"
LANG_FMT = {"LC": "compiler/bitproto/renderer/impls/c/formatter.py",
            "LGo": "compiler/bitproto/renderer/impls/go/formatter.py",
            "LPy": "compiler/bitproto/renderer/impls/py/formatter.py"}
LANG_FMT_CLASS = {"LC": "CFormatter", "LGo": "GoFormatter", "LPy": "PyFormatter"}
C_H = "compiler/bitproto/renderer/impls/c/renderer_h.py"
C_C = "compiler/bitproto/renderer/impls/c/renderer_c.py"
GO_R = "compiler/bitproto/renderer/impls/go/renderer.py"
PY_R = "compiler/bitproto/renderer/impls/py/renderer.py"
BP_PY = "lib/py/bitprotolib/bp.py"

KINDS = [("KConstant", ["IntegerConstant", "BooleanConstant", "StringConstant", "Constant"]),
         ("KAlias", ["Alias"]), ("KEnum", ["Enum"]), ("KEnumField", ["EnumField"]),
         ("KMessage", ["Message"]), ("KMessageField", ["MessageField"])]
STYLE_OF_MEMBER = {"KEEP": "SKeep", "SNAKE": "SSnake", "UPPER": "SUpper", "PASCAL": "SPascal"}
CONVERTER_OF_STYLE = {"SSnake": "snake_case", "SUpper": "upper_case", "SPascal": "pascal_case",
                      "SKeep": "keep_case"}


def _parse(rel: str) -> ast.Module:
    path = os.path.join(REPO, rel)
    try:
        return ast.parse(open(path).read())
    except (OSError, SyntaxError) as e:
        raise Broken(f"translator(names): cannot read {rel}", str(e))


def cstr(s: str) -> str:
    for ch in s:
        if ord(ch) < 32 or ord(ch) > 126:
            raise Broken("translator(names): non-printable character in a literal", repr(s))
    return '"' + s.replace('"', '""') + '"'


# --------------------------------------------------------------------------------------
# regular expressions -> character classes
# --------------------------------------------------------------------------------------

def _cls(item) -> List[Tuple[int, int]]:
    """One pattern item that matches exactly one character -> list of code ranges."""
    op, av = item
    if op is srec.ANY:
        return [(0, 9), (11, 255)]          # `.` without DOTALL: anything but "\n"
    if op is srec.LITERAL:
        return [(av, av)]
    if op is srec.IN:
        out = []
        for o, a in av:
            if o is srec.RANGE:
                out.append((a[0], a[1]))
            elif o is srec.LITERAL:
                out.append((a, a))
            else:
                raise Broken("translator(names): unsupported item in a character class", repr(av))
        return out
    raise Broken("translator(names): pattern item is not a single-character matcher", repr(item))


def _plus(item) -> List[Tuple[int, int]]:
    """X+ (greedy) -> class of X."""
    op, av = item
    if op is srec.MAX_REPEAT and av[0] == 1 and av[1] is srec.MAXREPEAT and len(av[2]) == 1:
        return _cls(av[2][0])
    raise Broken("translator(names): expected X+", repr(item))


def _group(item, n: int) -> list:
    op, av = item
    if op is srec.SUBPATTERN and av[0] == n and av[1] == 0 and av[2] == 0:
        return list(av[3])
    raise Broken(f"translator(names): expected capture group {n}", repr(item))


def _is_at(item, which) -> bool:
    return item[0] is srec.AT and item[1] is which


def cclass(rs: List[Tuple[int, int]]) -> str:
    return "[" + "; ".join(f"({a}, {b})" for a, b in rs) + "]%N"


def regex_defs(tree: ast.Module) -> List[str]:
    pats: Dict[str, str] = {}
    for n in tree.body:
        if (isinstance(n, ast.Assign) and len(n.targets) == 1 and isinstance(n.targets[0], ast.Name)
                and n.targets[0].id.startswith("_snakecase_re_")):
            v = n.value
            if not (isinstance(v, ast.Call) and ast.unparse(v.func) == "re.compile" and len(v.args) == 1
                    and not v.keywords and isinstance(v.args[0], ast.Constant) and isinstance(v.args[0].value, str)):
                raise Broken("translator(names): a _snakecase_re_* constant is not re.compile(<literal>)",
                             ast.unparse(n))
            pats[n.targets[0].id[len("_snakecase_re_"):]] = v.args[0].value
    want = ["camel_b1", "camel_b2", "alpha_to_digit", "digit_to_alpha", "multi_us", "upper_or_digits",
            "mixed_case", "leading_us", "trailing_us"]
    if sorted(pats) != sorted(want):
        raise Broken("translator(names): the set of _snakecase_re_* patterns changed", str(sorted(pats)))
    out = ["(* utils.py: the regular expressions of snake_case, as written *)"]
    for k in want:
        out.append(f"Definition pat_{k} : string := {cstr(pats[k])}.")
    out.append("")
    P = {k: list(sre.parse(v)) for k, v in pats.items()}

    def bad(k):
        raise Broken(f"translator(names): pattern _snakecase_re_{k} = {pats[k]!r} does not have the shape the "
                     f"scanner of Names.v implements", repr(P[k]))

    # (.)([A-Z][a-z]+): one char, then a head char followed by a greedy run
    p = P["camel_b1"]
    if len(p) != 2:
        bad("camel_b1")
    g1, g2 = _group(p[0], 1), _group(p[1], 2)
    if len(g1) != 1 or len(g2) != 2:
        bad("camel_b1")
    out.append(f"Definition b1_first : cclass := {cclass(_cls(g1[0]))}.")
    out.append(f"Definition b1_head : cclass := {cclass(_cls(g2[0]))}.")
    out.append(f"Definition b1_run : cclass := {cclass(_plus(g2[1]))}.")
    # three two-group, two-character patterns
    for k, nm in (("camel_b2", "b2"), ("alpha_to_digit", "a2d"), ("digit_to_alpha", "d2a")):
        p = P[k]
        if len(p) != 2:
            bad(k)
        g1, g2 = _group(p[0], 1), _group(p[1], 2)
        if len(g1) != 1 or len(g2) != 1:
            bad(k)
        out.append(f"Definition {nm}_left : cclass := {cclass(_cls(g1[0]))}.")
        out.append(f"Definition {nm}_right : cclass := {cclass(_cls(g2[0]))}.")
    # __+ : the same literal twice-or-more
    p = P["multi_us"]
    if not (len(p) == 2 and p[0][0] is srec.LITERAL and _plus(p[1]) == [(p[0][1], p[0][1])]):
        bad("multi_us")
    out.append(f"Definition multi_char : N := {p[0][1]}%N.")
    # ^[A-Z0-9]+$ (used with fullmatch)
    p = P["upper_or_digits"]
    if not (len(p) == 3 and _is_at(p[0], srec.AT_BEGINNING) and _is_at(p[2], srec.AT_END)):
        bad("upper_or_digits")
    out.append(f"Definition upper_or_digits : cclass := {cclass(_plus(p[1]))}.")
    # X.*Y|Y'.*X'
    p = P["mixed_case"]
    if not (len(p) == 1 and p[0][0] is srec.BRANCH and p[0][1][0] is None and len(p[0][1][1]) == 2):
        bad("mixed_case")
    for i, br in enumerate(p[0][1][1], 1):
        if not (len(br) == 3 and br[1][0] is srec.MAX_REPEAT and br[1][1][0] == 0 and br[1][1][1] is srec.MAXREPEAT
                and len(br[1][1][2]) == 1 and br[1][1][2][0][0] is srec.ANY):
            bad("mixed_case")
        out.append(f"Definition mixed_{i}a : cclass := {cclass(_cls(br[0]))}.")
        out.append(f"Definition mixed_{i}b : cclass := {cclass(_cls(br[2]))}.")
    out.append(f"Definition mixed_between : cclass := {cclass(_cls((srec.ANY, None)))}.")
    # ^_+  and  _+$
    p = P["leading_us"]
    if not (len(p) == 2 and _is_at(p[0], srec.AT_BEGINNING)):
        bad("leading_us")
    out.append(f"Definition leading_class : cclass := {cclass(_plus(p[1]))}.")
    p = P["trailing_us"]
    if not (len(p) == 2 and _is_at(p[1], srec.AT_END)):
        bad("trailing_us")
    out.append(f"Definition trailing_class : cclass := {cclass(_plus(p[0]))}.")
    return out


def snake_literals(tree: ast.Module) -> List[str]:
    """The string literals inside snake_case / pascal_case that the scanners use: the
    replacement templates, the '-' -> '_' replacement, the split/join/strip character."""
    fn = find_func(tree, "snake_case")
    subs: Dict[str, str] = {}
    lits: Dict[str, List[str]] = {}
    for n in ast.walk(fn):
        if isinstance(n, ast.Call) and isinstance(n.func, ast.Attribute):
            a = n.func.attr
            recv = ast.unparse(n.func.value)
            if a == "sub" and recv.startswith("_snakecase_re_"):
                if not (len(n.args) == 2 and isinstance(n.args[0], ast.Constant)):
                    raise Broken("translator(names): snake_case: unexpected .sub(...) call", ast.unparse(n))
                subs[recv[len("_snakecase_re_"):]] = n.args[0].value
            elif a in ("replace", "split", "join", "strip"):
                vals = [x.value for x in n.args if isinstance(x, ast.Constant)]
                if a == "join":
                    vals = [n.func.value.value] if isinstance(n.func.value, ast.Constant) else []
                lits.setdefault(a, []).append("|".join(map(str, vals)))
    want_subs = {"camel_b1": r"\1_\2", "camel_b2": r"\1_\2", "alpha_to_digit": r"\1_\2",
                 "digit_to_alpha": r"\1_\2", "multi_us": "_"}
    seps = set()
    for k in want_subs:
        if k not in subs:
            raise Broken(f"translator(names): snake_case no longer substitutes with _snakecase_re_{k}")
        v = subs[k]
        if k == "multi_us":
            if len(v) != 1:
                raise Broken("translator(names): replacement of multi_us is not one character", repr(v))
            seps.add(v)
        else:
            m = __import__("re").fullmatch(r"\\1(.)\\2", v)
            if not m:
                raise Broken(f"translator(names): replacement template of {k} is not \\1<c>\\2", repr(v))
            seps.add(m.group(1))
    if lits.get("replace") != ["-|_"] or lits.get("split") != ["_"] or lits.get("join") != ["_"] \
            or lits.get("strip") != ["_"]:
        raise Broken("translator(names): snake_case: replace/split/join/strip literals changed", str(lits))
    seps.add("_")
    if len(seps) != 1:
        raise Broken("translator(names): snake_case uses different separator characters", str(seps))
    sep = seps.pop()
    out = [f"Definition sep_char : N := {ord(sep)}%N.   (* {sep!r}: sub templates, split, join, strip *)",
           f"Definition dash_char : N := {ord('-')}%N.  (* word.replace('-', sep) *)"]
    # pascal_case: word.split("_")
    fn = find_func(tree, "pascal_case")
    sp = [ast.unparse(n) for n in ast.walk(fn) if isinstance(n, ast.Call) and isinstance(n.func, ast.Attribute)
          and n.func.attr == "split"]
    if sp != ["word.split('_')"]:
        raise Broken("translator(names): pascal_case: split literal changed", str(sp))
    out.append(f"Definition pascal_split_char : N := {ord('_')}%N.")
    return out


# --------------------------------------------------------------------------------------
# formatter.py: tables and constants
# --------------------------------------------------------------------------------------

def class_hierarchy(tree: ast.Module) -> Dict[str, type]:
    """Rebuild the class hierarchy of _ast.py (names and bases only) with dummy classes, so
    that Python itself computes the MRO CaseStyleMapping.__getitem__ walks."""
    made: Dict[str, type] = {}
    for n in tree.body:
        if isinstance(n, ast.ClassDef):
            bases = []
            for b in n.bases:
                if isinstance(b, ast.Name) and b.id in made:
                    bases.append(made[b.id])
                elif isinstance(b, ast.Name) and b.id in ("object",):
                    pass
                elif isinstance(b, (ast.Name, ast.Subscript, ast.Attribute)):
                    # Generic[...] / typing helpers / Enum_ etc.: irrelevant for lookup by key class
                    pass
                else:
                    raise Broken("translator(names): _ast.py: unexpected base class expression", ast.unparse(b))
            try:
                made[n.name] = type(n.name, tuple(bases), {})
            except TypeError as e:
                raise Broken(f"translator(names): _ast.py: cannot linearise class {n.name}", str(e))
    return made


def const_return(cls: ast.ClassDef, name: str) -> Optional[ast.expr]:
    for n in cls.body:
        if isinstance(n, ast.FunctionDef) and n.name == name:
            body = strip_doc(n)
            if len(body) == 1 and isinstance(body[0], ast.Return) and body[0].value is not None:
                return body[0].value
            raise Broken(f"translator(names): {cls.name}.{name} is not a single return statement",
                         ast.unparse(n)[:300])
    return None


def find_class(tree: ast.Module, name: str) -> ast.ClassDef:
    for n in tree.body:
        if isinstance(n, ast.ClassDef) and n.name == name:
            return n
    raise Broken(f"translator(names): class {name} not found")


def from_name_table(fmt: ast.Module) -> Dict[str, str]:
    cs = find_class(fmt, "CaseStyle")
    members = {}
    for n in cs.body:
        if isinstance(n, ast.Assign) and isinstance(n.targets[0], ast.Name) and isinstance(n.value, ast.Constant):
            members[n.targets[0].id] = n.value.value
    if sorted(members) != ["KEEP", "PASCAL", "SNAKE", "UPPER"]:
        raise Broken("translator(names): CaseStyle members changed", str(members))
    fn = find_func(fmt, "from_name", "CaseStyle")
    body = strip_doc(fn)
    if not (len(body) == 2 and isinstance(body[0], ast.Assign) and isinstance(body[0].value, ast.Dict)
            and isinstance(body[1], ast.Return) and ast.unparse(body[1].value) == "mapping.get(name, cls.KEEP)"):
        raise Broken("translator(names): CaseStyle.from_name changed shape", ast.unparse(fn)[:400])
    table = {}
    for k, v in zip(body[0].value.keys, body[0].value.values):
        if not (isinstance(k, ast.Constant) and isinstance(v, ast.Attribute) and ast.unparse(v.value) == "cls"
                and v.attr in STYLE_OF_MEMBER):
            raise Broken("translator(names): CaseStyle.from_name: unexpected table entry", ast.unparse(body[0]))
        table[k.value] = STYLE_OF_MEMBER[v.attr]
    # converter(): SNAKE -> snake_case, UPPER -> upper_case, PASCAL -> pascal_case, else keep_case
    fn = find_func(fmt, "converter", "CaseStyle")
    got = {}
    body = strip_doc(fn)
    node = body[0] if body else None
    while isinstance(node, ast.If):
        t = node.test
        if not (isinstance(t, ast.Compare) and isinstance(t.ops[0], ast.Is) and ast.unparse(t.left) == "self"
                and isinstance(t.comparators[0], ast.Attribute) and len(node.body) == 1
                and isinstance(node.body[0], ast.Return) and isinstance(node.body[0].value, ast.Name)):
            raise Broken("translator(names): CaseStyle.converter changed shape", ast.unparse(fn)[:400])
        got[STYLE_OF_MEMBER.get(t.comparators[0].attr, "?")] = node.body[0].value.id
        node = node.orelse[0] if len(node.orelse) == 1 else None
    if len(body) != 2 or not (isinstance(body[1], ast.Return) and isinstance(body[1].value, ast.Name)):
        raise Broken("translator(names): CaseStyle.converter changed shape", ast.unparse(fn)[:400])
    got["SKeep"] = body[1].value.id
    if got != CONVERTER_OF_STYLE:
        raise Broken("translator(names): CaseStyle.converter maps styles to other functions", str(got))
    return table


def case_tables(fmt: ast.Module, hier: Dict[str, type], names: Dict[str, str]) -> List[str]:
    out = ["(* case_style_mapping of the three formatters, resolved per definition kind by walking",
           "   the MRO of the kind's class (CaseStyleMapping.__getitem__), default \"keep\" *)",
           "Definition case_table (l : lang) (k : kind) : list style :=", "  match l, k with"]
    for lang, rel in LANG_FMT.items():
        tree = _parse(rel)
        cls = find_class(tree, LANG_FMT_CLASS[lang])
        rv = const_return(cls, "case_style_mapping")
        if not (rv is not None and isinstance(rv, ast.Call) and ast.unparse(rv.func) == "CaseStyleMapping"
                and len(rv.args) == 1 and isinstance(rv.args[0], ast.Dict)):
            raise Broken(f"translator(names): {LANG_FMT_CLASS[lang]}.case_style_mapping is not "
                         f"`return CaseStyleMapping({{...}})`")
        table: Dict[str, List[str]] = {}
        for k, v in zip(rv.args[0].keys, rv.args[0].values):
            if not (isinstance(k, ast.Name) and k.id in hier):
                raise Broken("translator(names): case_style_mapping key is not a class of _ast.py", ast.unparse(k))
            if isinstance(v, ast.Constant) and isinstance(v.value, str):
                styles = [v.value]
            elif isinstance(v, ast.Tuple) and all(isinstance(e, ast.Constant) and isinstance(e.value, str)
                                                  for e in v.elts):
                styles = [e.value for e in v.elts]
            else:
                raise Broken("translator(names): case_style_mapping value is neither a style name nor a tuple of "
                             "names (callables are not modelled)", ast.unparse(v))
            table[k.id] = [names.get(s, "SKeep") for s in styles]
        for kind, classes in KINDS:
            resolved = []
            for cn in classes:
                if cn not in hier:
                    raise Broken(f"translator(names): class {cn} missing from _ast.py")
                r = ["SKeep"]
                for t in hier[cn].__mro__:
                    if t.__name__ in table:
                        r = table[t.__name__]
                        break
                resolved.append(r)
            if any(r != resolved[0] for r in resolved):
                raise Broken(f"translator(names): {lang}: subclasses of one kind resolve to different styles",
                             f"{kind}: {resolved}")
            out.append(f"  | {lang}, {kind} => [{'; '.join(resolved[0])}]")
    out.append("  end.")
    return out


def lang_consts(fmt: ast.Module) -> List[str]:
    base = find_class(fmt, "Formatter")

    def value_of(lang: str, meth: str) -> Any:
        tree = _parse(LANG_FMT[lang])
        cls = find_class(tree, LANG_FMT_CLASS[lang])
        if [ast.unparse(b) for b in cls.bases] != ["Formatter"]:
            raise Broken(f"translator(names): {cls.name} no longer derives directly from Formatter")
        rv = const_return(cls, meth)
        if rv is None:
            rv = const_return(base, meth)
        if rv is None:
            raise Broken(f"translator(names): Formatter.{meth} not found")
        try:
            return ast.literal_eval(rv)
        except Exception:
            if isinstance(rv, ast.Tuple) and all(isinstance(e, ast.Name) for e in rv.elts):
                return tuple(e.id for e in rv.elts)
            raise Broken(f"translator(names): {cls.name}.{meth} does not return a literal", ast.unparse(rv))

    out = []
    for meth, coq, ty in (("delimer_inner_proto", "delim_inner", "string"),
                          ("delimer_cross_proto", "delim_cross", "string"),
                          ("definition_name_prefix_option_name", "prefix_option", "string"),
                          ("support_import_as_member", "supports_import", "bool")):
        out.append(f"Definition {coq} (l : lang) : {ty} :=")
        out.append("  match l with")
        for lang in LANG_FMT:
            v = value_of(lang, meth)
            if ty == "string":
                if not isinstance(v, str):
                    raise Broken(f"translator(names): {meth} of {lang} is not a string", repr(v))
                out.append(f"  | {lang} => {cstr(v)}")
            else:
                if not isinstance(v, bool):
                    raise Broken(f"translator(names): {meth} of {lang} is not a bool", repr(v))
                out.append(f"  | {lang} => {'true' if v else 'false'}")
        out.append("  end.")
    for lang in LANG_FMT:
        v = value_of(lang, "scopes_with_namespace")
        if v != ("Message", "Proto"):
            raise Broken(f"translator(names): scopes_with_namespace of {lang} is not (Message, Proto): the model's "
                         f"enclosing-name list (messages only, enums excluded) no longer applies", repr(v))
    out.append("(* scopes_with_namespace = (Message, Proto) for all three languages: checked *)")
    return out


def fstring_parts(e: ast.expr) -> List[Tuple[str, str]]:
    """f-string / constant -> [('lit', text) | ('var', source)]."""
    if isinstance(e, ast.Constant) and isinstance(e.value, str):
        return [("lit", e.value)]
    if isinstance(e, ast.JoinedStr):
        out = []
        for v in e.values:
            if isinstance(v, ast.Constant):
                out.append(("lit", v.value))
            elif isinstance(v, ast.FormattedValue) and v.format_spec is None and v.conversion == -1:
                out.append(("var", ast.unparse(v.value)))
            else:
                raise Broken("translator(names): unsupported f-string component", ast.unparse(e))
        return out
    raise Broken("translator(names): expected a string literal or f-string", ast.unparse(e))


def prop_return(tree: ast.Module, cls: str, name: str) -> ast.expr:
    rv = const_return(find_class(tree, cls), name)
    if rv is None:
        raise Broken(f"translator(names): {cls}.{name} not found")
    return rv


def prefix_template(tree: ast.Module, cls: str, name: str, var: str) -> str:
    parts = fstring_parts(prop_return(tree, cls, name))
    if not (len(parts) == 2 and parts[0][0] == "lit" and parts[1] == ("var", var)):
        raise Broken(f"translator(names): {cls}.{name} is not f\"<literal>{{{var}}}\"", str(parts))
    return parts[0][1]


def pushed_templates(tree: ast.Module, cls: str, meth: str = "render") -> List[List[Tuple[str, str]]]:
    fn = find_func(tree, meth, cls)
    out = []
    for n in ast.walk(fn):
        if (isinstance(n, ast.Call) and isinstance(n.func, ast.Attribute) and n.func.attr == "push"
                and n.args and (isinstance(n.args[0], ast.JoinedStr)
                                or (isinstance(n.args[0], ast.Constant) and isinstance(n.args[0].value, str)))):
            out.append(fstring_parts(n.args[0]))
    return out


def method_name_from_push(tree: ast.Module, cls: str, pattern: str, what: str, meth: str = "render") -> str:
    """Find the pushed line of <cls>.render matching `pattern` (a regex over the template with
    variables written as {expr}) and return its group 1."""
    import re
    hits = []
    for parts in pushed_templates(tree, cls, meth):
        text = "".join(p if k == "lit" else "{" + p + "}" for k, p in parts)
        m = re.fullmatch(pattern, text)
        if m:
            hits.append(m.group(1))
    if len(hits) != 1:
        raise Broken(f"translator(names): {cls}.render: cannot find the line declaring {what}", str(hits))
    return hits[0]


def template_defs() -> Tuple[List[str], Dict[str, str]]:
    skel: Dict[str, str] = {}
    out: List[str] = []
    blk = _parse(BLOCK)
    # BYTES_LENGTH_ + upper_case(snake_case(self.message_name))
    rv = prop_return(blk, "BlockBindMessage", "message_size_constant_name")
    pipeline: List[str] = []
    if not (isinstance(rv, ast.BinOp) and isinstance(rv.op, ast.Add)):
        raise Broken("translator(names): message_size_constant_name is not <literal> + f(...)", ast.unparse(rv))
    lit = fstring_parts(rv.left)
    if not (len(lit) == 1 and lit[0][0] == "lit"):
        raise Broken("translator(names): message_size_constant_name: left operand is not a literal", ast.unparse(rv))
    e = rv.right
    fn_style = {v: k for k, v in CONVERTER_OF_STYLE.items()}
    while isinstance(e, ast.Call) and isinstance(e.func, ast.Name) and e.func.id in fn_style and len(e.args) == 1:
        pipeline.insert(0, fn_style[e.func.id])
        e = e.args[0]
    if ast.unparse(e) != "self.message_name":
        raise Broken("translator(names): message_size_constant_name is not built from self.message_name",
                     ast.unparse(rv))
    out.append(f"Definition size_const_prefix : string := {cstr(lit[0][1])}.")
    out.append(f"Definition size_const_styles : list style := [{'; '.join(pipeline)}].")
    # name properties of the BlockBind* classes: which formatter entry point each one uses
    for cls, prop, meth in (("BlockBindAlias", "alias_name", "format_alias_name"),
                            ("BlockBindConstant", "constant_name", "format_constant_name"),
                            ("BlockBindEnum", "enum_name", "format_enum_name"),
                            ("BlockBindEnumField", "enum_field_name", "format_enum_field_name"),
                            ("BlockBindMessage", "message_name", "format_message_name"),
                            ("BlockBindMessageField", "message_field_name", "format_message_field_name")):
        got = ast.unparse(prop_return(blk, cls, prop))
        if got != f"self.formatter.{meth}(self.d)":
            raise Broken(f"translator(names): {cls}.{prop} no longer calls formatter.{meth}(self.d)", got)
    # C function names
    h = _parse(C_H)
    for cls, coq in (("BlockMessageEncoderBase", "c_encode_prefix"), ("BlockMessageDecoderBase", "c_decode_prefix"),
                     ("BlockMessageJsonFormatterBase", "c_json_prefix")):
        out.append(f"Definition {coq} : string := {cstr(prefix_template(h, cls, 'function_name', 'self.message_name'))}.")
    cf = _parse(LANG_FMT["LC"])
    ccls = find_class(cf, "CFormatter")
    for meth, coq in (("bp_processor_name_prefix", "c_processor_prefix"),
                      ("bp_json_formatter_name_prefix", "c_jsonfmt_prefix")):
        rv = const_return(ccls, meth)
        if not (rv is not None and isinstance(rv, ast.Constant) and isinstance(rv.value, str)):
            raise Broken(f"translator(names): CFormatter.{meth} is not a literal")
        out.append(f"Definition {coq} : string := {cstr(rv.value)}.")

    def c_helper(meth: str, name_var: str, name_call: str, want_tail: Sequence[str]) -> Tuple[str, str]:
        """f"{prefix}<infix>{name}<tail...>" helpers of CFormatter: returns (which prefix, infix)."""
        fn = find_func(cf, meth, "CFormatter")
        body = strip_doc(fn)
        env = {}
        for s in body[:-1]:
            if isinstance(s, ast.Assign) and isinstance(s.targets[0], ast.Name):
                env[s.targets[0].id] = ast.unparse(s.value)
            else:
                raise Broken(f"translator(names): CFormatter.{meth} changed shape", ast.unparse(fn)[:300])
        if not isinstance(body[-1], ast.Return):
            raise Broken(f"translator(names): CFormatter.{meth} changed shape", ast.unparse(fn)[:300])
        parts = fstring_parts(body[-1].value)
        parts = [(k, env.get(v, v) if k == "var" else v) for k, v in parts]
        if env.get(name_var) != name_call:
            raise Broken(f"translator(names): CFormatter.{meth}: {name_var} is not {name_call}", str(env))
        pre = ""
        infix = ""
        i = 0
        if parts and parts[0][0] == "var" and parts[0][1] in ("self.bp_processor_name_prefix()",
                                                             "self.bp_json_formatter_name_prefix()"):
            pre = parts[0][1]
            i = 1
        if i < len(parts) and parts[i][0] == "lit":
            infix = parts[i][1]
            i += 1
        rest = [v for _, v in parts[i:]]
        if rest != [name_call] + list(want_tail):
            raise Broken(f"translator(names): CFormatter.{meth}: unexpected name template", str(parts))
        return pre, infix

    helpers = [
        ("format_bp_message_processor_name", "message_name", "self.format_message_name(t)", [], "P", ""),
        ("format_bp_alias_processor_name", "alias_name", "self.format_alias_name(t)", [], "P", ""),
        ("format_bp_message_json_formatter_name", "message_name", "self.format_message_name(t)", [], "J", ""),
        ("format_bp_alias_json_formatter_name", "alias_name", "self.format_alias_name(t)", [], "J", ""),
        ("format_bp_array_processor_name_from_message_field", "message_name",
         "self.format_message_name(d.message)", ["d.number"], "P", "c_array_infix"),
        ("format_bp_array_processor_name_from_alias", "alias_name", "self.format_alias_name(d)", [], "P",
         "c_array_infix"),
        ("format_bp_array_json_formatter_name_from_message_field", "message_name",
         "self.format_message_name(d.message)", ["d.number"], "J", "c_array_infix"),
        ("format_bp_array_json_formatter_name_from_alias", "alias_name", "self.format_alias_name(d)", [], "J",
         "c_array_infix"),
    ]
    infixes = set()
    for meth, nv, nc, tail, which, coq in helpers:
        pre, infix = c_helper(meth, nv, nc, tail)
        want_pre = "self.bp_processor_name_prefix()" if which == "P" else "self.bp_json_formatter_name_prefix()"
        if pre != want_pre:
            raise Broken(f"translator(names): CFormatter.{meth} uses another prefix", pre)
        if coq:
            infixes.add(infix)
        elif infix:
            raise Broken(f"translator(names): CFormatter.{meth} has an unexpected infix", infix)
    if len(infixes) != 1:
        raise Broken("translator(names): array helper names use different infixes", str(infixes))
    out.append(f"Definition c_array_infix : string := {cstr(infixes.pop())}.")
    pre, infix = c_helper("format_bp_message_field_descriptor_initer", "message_name",
                          "self.format_message_name(t)", [])
    if pre:
        raise Broken("translator(names): format_bp_message_field_descriptor_initer now has a prefix call")
    out.append(f"Definition c_fdinit_prefix : string := {cstr(infix)}.")
    rv = const_return(ccls, "format_message_type")
    if not (rv is not None and ast.unparse(rv) == "'struct {0}'.format(self.format_message_name(t))"):
        raise Broken("translator(names): CFormatter.format_message_type changed", ast.unparse(rv) if rv else "")
    out.append('Definition c_struct_kw : string := "struct ".')
    # Go
    g = _parse(GO_R)
    out.append("Definition go_encode_method : string := " + cstr(method_name_from_push(
        g, "BlockMessageMethodEncode", r"func \(m \*\{self\.message_name\}\) (\w+)\(\) \[\]byte \{", "Encode")) + ".")
    out.append("Definition go_decode_method : string := " + cstr(method_name_from_push(
        g, "BlockMessageMethodDecode", r"func \(m \*\{self\.message_name\}\) (\w+)\(s \[\]byte\) \{", "Decode")) + ".")
    out.append("Definition go_size_method : string := " + cstr(method_name_from_push(
        g, "BlockMessageMethodSize", r"func \(m \*\{self\.message_name\}\) (\w+)\(\) uint32 \{", "Size")) + ".")
    for cls, pat in (("BlockMessageMethodEncodeOpMode", r"func \(m \*\{self\.message_name\}\) (\w+)\(\) \[\]byte \{"),
                     ("BlockMessageMethodDecodeOpMode", r"func \(m \*\{self\.message_name\}\) (\w+)\(s \[\]byte\) \{")):
        method_name_from_push(g, cls, pat, cls)
    method_name_from_push(g, "BlockMessageSizeConst", r"const \{self\.message_size_constant_name\} (uint32) = "
                                                      r"\{self\.message_nbytes\}", "the size constant")
    method_name_from_push(g, "BlockMessageStruct", r"type \{self\.message_name\} (struct) \{", "the struct",
                          meth="before")
    # Go struct field + json tag
    fn = find_func(g, "render", "BlockMessageField")
    tag_src = None
    for s in strip_doc(fn):
        if isinstance(s, ast.Assign) and isinstance(s.targets[0], ast.Name) and s.targets[0].id == "snake_case_name":
            tag_src = s.value
    tag_styles: List[str] = []
    e = tag_src
    while isinstance(e, ast.Call) and isinstance(e.func, ast.Name) and e.func.id in fn_style and len(e.args) == 1:
        tag_styles.insert(0, fn_style[e.func.id])
        e = e.args[0]
    if e is None or ast.unparse(e) != "self.message_field_name":
        raise Broken("translator(names): go BlockMessageField: the json tag is not f(self.message_field_name)",
                     ast.unparse(fn)[:400])
    field_tpl = method_name_from_push(
        g, "BlockMessageField",
        r"\{self\.message_field_name\} \{self\.message_field_type\} `(\w+):\"\{snake_case_name\}\"`", "the struct field")
    out.append(f"Definition go_tag_key : string := {cstr(field_tpl)}.")
    out.append(f"Definition go_tag_styles : list style := [{'; '.join(tag_styles)}].")
    # Python
    p = _parse(PY_R)
    rv = prop_return(p, "BlockMessageBase", "message_size_constant_name")
    if not (isinstance(rv, ast.Constant) and isinstance(rv.value, str)):
        raise Broken("translator(names): py BlockMessageBase.message_size_constant_name is not a literal")
    out.append(f"Definition py_size_attr : string := {cstr(rv.value)}.")
    out.append("Definition py_encode_method : string := " + cstr(method_name_from_push(
        p, "BlockMessageMethodEncode", r"def (\w+)\(self\) -> bytearray:", "encode")) + ".")
    out.append("Definition py_decode_method : string := " + cstr(method_name_from_push(
        p, "BlockMessageMethodDecode", r"def (\w+)\(self, s: bytearray\) -> None:", "decode")) + ".")
    lib = _parse(BP_PY)
    mb = find_class(lib, "MessageBase")
    meths = [n.name for n in mb.body if isinstance(n, ast.FunctionDef)]
    for m_ in ("to_dict", "to_json"):
        if m_ not in meths:
            raise Broken(f"translator(names): bitprotolib.bp.MessageBase no longer defines {m_}")
    out.append('Definition py_to_dict_method : string := "to_dict".  (* defined by bp.MessageBase: checked *)')
    out.append('Definition py_to_json_method : string := "to_json".  (* defined by bp.MessageBase: checked *)')
    # file names
    fmt = _parse(FMT)
    fn = find_func(fmt, "format_out_filename", "Formatter")
    adds = [n for n in ast.walk(fn) if isinstance(n, ast.Assign) and isinstance(n.targets[0], ast.Name)
            and n.targets[0].id == "out_filename"]
    if not (len(adds) == 1 and isinstance(adds[0].value, ast.BinOp) and isinstance(adds[0].value.left, ast.BinOp)
            and ast.unparse(adds[0].value.left.left) == "out_base_name"
            and isinstance(adds[0].value.left.right, ast.Constant)
            and ast.unparse(adds[0].value.right) == "extension"):
        raise Broken("translator(names): format_out_filename is not out_base_name + <literal> + extension",
                     ast.unparse(fn)[:400])
    out.append(f"Definition out_suffix : string := {cstr(adds[0].value.left.right.value)}.")
    skel["formatter.py:Formatter.format_out_filename"] = skeleton_digest(fn, [adds[0].value.left.right])
    for rel, cls, coq in ((C_H, "RendererCHeader", "ext_c_h"), (C_C, "RendererC", "ext_c_c"),
                          (GO_R, "RendererGo", "ext_go"), (PY_R, "RendererPy", "ext_py")):
        t = _parse(rel)
        rv = None
        for n in t.body:
            if isinstance(n, ast.ClassDef):
                r = None
                try:
                    r = const_return(n, "file_extension")
                except Broken:
                    r = None
                if r is not None:
                    if rv is not None:
                        raise Broken(f"translator(names): {rel}: two classes define file_extension")
                    rv = r
        if not (rv is not None and isinstance(rv, ast.Constant) and isinstance(rv.value, str)):
            raise Broken(f"translator(names): {rel}: file_extension() literal not found")
        out.append(f"Definition {coq} : string := {cstr(rv.value)}.")
    rt = _parse(RENDERER)
    skel["renderer.py:Renderer.get_out_filename"] = skeleton_digest(find_func(rt, "get_out_filename", "Renderer"))
    return out, skel


# --------------------------------------------------------------------------------------
# the generated file
# --------------------------------------------------------------------------------------

PINNED = [
    (UTILS, None, "pascal_case"), (UTILS, None, "snake_case"), (UTILS, None, "upper_case"),
    (UTILS, None, "keep_case"),
    (FMT, "CaseStyleMapping", "__getitem__"),
    (FMT, "Formatter", "_get_definition_name"), (FMT, "Formatter", "_get_definition_name_prefix"),
    (FMT, "Formatter", "_format_definition_name_inner_proto"),
    (FMT, "Formatter", "format_definition_name_inner_proto"), (FMT, "Formatter", "format_case_style"),
    (FMT, "Formatter", "format_definition_name"), (FMT, "Formatter", "format_enum_name"),
    (FMT, "Formatter", "format_message_name"), (FMT, "Formatter", "format_alias_name"),
    (FMT, "Formatter", "format_constant_name"), (FMT, "Formatter", "format_enum_field_name"),
    (FMT, "Formatter", "format_message_field_name"), (FMT, "Formatter", "format_enum_type"),
    (FMT, "Formatter", "format_message_type"), (FMT, "Formatter", "format_alias_type"),
    (FMT, "Formatter", "format_name_related_to_definition"),
    # the name a member (e.g. an imported proto) is known under in its scope: Names.name_by_member
    (ASTPY, "Scope", "get_name_by_member"), (ASTPY, "Scope", "push_member"),
]


def gen_names() -> Tuple[str, Dict[str, str]]:
    skel: Dict[str, str] = {}
    utils = _parse(UTILS)
    fmt = _parse(FMT)
    out = ["(* GENERATED by tools/translate_names.py from compiler/bitproto/{utils.py, renderer/*} and",
           "   lib/py/bitprotolib/bp.py — do not edit *)",
           "From Coq Require Import List String NArith Bool.",
           "From BP Require Import NamesBase.",
           "Import ListNotations.", "Open Scope string_scope.", ""]
    out += regex_defs(utils)
    out += snake_literals(utils)
    out.append("")
    names = from_name_table(fmt)
    hier = class_hierarchy(_parse(ASTPY))
    out += case_tables(fmt, hier, names)
    out += lang_consts(fmt)
    tpl, sk = template_defs()
    out += tpl
    skel.update(sk)
    trees = {UTILS: utils, FMT: fmt, ASTPY: _parse(ASTPY)}
    for rel, cls, name in PINNED:
        fn = find_func(trees[rel], name, cls)
        skel[f"{os.path.basename(rel)}:{(cls + '.') if cls else ''}{name}"] = skeleton_digest(fn)
    return "\n".join(out) + "\n", skel


GENERATORS = {"GenNames.v": gen_names}

if __name__ == "__main__":
    text, sk = gen_names()
    print(text)
    print(len(sk), "skeletons")
