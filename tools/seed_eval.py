"""seed_eval — confirm a seeded breaking change and run checks against it.
usage: seed_eval.py <scratch_repo> <out_dir_with_patch_demo_meta> <seed_name> <CHECK_ID> [<CHECK_ID>...]
The scratch repo is a git worktree of /repo (never /repo itself while other work is running)."""
import json, os, shutil, subprocess, sys

def sh(cmd, **kw):
    p = subprocess.run(cmd, shell=True, capture_output=True, text=True, **kw)
    return p.returncode, p.stdout + p.stderr

def main():
    repo, src, name = sys.argv[1:4]
    checks = sys.argv[4:]
    dst = os.path.join("/verif/seeded", name)
    os.makedirs(dst, exist_ok=True)
    if os.path.exists(os.path.join(dst, "meta.json")):
        shutil.copy(os.path.join(dst, "meta.json"), os.path.join(dst, "meta.prev.json"))
    for f in ("patch.diff", "demo.py", "meta.json"):
        shutil.copy(os.path.join(src, f), os.path.join(dst, f))
    log = {}
    sh(f"git -C {repo} checkout -- . && git -C {repo} clean -fdq")
    rc, out = sh(f"/venv/bin/python {dst}/demo.py {repo}", timeout=900)
    log["demo_clean_rc"] = rc
    rc, out = sh(f"git -C {repo} apply {dst}/patch.diff")
    log["apply_rc"] = rc
    rc, out = sh(f"/venv/bin/python {dst}/demo.py {repo}", timeout=900)
    log["demo_patched_rc"] = rc
    log["demo_patched_tail"] = out[-400:]
    rc, out = sh(f"cd {repo} && PYTHONPATH={repo}/compiler:{repo}/lib/py /venv/bin/python -m pytest -q -p no:cacheprovider --timeout=900 --continue-on-collection-errors 2>&1 | tail -1", timeout=1800)
    log["tests_patched"] = out.strip()
    res = {}
    for c in checks:
        env = dict(os.environ, VERIF_REPO=repo, VERIF_EVIDENCE_DIR="/verif/build/seed_evidence")
        p = subprocess.run(["./check", c], cwd="/verif", env=env, capture_output=True, text=True)
        lines = [l for l in p.stdout.splitlines() if l.startswith(("VIOLATION", "KNOWN-FINDING", "["))]
        res[c] = {"exit": p.returncode, "lines": lines[:6], "broken": [l for l in p.stderr.splitlines() if "BROKEN" in l][:4]}
        # keep the first replay for the record
    log["checks"] = res
    sh(f"git -C {repo} checkout -- . && git -C {repo} clean -fdq")
    meta = json.load(open(os.path.join(dst, "meta.json")))
    try:
        prev = json.load(open(os.path.join(dst, "meta.prev.json"))).get("confirmed_by_main_session")
    except Exception:
        prev = None
    if prev and "first_run" not in meta:
        meta["first_run_before_strengthening"] = prev.get("checks")
    meta["confirmed_by_main_session"] = log
    json.dump(meta, open(os.path.join(dst, "meta.json"), "w"), indent=1)
    try:
        os.remove(os.path.join(dst, "meta.prev.json"))
    except OSError:
        pass
    print(name, json.dumps(log, indent=1)[:1800])

main()
