"""lex_mutants — the breaking edits of compiler/bitproto/lexer.py used to self-test the lexer stage
(tools/lexstage.py).  Never touches /repo: give it a scratch checkout.

    git -C /repo worktree add /tmp/lexer_repo HEAD
    python tools/lex_mutants.py list
    python tools/lex_mutants.py apply /tmp/lexer_repo <name>     # edits <scratch>/compiler/bitproto/lexer.py
    VERIF_REPO=/tmp/lexer_repo ./check C08        (or C09 / C20): must exit 1 with a replay that names an input
    git -C /tmp/lexer_repo checkout -- compiler/bitproto/lexer.py
    git -C /repo worktree remove --force /tmp/lexer_repo
"""
import sys

MUTS = {
    "drop-b-bool-end": ('r"\\bbool\\b"', 'r"\\bbool"'),
    "drop-b-bool-start": ('r"\\bbool\\b"', 'r"bool\\b"'),
    "int-before-hex": None,
    "string-greedy": ('(\\\\.))*?\\" "', '(\\\\.))*\\" "'),
    "ignore-newline": ('t_ignore: str = " \\t\\r"', 't_ignore: str = " \\t\\r\\n"'),
    "forget-lineno": ('        t.lexer.lineno += 1\n', ''),
    "add-keyword": ('        "typedef",  # Reserved', '        "struct",\n        "typedef",  # Reserved'),
    "uint-int-trailing-b": None,
    "string-lineno": ('        t.value = val\n', '        t.lexer.lineno += val.count("\\n")\n        t.value = val\n'),
    "t-error-split": ('token=t.value[0],', 'token=t.value.split(None, 1)[0],'),
    "hex-upper-x": ('r"0x[0-9a-fA-F]+"', 'r"0[xX][0-9a-fA-F]+"'),
    "comment-hash": ('r"\\/\\/[^\\n]*"', 'r"(\\/\\/|\\#)[^\\n]*"'),
}


def apply(path: str, name: str) -> None:
    s = open(path).read()
    if name == "int-before-hex":
        a = s.index("    def t_HEX_LITERAL")
        b = s.index("    def t_INT_LITERAL")
        c = s.index("    def t_BOOL_LITERAL")
        s2 = s[:a] + s[b:c] + s[a:b] + s[c:]
    elif name == "uint-int-trailing-b":
        s2 = s.replace('r"\\buint[0-9]+\\b"', 'r"\\buint[0-9]+"').replace('r"\\bint[0-9]+\\b"', 'r"\\bint[0-9]+"')
    else:
        old, new = MUTS[name]
        assert s.count(old) == 1, (name, s.count(old))
        s2 = s.replace(old, new)
    assert s2 != s, "the edit did not change the file"
    open(path, "w").write(s2)


if __name__ == "__main__":
    if len(sys.argv) >= 2 and sys.argv[1] == "list":
        print("\n".join(MUTS))
    elif len(sys.argv) == 4 and sys.argv[1] == "apply":
        assert not sys.argv[2].rstrip("/") == "/repo", "never edit /repo: use a scratch worktree"
        apply(sys.argv[2].rstrip("/") + "/compiler/bitproto/lexer.py", sys.argv[3])
    else:
        sys.exit(__doc__)
