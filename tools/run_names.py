"""run_names — worker for C15: runs the REAL case converters of compiler/bitproto/utils.py and
the REAL compiler (parse + render, as _main.py wires them) and reports what they produced.

stdin : JSON list of jobs
   {"op": "block", "pre": str, "n": int, "alphabet": str}   all pre+w, w in alphabet^n (product order)
   {"op": "cases", "inputs": [str]}
   {"op": "compile", "dir": path, "files": {name: text}, "main": name}
stdout: JSON list of results.  Nothing here is trusted: everything is re-checked in Coq.
"""
import itertools
import json
import os
import signal
import sys
import traceback


def _alarm(_s, _f):
    raise TimeoutError("implementation did not return within the time limit")


signal.signal(signal.SIGALRM, _alarm)


def line(s):
    from bitproto.utils import pascal_case, snake_case, upper_case
    sn = snake_case(s)
    pa = pascal_case(s)
    return [sn, pa, upper_case(s), snake_case(pa), upper_case(sn)]


def do_block(job):
    pre, n, alpha = job["pre"], job["n"], job["alphabet"]
    out = []
    for w in itertools.product(alpha, repeat=n):
        out.append(line(pre + "".join(w)))
    return {"lines": out}


def do_cases(job):
    out = []
    for s in job["inputs"]:
        try:
            out.append(line(s))
        except Exception as e:   # the converters are total on str; anything else is reported
            out.append({"exc": type(e).__name__ + ": " + str(e)})
    return {"lines": out}


MODES = [("c", "c", False), ("co", "c", True), ("go", "go", False), ("py", "py", False)]


def py_runtime(od, main_file):
    """Import the generated module with the working-tree bitprotolib and list, per message class,
    the public callables it really has (encode/decode are generated, to_json/to_dict inherited)."""
    import importlib.util
    sys.path.insert(0, od)
    try:
        spec = importlib.util.spec_from_file_location("c15_generated_main", os.path.join(od, main_file))
        mod = importlib.util.module_from_spec(spec)
        spec.loader.exec_module(mod)
        from bitprotolib import bp
        out = []
        for cname, cls in vars(mod).items():
            if isinstance(cls, type) and issubclass(cls, bp.MessageBase) and cls.__module__ == mod.__name__:
                for a in dir(cls):
                    if a.startswith("_") or a.startswith("bp_") or a == "dict_factory":
                        continue
                    if callable(getattr(cls, a, None)):
                        out.append([cname, a])
        return out
    finally:
        sys.path.remove(od)
        for k in [k for k in sys.modules if k.endswith("_bp") or k == "c15_generated_main"]:
            del sys.modules[k]


def c_symbols(od, main_c, repo):
    """Function symbols the compiled generated C defines (gcc -shared, references to the runtime
    library left undefined; nm -D --defined-only).  {"gcc_error": ..} when gcc rejects the code
    (C10's subject)."""
    import subprocess
    libc = os.path.join(repo, "lib", "c")
    so = os.path.join(od, "gen.so")
    p = subprocess.run(["gcc", "-shared", "-fPIC", "-w", "-O0", "-I", libc, "-I", od, os.path.join(od, main_c),
                        "-o", so], capture_output=True, text=True, timeout=200)
    if p.returncode != 0:
        return {"gcc_error": p.stderr[-300:]}
    p = subprocess.run(["nm", "-D", "--defined-only", so], capture_output=True, text=True, timeout=60)
    syms = sorted(l.split()[2] for l in p.stdout.splitlines() if len(l.split()) == 3 and l.split()[1] == "T")
    return {"symbols": syms}


def do_compile(job):
    from bitproto.parser import parse
    from bitproto.renderer import render
    repo = os.environ.get("VERIF_REPO", "/repo")
    d = job["dir"]
    os.makedirs(d, exist_ok=True)
    for name, text in job["files"].items():
        with open(os.path.join(d, name), "w") as f:
            f.write(text)
    res = {}
    for key, lang, opt in MODES:
        od = os.path.join(d, "out_" + key)
        os.makedirs(od, exist_ok=True)
        try:
            proto = parse(os.path.join(d, job["main"]), traditional_mode=opt)
            paths = render(proto, lang, outdir=od, optimization_mode=opt)
            files = {}
            for p in paths:
                with open(p) as f:
                    files[os.path.basename(p)] = f.read()
            res[key] = {"files": files, "listed": sorted(os.listdir(od))}
        except BaseException as e:
            if isinstance(e, (KeyboardInterrupt, TimeoutError)):
                raise
            res[key] = {"error": type(e).__name__ + ": " + str(e)[:500],
                        "trace": traceback.format_exc()[-800:]}
            continue
        if key == "go" or (key == "py" and not job.get("py_importable", True)):
            continue
        # the imported protos' outputs are needed to import / compile the main one
        try:
            for name in job["files"]:
                if name != job["main"]:
                    render(parse(os.path.join(d, name), traditional_mode=opt), lang, outdir=od, optimization_mode=opt)
            if key == "py":
                main_py = [f for f in files if f.endswith(".py")][0]
                res[key]["runtime_methods"] = py_runtime(od, main_py)
            else:
                main_c = [f for f in files if f.endswith(".c")][0]
                res[key].update(c_symbols(od, main_c, repo))
        except BaseException as e:
            if isinstance(e, (KeyboardInterrupt, TimeoutError)):
                raise
            res[key]["toolchain_error"] = type(e).__name__ + ": " + str(e)[:300]
    return {"out": res}


def main():
    import bitproto
    repo = os.environ.get("VERIF_REPO", "/repo")
    assert bitproto.__file__.startswith(repo + "/"), bitproto.__file__
    jobs = json.load(sys.stdin)
    out = []
    for job in jobs:
        signal.alarm(400)
        try:
            if job["op"] == "block":
                out.append(do_block(job))
            elif job["op"] == "cases":
                out.append(do_cases(job))
            else:
                out.append(do_compile(job))
        except BaseException as e:
            out.append({"worker_error": type(e).__name__ + ": " + str(e)[:300]})
        finally:
            signal.alarm(0)
    json.dump(out, sys.stdout)


if __name__ == "__main__":
    main()
