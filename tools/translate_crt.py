"""translate_crt — tie T0 for the C runtime: regenerates coq/gen/GenC.v from
lib/c/bitproto.c, lib/c/bitproto.h and the compiler's storage-size helpers on every run.

What is TRANSLATED (typed C expression -> Gallina, promotions/conversions explicit):
  BpMin, BpMinTriple, BpBaseTypeStorageSize, BpIsNbitsStandard, BpIsBaseIntegerType,
  BP_TYPE_* and the fixed widths of BpBool()/BpByte();
  every expression of the BpCopyBufferBits loop body (pointer bumps, `di == 0`, `bits`,
  the three thresholds, the value stored and the step `c` of each of the five branches,
  the `if (ch)` test), and whether the word fast paths are compiled in with / without
  BP_BIG_ENDIAN; the staging indices of BpEndecodeBaseType; the early-exit test, `n`,
  the case table, test mask and or-mask of BpHandleIntSignAfterEndecode; the batch
  predicate (both builds), batch width, sign-loop test, `ito` and the `ito >= ctx->i` test of
  BpEndecodeArray; `ito` and its test of BpEndecodeMessage; the uint16_t object, width and
  value conversions of the four ExtensibleAhead helpers;
  Type.nbytes (_ast.py) and Formatter.get_nbits_of_integer (renderer/formatter.py).
What is PINNED by digest (hand-modelled in coq/theories/CRt.v): the control skeleton of each
of those functions (AST with the translated expressions masked) and BpEndecodeMessageField,
BpEndecodeAlias, BpEndecodeInt, BpEndecodeBaseType in full, the host-endianness detection
directive, the BpType constructor macros.
"""
from __future__ import annotations

import ast as pyast
import hashlib
import os
import re
from typing import Any, Dict, List, Tuple

import cparse as cp
from cparse import Tx, digest, dump
from translate import Tr, find_func
from vlib import REPO, Broken


def _read(rel: str) -> str:
    try:
        return open(os.path.join(REPO, rel)).read()
    except OSError as e:
        raise Broken(f"translator(C): cannot read {rel}", str(e))


def expect(c: bool, what: str, detail: str = "") -> None:
    if not c:
        raise Broken("translator(C): " + what, detail)


class Fn:
    """a parsed function with a record of which expression nodes were translated"""

    def __init__(self, toks, name: str):
        params, body = cp.find_function(toks, name)
        self.name = name
        self.params = cp.parse_params(params, name)
        self.ast = cp.parse_body(body, name)
        self.masked: List[int] = []

    def take(self, node: Any) -> Any:
        self.masked.append(id(node))
        return node

    def skel(self) -> str:
        return digest([self.params, self.ast], self.masked)


def shaped(fn):
    """turn IndexError/TypeError/KeyError while navigating an AST into Broken"""
    def w(*a, **k):
        try:
            return fn(*a, **k)
        except (IndexError, TypeError, KeyError, ValueError, AssertionError) as e:
            raise Broken(f"translator(C): {fn.__name__}: the function no longer has the modelled shape",
                         f"{type(e).__name__}: {e}")
    return w


D = lambda name, params, ty, body: f"Definition {name}{(' (' + ' '.join(params) + ' : Z)') if params else ''} : {ty} := {body}."


def opassign(e: Any) -> Any:
    """x op= E  ->  x op E"""
    assert e[0] == "assign" and e[1] != "="
    return ("bin", e[1][:-1], e[2], e[3])


@shaped
def tr_helpers(toks_le, toks_be, consts, out: List[str], skel: Dict[str, str]) -> None:
    def straight(toks, name: str, params: List[str], ret: str, funcs=None) -> str:
        f = Fn(toks, name)
        expect([p for _, p in f.params] == params and all(t == "int" for t, _ in f.params),
               f"{name}: parameters changed", str(f.params))
        tx = Tx(name, {p: (p, "int") for p in params}, consts=consts)
        return D(name, params, "Z" if ret == "z" else "bool", tx.body(f.ast, ret))
    out.append(straight(toks_le, "BpMin", ["a", "b"], "z"))
    out.append(straight(toks_le, "BpMinTriple", ["a", "b", "c"], "z"))
    out.append(straight(toks_be, "BpBaseTypeStorageSize", ["nbits"], "z"))
    out.append(straight(toks_le, "BpIsNbitsStandard", ["nbits"], "b"))
    out.append(straight(toks_le, "BpIsBaseIntegerType", ["flag"], "b"))
    for nm in ("BpMin", "BpMinTriple"):
        expect(dump(Fn(toks_le, nm).ast) == dump(Fn(toks_be, nm).ast), f"{nm} differs between the two builds")


LD32 = lambda p: dump(("idx", ("cast", "uint32_t *", ("id", p)), ("num", 0)))
LD16 = lambda p: dump(("idx", ("cast", "uint16_t *", ("id", p)), ("num", 0)))
LD8 = lambda p: dump(("idx", ("id", p), ("num", 0)))
FUNCS = {"BpMin": "BpMin", "BpMinTriple": "BpMinTriple", "BpBaseTypeStorageSize": "BpBaseTypeStorageSize",
         "BpIsNbitsStandard": "?BpIsNbitsStandard", "BpIsBaseIntegerType": "?BpIsBaseIntegerType"}


@shaped
def tr_copy(toks_le, toks_be, out: List[str], skel: Dict[str, str]) -> None:
    ints = {v: (v, "int") for v in ("n", "di", "si", "c", "bits")}

    def split(f: Fn):
        expect([t for t, _ in f.params] == ["int", "unsigned char *", "unsigned char *", "int", "int"]
               and [p for _, p in f.params] == ["n", "dst", "src", "di", "si"], "BpCopyBufferBits: parameters changed")
        w = f.ast[0]
        expect(len(f.ast) == 1 and w[0] == "while" and dump(w[1]) == "(id n)", "BpCopyBufferBits: outer loop is not while (n)")
        b = w[2]
        expect(len(b) == 9, "BpCopyBufferBits: loop body has a different number of statements")
        iff = b[5]
        A, U = iff[2], iff[3]
        has_fast = len(A) == 4
        expect(len(A) in (3, 4), "BpCopyBufferBits: aligned branch changed")
        return b, iff, A, U, has_fast

    f = Fn(toks_le, "BpCopyBufferBits")
    g = Fn(toks_be, "BpCopyBufferBits")
    b, iff, A, U, fast_le = split(f)
    b2, iff2, A2, U2, fast_be = split(g)
    tx = Tx("BpCopyBufferBits", ints, funcs=FUNCS,
            loads=[(LD32("src"), "w", "u32"), (LD16("src"), "w", "u16"), (LD8("src"), "b", "u8"),
                   (LD8("dst"), "old", "u8")])
    tx.env["ch"] = ("ch", "u8")

    def bump(s, ptr):
        expect(s[0] == "expr" and s[1][0] == "assign" and s[1][1] == "+=" and dump(s[1][2]) == f"(id {ptr})",
               f"BpCopyBufferBits: `{ptr} += ...` expected")
        return tx.z(f.take(s[1][3]))[0]
    out.append(D("cp_dst_bump", ["di"], "Z", bump(b[0], "dst")))
    out.append(D("cp_src_bump", ["si"], "Z", bump(b[1], "src")))
    for s, v in ((b[2], "di"), (b[3], "si")):
        expect(s[1][0] == "assign" and s[1][1] == "&=" and dump(s[1][2]) == f"(id {v})", f"`{v} &= ...` expected")
        out.append(D(f"cp_{v}_low", [v], "Z", tx.z(opassign(s[1]))[0]))
        f.take(s[1][3])
    expect(dump(b[4]) == "(decl int c (num 0))", "`int c = 0` expected")
    expect(iff[0] == "if", "if (di == 0) expected")
    out.append(D("cp_aligned", ["di"], "bool", tx.b(f.take(iff[1]))))
    expect(A[0][:3] == ("decl", "int", "bits"), "`int bits = ...` expected")
    out.append(D("cp_bits", ["n", "si"], "Z", tx.z(f.take(A[0][3]))[0]))
    expect(dump(A[1]) == "(decl bool copied (id false))", "`bool copied = false` expected")
    out.append("(* are the word fast paths compiled in?  build without / with BP_BIG_ENDIAN *)")
    out.append(D("cp_fast_le_build", [], "bool", "true" if fast_le else "false"))
    out.append(D("cp_fast_be_build", [], "bool", "true" if fast_be else "false"))

    def word(node, bits: int, fobj: Fn) -> Tuple[str, str, str, str]:
        expect(node[0] == "if" and len(node[2]) == 3, f"{bits}-bit fast path changed")
        st, cst, cp_ = node[2]
        ty = f"uint{bits}_t *"
        expect(st[1][0] == "assign" and st[1][1] == "=" and
               dump(st[1][2]) == dump(("idx", ("cast", ty, ("id", "dst")), ("num", 0))),
               f"{bits}-bit store target changed")
        expect(dump(cst[1][:3]) == dump(("assign", "=", ("id", "c"))) and dump(cp_) == "(expr (assign = (id copied) (id true)))",
               f"{bits}-bit path: c / copied assignments changed")
        thr = tx.b(fobj.take(node[1]))
        val, _ = tx.z(fobj.take(st[1][3]))
        cc, _ = tx.z(fobj.take(cst[1][3]))
        return thr, f"({val} mod {1 << bits})", cc, str(bits // 8)

    if fast_le or fast_be:
        src_f, src_A = (f, A) if fast_le else (g, A2)
        n32 = src_A[2]
        thr, val, cc, wd = word(n32, 32, src_f)
        out += [D("cp_thr32", ["bits"], "bool", thr), D("cp_w32", [], "Z", wd), D("cp_v32", ["w", "si"], "Z", val),
                D("cp_c32", ["si"], "Z", cc)]
        expect(len(n32[3]) == 1, "else-if (bits >= 16) expected")
        n16 = n32[3][0]
        expect(n16[3] == [], "16-bit path has an else branch")
        thr, val, cc, wd = word(n16, 16, src_f)
        out += [D("cp_thr16", ["bits"], "bool", thr), D("cp_w16", [], "Z", wd), D("cp_v16", ["w", "si"], "Z", val),
                D("cp_c16", ["si"], "Z", cc)]
        if fast_le and fast_be:
            word(A2[2], 32, g)
            word(A2[2][3][0], 16, g)
            expect(dump(A[2], f.masked) == dump(A2[2], g.masked) and
                   dump(A[2]) == dump(A2[2]), "fast paths differ between the two builds")
    else:
        # no fast path in either build: the model never takes them; emit inert definitions
        out += [D("cp_thr32", ["bits"], "bool", "false"), D("cp_w32", [], "Z", "4"), D("cp_v32", ["w", "si"], "Z", "0"),
                D("cp_c32", ["si"], "Z", "1"), D("cp_thr16", ["bits"], "bool", "false"), D("cp_w16", [], "Z", "2"),
                D("cp_v16", ["w", "si"], "Z", "0"), D("cp_c16", ["si"], "Z", "1")]

    def slow(fobj: Fn, AA, UU, emit: bool) -> None:
        nc = AA[-1]
        expect(nc[0] == "if" and dump(nc[1]) == "(un ! (id copied))" and nc[3] == [] and len(nc[2]) == 1,
               "`if (!copied)` expected")
        n8 = nc[2][0]
        expect(n8[0] == "if" and len(n8[2]) == 2 and len(n8[3]) == 2, "byte / partial branches changed")
        st, cst = n8[2]
        expect(st[1][0] == "assign" and st[1][1] == "=" and dump(st[1][2]) == LD8("dst"), "dst[0] = ... expected")
        expect(dump(cst[1][:3]) == dump(("assign", "=", ("id", "c"))), "c = 8 - si expected")
        thr8 = tx.b(fobj.take(n8[1]))
        v8 = tx.z(fobj.take(st[1][3]))[0]
        c8 = tx.z(fobj.take(cst[1][3]))[0]
        cst2, st2 = n8[3]
        expect(dump(cst2[1][:3]) == dump(("assign", "=", ("id", "c"))), "c = BpMin(...) expected")
        expect(st2[1][0] == "assign" and st2[1][1] == "|=" and dump(st2[1][2]) == LD8("dst"), "dst[0] |= ... expected")
        cpart = tx.z(fobj.take(cst2[1][3]))[0]
        vpart = tx.z(opassign(st2[1]))[0]
        fobj.take(st2[1][3])
        # unaligned branch
        expect(len(UU) == 3, "unaligned branch changed")
        cu, chd, ifc = UU
        expect(dump(cu[1][:3]) == dump(("assign", "=", ("id", "c"))), "c = BpMinTriple(...) expected")
        expect(chd[:3] == ("decl", "unsigned char", "ch") and dump(chd[3]) == LD8("src"), "unsigned char ch = src[0] expected")
        expect(ifc[0] == "if" and ifc[3] == [] and len(ifc[2]) == 1, "if (ch) ... expected")
        stu = ifc[2][0]
        expect(stu[1][0] == "assign" and stu[1][1] == "|=" and dump(stu[1][2]) == LD8("dst"), "dst[0] |= ... expected")
        cun = tx.z(fobj.take(cu[1][3]))[0]
        nz = tx.b(fobj.take(ifc[1]))
        vun = tx.z(opassign(stu[1]))[0]
        fobj.take(stu[1][3])
        if emit:
            out.extend([
                D("cp_thr8", ["bits"], "bool", thr8), D("cp_v8", ["b", "si"], "Z", f"({v8} mod 256)"),
                D("cp_c8", ["si"], "Z", c8), D("cp_c_part", ["si", "n"], "Z", cpart),
                D("cp_v_part", ["old", "b", "si", "c"], "Z", f"({vpart} mod 256)"),
                D("cp_c_un", ["di", "si", "n"], "Z", cun), D("cp_nonzero", ["ch"], "bool", nz),
                D("cp_v_un", ["old", "ch", "si", "di", "c"], "Z", f"({vun} mod 256)")])
    slow(f, A, U, True)
    slow(g, A2, U2, False)
    expect(dump(A[-1]) == dump(A2[-1]) and dump(U) == dump(U2) and dump(b[:5]) == dump(b2[:5]),
           "the byte paths differ between the two builds")
    for bb in (b, b2):
        expect(dump(bb[6:]) == "[(expr (assign -= (id n) (id c))) (expr (assign += (id di) (id c))) (expr (assign += (id si) (id c)))]",
               "n -= c; di += c; si += c expected")
    # mask the same nodes in the BE variant
    for s in (b2[0], b2[1], b2[2], b2[3]):
        g.take(s[1][3])
    g.take(iff2[1])
    g.take(A2[0][3])
    skel["bitproto.c:BpCopyBufferBits[LE]"] = f.skel()
    skel["bitproto.c:BpCopyBufferBits[BE]"] = g.skel()


@shaped
def tr_base(toks_le, toks_be, out: List[str], skel: Dict[str, str]) -> None:
    f = Fn(toks_le, "BpEndecodeBaseType")
    skel["bitproto.c:BpEndecodeBaseType[LE]"] = f.skel()
    g = Fn(toks_be, "BpEndecodeBaseType")
    a = g.ast
    expect(dump(a[0]) == "(decl int size (call (id BpBaseTypeStorageSize) [(id nbits)]))", "int size = BpBaseTypeStorageSize(nbits) expected")
    expect(a[1][:3] == ("declarr", "unsigned char", "le") and a[1][3][0] == "num" and dump(a[1][4]) == "(num 0)",
           "unsigned char le[N] = {0} expected")
    out.append(D("bt_stage_len", [], "Z", str(a[1][3][1])))
    tx = Tx("BpEndecodeBaseType", {"size": ("size", "int"), "k": ("k", "int")})
    enc_for = a[3][2][0]
    dec_for = a[3][3][1]
    for fr in (enc_for, dec_for):
        expect(fr[0] == "for" and dump(fr[1:4]) == dump((("decl", "int", "k", ("num", 0)), ("bin", "<", ("id", "k"), ("id", "size")),
                                                          ("post", "++", ("id", "k")))) and len(fr[4]) == 1, "staging loop header changed")
    e = enc_for[4][0][1]
    expect(e[0] == "assign" and e[1] == "=" and dump(e[2]) == "(idx (id le) (id k))" and e[3][0] == "idx" and dump(e[3][1]) == "(id p)",
           "le[k] = p[...] expected")
    out.append(D("bt_enc_src", ["size", "k"], "Z", tx.z(g.take(e[3][2]))[0]))
    e = dec_for[4][0][1]
    expect(e[0] == "assign" and e[1] == "=" and dump(e[3]) == "(idx (id le) (id k))" and e[2][0] == "idx" and dump(e[2][1]) == "(id p)",
           "p[...] = le[k] expected")
    out.append(D("bt_dec_dst", ["size", "k"], "Z", tx.z(g.take(e[2][2]))[0]))
    skel["bitproto.c:BpEndecodeBaseType[BE]"] = g.skel()


@shaped
def tr_sign(toks_le, toks_be, out: List[str], skel: Dict[str, str]) -> None:
    f = Fn(toks_le, "BpHandleIntSignAfterEndecode")
    expect(dump(Fn(toks_be, "BpHandleIntSignAfterEndecode").ast) == dump(f.ast), "sign handling differs between the builds")
    a = f.ast
    expect(dump(a[0]) == "(if (arrow (id ctx) is_encode) [(return None)] [])", "if (ctx->is_encode) return expected")
    expect(a[1][0] == "if" and dump(a[1][2]) == "[(return None)]" and a[1][3] == [], "early return on standard widths expected")
    tx = Tx("BpHandleIntSignAfterEndecode", {"nbits": ("nbits", "int"), "size": ("size", "int")})
    out.append(D("sg_skip", ["nbits"], "bool", tx.b(f.take(a[1][1]))))
    expect(a[2][:3] == ("decl", "int", "n"), "int n = size << 3 expected")
    out.append(D("sg_n", ["size"], "Z", tx.z(f.take(a[2][3]))[0]))
    sw = a[3]
    expect(sw[0] == "switch" and dump(sw[1]) == "(id n)", "switch (n) expected")
    cases, tests, masks = [], [], []
    for labels, body in sw[2]:
        expect(len(labels) == 1 and labels[0][0] == "num" and len(body) == 2 and body[1] == ("break",), "case shape changed")
        iff = body[0]
        expect(iff[0] == "if" and iff[3] == [] and len(iff[2]) == 1 and iff[1][0] == "bin" and iff[1][1] == "&", "if (X & M) expected")
        ld = iff[1][2]
        expect(ld[0] == "deref" and ld[1][0] == "cast" and dump(ld[1][2]) == "(id data)", "*(uintN_t *)data expected")
        cty = cp.CTYPE.get(ld[1][1].replace(" *", ""))
        expect(cty in cp.WIDTH, "load type changed", str(ld))
        st = iff[2][0][1]
        expect(st[0] == "assign" and st[1] == "|=" and dump(st[2]) == dump(ld), "*(uintN_t *)data |= ... expected")
        t2 = Tx("sign", {"nbits": ("nbits", "int")}, loads=[(dump(ld), "x", cty)])
        tm, tty = t2.z(f.take(iff[1][3]))
        om, oty = t2.z(f.take(st[3]))
        # the test is evaluated in the converted common type of x and the mask; the or-result
        # is converted to the lvalue type at the store
        cases.append((labels[0][1], cp.WIDTH[cty] // 8))
        tests.append((labels[0][1], tm))
        masks.append((labels[0][1], f"({om} mod {1 << cp.WIDTH[cty]})"))
    out.append("Definition sg_cases : list (Z * Z) := [" + "; ".join(f"({a_}, {b_})" for a_, b_ in cases) + "].")

    def chain(items):
        s = "0"
        for lab, t in reversed(items):
            s = f"(if (n =? {lab}) then {t} else {s})"
        return s
    out.append(D("sg_testmask", ["n", "nbits"], "Z", chain(tests)))
    out.append(D("sg_ormask", ["n", "nbits"], "Z", chain(masks)))
    skel["bitproto.c:BpHandleIntSignAfterEndecode"] = f.skel()


CTX_I = dump(("arrow", ("id", "ctx"), "i"))
DESC_CAP = dump(("arrow", ("id", "descriptor"), "cap"))


@shaped
def tr_array(toks_le, toks_be, consts, out: List[str], skel: Dict[str, str]) -> None:
    f = Fn(toks_le, "BpEndecodeArray")
    g = Fn(toks_be, "BpEndecodeArray")
    env = {v: (v, "int") for v in ("element_nbits", "flag", "to_flag", "cap", "i")}
    env["ahead"] = ("ahead", "u16")
    res = {}
    for tag, fn in (("le", f), ("be", g)):
        a = fn.ast
        tx = Tx("BpEndecodeArray", env, funcs=FUNCS, consts=consts, loads=[(CTX_I, "ci", "int"), (DESC_CAP, "cap", "int")])
        expect(len(a) == 12, "BpEndecodeArray: statement count changed")
        big = a[10]
        expect(big[0] == "if" and len(big[2]) == 2 and len(big[3]) == 1, "batch / per-element if changed")
        res[tag] = tx.b(fn.take(big[1]))
        call = big[2][0][1]
        expect(call[0] == "call" and dump(call[1]) == "(id BpEndecodeBaseType)" and dump(call[2][1:]) == "[(id ctx) (id data_ptr)]",
               "BpEndecodeBaseType(element_nbits * cap, ctx, data_ptr) expected")
        bn = tx.z(fn.take(call[2][0]))[0]
        sg = big[2][1]
        expect(sg[0] == "if" and sg[3] == [], "sign loop guard changed")
        sn = tx.b(fn.take(sg[1]))
        tail = a[11]
        expect(tail[0] == "if" and tail[3] == [] and len(tail[2]) == 2 and
               dump(tail[1]) == "(bin && (arrow (id descriptor) extensible) (un ! (arrow (id ctx) is_encode)))",
               "skip guard changed")
        itod, itest = tail[2]
        expect(itod[:3] == ("decl", "int", "ito") and itest[0] == "if" and itest[3] == [] and
               dump(itest[2]) == "[(expr (assign = (arrow (id ctx) i) (id ito)))]", "ito / test changed")
        ito = tx.z(fn.take(itod[3]))[0]
        tx2 = Tx("BpEndecodeArray", {"ito": ("ito", "int")}, loads=[(CTX_I, "ci", "int")])
        tk = tx2.b(fn.take(itest[1]))
        res[tag + "_rest"] = (bn, sn, ito, tk)
    expect(res["le_rest"] == res["be_rest"] and dump(f.ast, f.masked) == dump(g.ast, g.masked),
           "BpEndecodeArray differs between the builds beyond the batch predicate")
    bn, sn, ito, tk = res["le_rest"]
    out.append(D("ar_batch_le_build", ["element_nbits", "flag", "to_flag"], "bool", res["le"]))
    out.append(D("ar_batch_be_build", ["element_nbits", "flag", "to_flag"], "bool", res["be"]))
    out.append(D("ar_batch_nbits", ["element_nbits", "cap"], "Z", bn))
    out.append(D("ar_sign_needed", ["flag", "to_flag"], "bool", sn))
    out.append(D("ar_ito", ["i", "ahead", "ci", "cap"], "Z", ito))
    out.append(D("ar_ito_taken", ["ito", "ci"], "bool", tk))
    skel["bitproto.c:BpEndecodeArray"] = f.skel()


@shaped
def tr_message(toks_le, toks_be, out: List[str], skel: Dict[str, str]) -> None:
    f = Fn(toks_le, "BpEndecodeMessage")
    expect(dump(Fn(toks_be, "BpEndecodeMessage").ast) == dump(f.ast), "BpEndecodeMessage differs between the builds")
    a = f.ast
    tail = a[-1]
    expect(tail[0] == "if" and tail[3] == [] and len(tail[2]) == 2 and
           dump(tail[1]) == "(bin && (arrow (id descriptor) extensible) (un ! (arrow (id ctx) is_encode)))", "skip guard changed")
    itod, itest = tail[2]
    expect(itod[:3] == ("decl", "int", "ito") and itest[0] == "if" and itest[3] == [] and
           dump(itest[2]) == "[(expr (assign = (arrow (id ctx) i) (id ito)))]", "ito / test changed")
    tx = Tx("BpEndecodeMessage", {"i": ("i", "int"), "ahead": ("ahead", "u16")})
    out.append(D("ms_ito", ["i", "ahead"], "Z", tx.z(f.take(itod[3]))[0]))
    tx2 = Tx("BpEndecodeMessage", {"ito": ("ito", "int")}, loads=[(CTX_I, "ci", "int")])
    out.append(D("ms_ito_taken", ["ito", "ci"], "bool", tx2.b(f.take(itest[1]))))
    skel["bitproto.c:BpEndecodeMessage"] = f.skel()
    for nm in ("BpEndecodeMessageField", "BpEndecodeAlias", "BpEndecodeInt"):
        h = Fn(toks_le, nm)
        expect(dump(Fn(toks_be, nm).ast) == dump(h.ast), f"{nm} differs between the builds")
        skel[f"bitproto.c:{nm}"] = h.skel()


@shaped
def tr_ahead(toks_le, toks_be, out: List[str], skel: Dict[str, str]) -> None:
    vals = {}
    widths = set()
    for nm, field, key in (("BpEncodeArrayExtensibleAhead", "cap", "ah_arr_val"),
                           ("BpEncodeMessageExtensibleAhead", "nbits", "ah_msg_val")):
        f = Fn(toks_le, nm)
        expect(dump(Fn(toks_be, nm).ast) == dump(f.ast), f"{nm} differs between the builds")
        a = f.ast
        expect(len(a) == 2 and a[0][:3] == ("decl", "uint16_t", "data"), "uint16_t data = ... expected")
        tx = Tx(nm, {}, loads=[(dump(("arrow", ("id", "descriptor"), field)), field, "int")])
        t, ty = tx.z(f.take(a[0][3]))
        expect(ty == "u16", "value is not converted to uint16_t")
        vals[key] = (field, t)
        call = a[1][1]
        expect(call[0] == "call" and dump(call[1]) == "(id BpEndecodeBaseType)" and call[2][0][0] == "num" and
               dump(call[2][1:]) == "[(id ctx) (cast void * (addr (id data)))]", "BpEndecodeBaseType(16, ctx, &data) expected")
        widths.add(call[2][0][1])
        f.take(call[2][0])
        skel[f"bitproto.c:{nm}"] = f.skel()
    for nm in ("BpDecodeArrayExtensibleAhead", "BpDecodeMessageExtensibleAhead"):
        f = Fn(toks_le, nm)
        expect(dump(Fn(toks_be, nm).ast) == dump(f.ast), f"{nm} differs between the builds")
        a = f.ast
        expect(len(a) == 3 and dump(a[0]) == "(decl uint16_t data (num 0))" and dump(a[2]) == "(return (id data))",
               "uint16_t data = 0; ...; return data expected")
        call = a[1][1]
        expect(call[0] == "call" and dump(call[1]) == "(id BpEndecodeBaseType)" and call[2][0][0] == "num" and
               dump(call[2][1:]) == "[(id ctx) (cast void * (addr (id data)))]", "BpEndecodeBaseType(16, ctx, &data) expected")
        widths.add(call[2][0][1])
        f.take(call[2][0])
        skel[f"bitproto.c:{nm}"] = f.skel()
    expect(len(widths) == 1, "the four ahead helpers use different widths", str(widths))
    out.append(D("ah_size", [], "Z", "2"))
    out.append(D("ah_nbits", [], "Z", str(widths.pop())))
    for key, (field, t) in vals.items():
        out.append(D(key, [field], "Z", t))


class TrIn(Tr):
    """translate.Tr plus `x in (a, b, ...)`"""

    def b(self, e, env):
        if isinstance(e, pyast.Compare) and len(e.ops) == 1 and isinstance(e.ops[0], pyast.In) \
                and isinstance(e.comparators[0], pyast.Tuple):
            x = self.z(e.left, env)
            return "(" + " || ".join(f"({x} =? {self.z(c, env)})" for c in e.comparators[0].elts) + ")"
        return super().b(e, env)


def tr_compiler(out: List[str], skel: Dict[str, str]) -> None:
    tree = pyast.parse(_read("compiler/bitproto/_ast.py"))
    fn = find_func(tree, "nbytes", "Type")
    body = [s for s in fn.body if not (isinstance(s, pyast.Expr) and isinstance(s.value, pyast.Constant))]
    expect(pyast.unparse(body[0]) == "nbits = self.nbits()", "Type.nbytes: `nbits = self.nbits()` expected")
    out.append(f"Definition ast_nbytes (nbits : Z) : Z := {TrIn('Type.nbytes').body(body[1:], {'nbits': 'nbits'})}.")
    tree = pyast.parse(_read("compiler/bitproto/renderer/formatter.py"))
    fn = find_func(tree, "get_nbits_of_integer", "Formatter")
    body = [s for s in fn.body if not (isinstance(s, pyast.Expr) and isinstance(s.value, pyast.Constant))]
    expect(pyast.unparse(body[0]) == "nbytes = t.nbytes()", "get_nbits_of_integer: `nbytes = t.nbytes()` expected")
    out.append(f"Definition get_nbits_of_integer (nbytes : Z) : Z := "
               f"{TrIn('get_nbits_of_integer').body(body[1:], {'nbytes': 'nbytes'})}.")
    # the C formatter must not override the storage-size choice, and must print uint{N}_t / int{N}_t / sizeof
    ctree = pyast.parse(_read("compiler/bitproto/renderer/impls/c/formatter.py"))
    names = [n.name for n in pyast.walk(ctree) if isinstance(n, pyast.FunctionDef)]
    expect("get_nbits_of_integer" not in names, "the C formatter now overrides get_nbits_of_integer")
    # what the C formatter/renderer EMIT (BpType constructors, sizeof expressions, field tables) is tied by T1:
    # tools/t1_c.py parses the emitted descriptors of every generated schema and Coq compares them with CRt.render


def gen_c() -> Tuple[str, Dict[str, str]]:
    src = _read("lib/c/bitproto.c")
    hdr = _read("lib/c/bitproto.h")
    skel: Dict[str, str] = {}
    dd = cp.detection_digest_of(src)
    skel["bitproto.c:endian-detection-directive"] = dd
    toks_le = cp.tokenize(cp.preprocess(src, False, dd))
    toks_be = cp.tokenize(cp.preprocess(src, True, dd))
    out = ["(* GENERATED by tools/translate_crt.py from lib/c/bitproto.{c,h} and compiler/bitproto — do not edit *)",
           "From Coq Require Import ZArith Bool List.", "Import ListNotations.", "Open Scope Z_scope.", "",
           "(* ---- bitproto.h: type flags and fixed BpType constructors ---- *)"]
    h = cp.strip_comments(hdr).replace("\\\n", " ")
    consts: Dict[str, int] = {}
    for m in re.finditer(r"^#define (BP_TYPE_\w+) (\d+)\s*$", h, flags=re.M):
        consts[m.group(1)] = int(m.group(2))
    want = ["BP_TYPE_BOOL", "BP_TYPE_INT", "BP_TYPE_UINT", "BP_TYPE_BYTE", "BP_TYPE_ENUM", "BP_TYPE_ALIAS",
            "BP_TYPE_ARRAY", "BP_TYPE_MESSAGE"]
    expect(sorted(consts) == sorted(want), "bitproto.h: the set of BP_TYPE_* flags changed", str(consts))
    for k in want:
        out.append(f"Definition {k} : Z := {consts[k]}.")
    macros = {}
    for m in re.finditer(r"^#define (Bp\w+)\(([^)]*)\)\s+(.*)$", h, flags=re.M):
        macros[m.group(1)] = re.sub(r"\s+", "", m.group(3))
    mb = re.fullmatch(r"\(\(structBpType\)\{BP_TYPE_BOOL,(\d+),sizeof\(bool\),NULL,NULL,0\}\)", macros.get("BpBool", ""))
    my = re.fullmatch(r"\(\(structBpType\)\{BP_TYPE_BYTE,(\d+),sizeof\(unsignedchar\),NULL,NULL,0\}\)", macros.get("BpByte", ""))
    expect(bool(mb and my), "bitproto.h: BpBool()/BpByte() changed", str((macros.get("BpBool"), macros.get("BpByte"))))
    out.append(f"Definition BpBool_nbits : Z := {mb.group(1)}.")
    out.append(f"Definition BpByte_nbits : Z := {my.group(1)}.")
    skel["bitproto.h:constructor-macros"] = hashlib.sha256(
        json_dumps({k: macros.get(k) for k in ("BpUint", "BpInt", "BpMessage", "BpEnum", "BpArray", "BpAlias",
                                                "BpMessageDescriptor", "BpMessageFieldDescriptor", "BpArrayDescriptor",
                                                "BpAliasDescriptor", "BpProcessorContext")}).encode()).hexdigest()[:24]
    structs = re.findall(r"struct (Bp\w+) \{(.*?)\};", h, flags=re.S)
    skel["bitproto.h:structs"] = hashlib.sha256(json_dumps(
        [(n, re.sub(r"\s+", " ", b).strip()) for n, b in structs if n in
         ("BpProcessorContext", "BpType", "BpAliasDescriptor", "BpArrayDescriptor", "BpMessageFieldDescriptor",
          "BpMessageDescriptor")]).encode()).hexdigest()[:24]
    out += ["", "(* ---- bitproto.c: helpers ---- *)"]
    tr_helpers(toks_le, toks_be, consts, out, skel)
    out += ["", "(* ---- BpCopyBufferBits: expressions of the loop body ---- *)"]
    tr_copy(toks_le, toks_be, out, skel)
    out += ["", "(* ---- BpEndecodeBaseType, BP_BIG_ENDIAN staging ---- *)"]
    tr_base(toks_le, toks_be, out, skel)
    out += ["", "(* ---- BpHandleIntSignAfterEndecode ---- *)"]
    tr_sign(toks_le, toks_be, out, skel)
    out += ["", "(* ---- BpEndecodeArray ---- *)"]
    tr_array(toks_le, toks_be, consts, out, skel)
    out += ["", "(* ---- BpEndecodeMessage ---- *)"]
    tr_message(toks_le, toks_be, out, skel)
    out += ["", "(* ---- extensible-ahead helpers: native uint16_t object ---- *)"]
    tr_ahead(toks_le, toks_be, out, skel)
    out += ["", "(* ---- compiler: size constant and storage type selection ---- *)"]
    tr_compiler(out, skel)
    return "\n".join(out) + "\n", skel


def json_dumps(x: Any) -> str:
    import json
    return json.dumps(x, sort_keys=True)


GENERATORS = {"GenC.v": gen_c}

if __name__ == "__main__":
    t, s = gen_c()
    print(t)
    for k, v in sorted(s.items()):
        print(k, v)
