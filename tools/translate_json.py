"""translate_json — tie T0 for C16: regenerate coq/gen/GenJson.v from /repo.

What is READ from the source and printed as Gallina (never retyped by hand):
  * lib/c/bitproto.h   BP_TYPE_* flag numbers
  * lib/c/bitproto.c   BpJsonFormatMessage / MessageField / BaseType / Alias / Array:
                       every string literal handed to BpJsonFormatString (punctuation and
                       printf formats), the `nbits` thresholds and the pointer-cast types of
                       the conversion chains, "true"/"false", and the label list of every
                       `case` group of the three dispatching switches
  * compiler/.../formatter.py      Formatter.get_nbits_of_integer (C storage width)
  * compiler/.../_ast.py           Type.nbytes
  * compiler/.../impls/c/formatter.py  the C type-name templates ("int{0}_t", "bool", ...)
  * compiler/.../impls/py/renderer.py  _enum_field_proxy_prefix and the emitted dict_factory
What is PINNED by digest (hand-modelled control structure; coq/ref/skeletons_json.json):
  the statement skeleton of each BpJsonFormat* function with the extracted pieces masked,
  BpJsonFormatString, the renderer blocks that emit the C JSON entry points / descriptor
  tables / Python dataclass field list, bp.py to_dict / to_json.
A small C tokenizer + statement parser is used; anything it does not recognise raises
vlib.Broken (fail closed).
"""
from __future__ import annotations

import ast
import os
import re
from typing import Any, Dict, List, Optional, Tuple

from translate import Tr, find_func, skeleton_digest
from vlib import REPO, Broken, sha256

# --------------------------------------------------------------------------------------
# C tokenizer
# --------------------------------------------------------------------------------------

TOK_RE = re.compile(r"""
    (?P<ws>\s+)
  | (?P<lc>//[^\n]*)
  | (?P<bc>/\*.*?\*/)
  | (?P<str>"(?:\\.|[^"\\\n])*")
  | (?P<chr>'(?:\\.|[^'\\\n])*')
  | (?P<num>\d+[uUlL]*)
  | (?P<id>[A-Za-z_][A-Za-z0-9_]*)
  | (?P<op>\.\.\.|->|\+\+|--|<<=|>>=|<=|>=|==|!=|&&|\|\||\+=|-=|\*=|/=|%=|&=|\|=|\^=|<<|>>|[-+*/%&|^~!<>=?:;,.(){}\[\]])
""", re.S | re.X)


class Tok:
    __slots__ = ("kind", "text", "idx")

    def __init__(self, kind: str, text: str, idx: int):
        self.kind, self.text, self.idx = kind, text, idx

    def __repr__(self):
        return self.text


def c_tokens(src: str, fname: str) -> List[Tok]:
    # preprocessor lines (with continuations) are dropped: none may occur inside the
    # functions we read (checked below: `#` is not a token the tokenizer accepts)
    src = re.sub(r"(?m)^[ \t]*#(?:[^\n\\]|\\.|\\\n)*$", "", src)
    out: List[Tok] = []
    pos = 0
    while pos < len(src):
        m = TOK_RE.match(src, pos)
        if not m:
            raise Broken(f"translator(json): {fname}: cannot tokenize at offset {pos}", src[pos:pos + 60])
        pos = m.end()
        k = m.lastgroup
        if k in ("ws", "lc", "bc"):
            continue
        out.append(Tok(k, m.group(0), len(out)))
    return out


def c_unescape(lit: str, where: str) -> str:
    """C string literal (with quotes) -> its characters; printable ASCII only."""
    body = lit[1:-1]
    out = []
    i = 0
    while i < len(body):
        c = body[i]
        if c == "\\":
            i += 1
            if i >= len(body) or body[i] not in ('"', "\\", "'"):
                raise Broken(f"translator(json): {where}: escape sequence not supported in {lit}")
            out.append(body[i])
        else:
            out.append(c)
        i += 1
    s = "".join(out)
    if not all(32 <= ord(ch) < 127 for ch in s):
        raise Broken(f"translator(json): {where}: non-printable character in {lit}")
    return s


def coq_str(s: str) -> str:
    return '"' + s.replace('"', '""') + '"'


# --------------------------------------------------------------------------------------
# statement parser (the fragment used by the BpJsonFormat* functions)
# --------------------------------------------------------------------------------------

class P:
    def __init__(self, toks: List[Tok], fname: str):
        self.t = toks
        self.i = 0
        self.fname = fname

    def fail(self, why: str):
        ctx = " ".join(x.text for x in self.t[max(0, self.i - 5):self.i + 12])
        raise Broken(f"translator(json): {self.fname}: {why}", ctx)

    def peek(self) -> Optional[Tok]:
        return self.t[self.i] if self.i < len(self.t) else None

    def eat(self, text: str) -> Tok:
        tk = self.peek()
        if tk is None or tk.text != text:
            self.fail(f"expected `{text}`")
        self.i += 1
        return tk

    def parens(self) -> List[Tok]:
        """( ... ) balanced; returns the tokens inside."""
        self.eat("(")
        depth = 1
        out = []
        while True:
            tk = self.peek()
            if tk is None:
                self.fail("unbalanced parenthesis")
            self.i += 1
            if tk.text == "(":
                depth += 1
            elif tk.text == ")":
                depth -= 1
                if depth == 0:
                    return out
            out.append(tk)

    def block(self) -> list:
        self.eat("{")
        out = []
        while self.peek() is not None and self.peek().text != "}":
            out.append(self.stmt())
        self.eat("}")
        return out

    def stmt(self):
        tk = self.peek()
        if tk is None:
            self.fail("unexpected end")
        if tk.text == "{":
            return ("block", self.block())
        if tk.text == "switch":
            self.i += 1
            e = self.parens()
            self.eat("{")
            groups = []
            while self.peek() is not None and self.peek().text != "}":
                labels = []
                while self.peek() is not None and self.peek().text == "case":
                    self.i += 1
                    lab = self.peek()
                    if lab.kind not in ("id", "num"):
                        self.fail("case label is not a name or a number")
                    self.i += 1
                    self.eat(":")
                    labels.append(lab)
                if not labels:
                    self.fail("statement in switch without a case label (or `default`)")
                body = []
                while self.peek() is not None and self.peek().text not in ("case", "}", "default"):
                    body.append(self.stmt())
                groups.append((labels, body))
            self.eat("}")
            return ("switch", e, groups)
        if tk.text == "if":
            self.i += 1
            c = self.parens()
            th = self.stmt()
            el = None
            if self.peek() is not None and self.peek().text == "else":
                self.i += 1
                el = self.stmt()
            return ("if", c, th, el)
        if tk.text == "for":
            self.i += 1
            h = self.parens()
            return ("for", h, self.stmt())
        if tk.text == "break":
            self.i += 1
            self.eat(";")
            return ("break",)
        if tk.text in ("while", "do", "goto", "return", "default", "continue"):
            self.fail(f"statement `{tk.text}` not supported")
        # simple statement up to `;` at depth 0
        depth = 0
        out = []
        while True:
            tk = self.peek()
            if tk is None:
                self.fail("unterminated statement")
            self.i += 1
            if tk.text in "([{":
                depth += 1
            elif tk.text in ")]}":
                depth -= 1
            elif tk.text == ";" and depth == 0:
                break
            out.append(tk)
        return classify_simple(out)


def split_args(toks: List[Tok]) -> List[List[Tok]]:
    args, cur, depth = [], [], 0
    for tk in toks:
        if tk.text in "([{":
            depth += 1
        elif tk.text in ")]}":
            depth -= 1
        if tk.text == "," and depth == 0:
            args.append(cur)
            cur = []
        else:
            cur.append(tk)
    if cur or args:
        args.append(cur)
    return args


def classify_simple(toks: List[Tok]):
    """callee(args) where callee is a chain of names joined by -> or . ; else raw."""
    k = 0
    while k < len(toks) and (toks[k].kind == "id" or toks[k].text in ("->", ".")):
        k += 1
    if 0 < k < len(toks) and toks[k].text == "(" and toks[-1].text == ")" and toks[0].kind == "id":
        depth = 0
        ok = True
        for j in range(k, len(toks)):
            if toks[j].text == "(":
                depth += 1
            elif toks[j].text == ")":
                depth -= 1
                if depth == 0 and j != len(toks) - 1:
                    ok = False
                    break
        if ok:
            callee = "".join(x.text for x in toks[:k])
            return ("call", callee, split_args(toks[k + 1:-1]), toks)
    return ("raw", toks)


def find_c_function(toks: List[Tok], name: str, fname: str) -> Tuple[List[Tok], list]:
    """Returns (signature tokens, parsed body) of the top-level definition `name`."""
    depth = 0
    for i, tk in enumerate(toks):
        if tk.text == "{":
            depth += 1
        elif tk.text == "}":
            depth -= 1
        elif depth == 0 and tk.kind == "id" and tk.text == name and i + 1 < len(toks) and toks[i + 1].text == "(":
            # find the closing paren, then `{` (definition) or `;` (declaration)
            j = i + 1
            d = 0
            while j < len(toks):
                if toks[j].text == "(":
                    d += 1
                elif toks[j].text == ")":
                    d -= 1
                    if d == 0:
                        break
                j += 1
            if j + 1 < len(toks) and toks[j + 1].text == "{":
                # signature starts after the previous `}` or `;`
                s = i
                while s > 0 and toks[s - 1].text not in ("}", ";"):
                    s -= 1
                p = P(toks, f"{fname}:{name}")
                p.i = j + 1
                body = p.block()
                return toks[s:j + 1], body
    raise Broken(f"translator(json): {fname}: function {name} not found")


def ser(node, mask: Dict[int, str]) -> str:
    """Serialise a parsed statement (list) with masked tokens replaced by their placeholder."""
    def tl(ts):
        return " ".join(mask.get(t.idx, t.text) for t in ts)
    if isinstance(node, list):
        return "[" + "; ".join(ser(x, mask) for x in node) + "]"
    k = node[0]
    if k == "block":
        return "{" + ser(node[1], mask) + "}"
    if k == "switch":
        return "switch(" + tl(node[1]) + "){" + "".join(
            "case<" + ",".join(mask.get(l.idx, l.text) for l in labs) + ">:" + ser(body, mask)
            for labs, body in node[2]) + "}"
    if k == "if":
        return "if(" + tl(node[1]) + ")" + ser(node[2], mask) + ("else" + ser(node[3], mask) if node[3] else "")
    if k == "for":
        return "for(" + tl(node[1]) + ")" + ser(node[2], mask)
    if k == "break":
        return "break"
    if k == "call":
        return "call:" + tl(node[3])
    if k == "raw":
        return "raw:" + tl(node[1])
    raise Broken("translator(json): internal: unknown node " + str(k))


# --------------------------------------------------------------------------------------
# recognisers
# --------------------------------------------------------------------------------------

def unblock(s):
    """A statement or a one-statement block -> list of statements."""
    if s[0] == "block":
        return s[1]
    return [s]


class CJson:
    def __init__(self):
        self.path_c = os.path.join(REPO, "lib/c/bitproto.c")
        self.path_h = os.path.join(REPO, "lib/c/bitproto.h")
        self.toks = c_tokens(open(self.path_c).read(), "bitproto.c")
        self.flags: Dict[str, int] = {}
        for m in re.finditer(r"(?m)^#define\s+(BP_TYPE_[A-Z]+)\s+(\d+)\s*$", open(self.path_h).read()):
            if m.group(1) in self.flags:
                raise Broken(f"translator(json): bitproto.h: {m.group(1)} defined twice")
            self.flags[m.group(1)] = int(m.group(2))
        want = {"BP_TYPE_BOOL", "BP_TYPE_INT", "BP_TYPE_UINT", "BP_TYPE_BYTE", "BP_TYPE_ENUM", "BP_TYPE_ALIAS",
                "BP_TYPE_ARRAY", "BP_TYPE_MESSAGE"}
        if set(self.flags) != want:
            raise Broken("translator(json): bitproto.h: BP_TYPE_* flags are not the 8 expected", str(self.flags))
        if len(set(self.flags.values())) != 8:
            raise Broken("translator(json): bitproto.h: BP_TYPE_* flags are not distinct", str(self.flags))
        self.skel: Dict[str, str] = {}
        self.defs: List[str] = []
        # descriptor constructors of the two base types that carry no width in the schema
        h = re.sub(r"\\\n", " ", open(self.path_h).read())
        for macro, flag, key in (("BpBool", "BP_TYPE_BOOL", "bool"), ("BpByte", "BP_TYPE_BYTE", "byte")):
            m = re.search(r"#define\s+" + macro + r"\(\)\s*\(\(struct BpType\)\{\s*" + flag +
                          r",\s*(\d+),\s*sizeof\(([A-Za-z_ ]+)\),\s*NULL,\s*NULL,\s*0\}\)", h)
            if not m:
                raise Broken(f"translator(json): bitproto.h: {macro}() is not {{{flag}, N, sizeof(T), NULL, NULL, 0}}")
            self.defs.append(f"Definition {key}_desc_nbits : Z := {int(m.group(1))}.")
            self.defs.append(f"Definition {key}_desc_ctype : string := {coq_str(m.group(2).strip())}.")

    def fail(self, fn: str, why: str, node=None):
        raise Broken(f"translator(json): bitproto.c:{fn}: {why}", ser(node, {})[:400] if node is not None else "")

    def labels(self, fn: str, labs: List[Tok], mask) -> List[int]:
        out = []
        for l in labs:
            if l.text not in self.flags:
                self.fail(fn, f"case label {l.text} is not a BP_TYPE_* flag")
            mask[l.idx] = "LABEL"
            out.append(self.flags[l.text])
        return out

    def fmt_call(self, fn: str, s, mask, nargs: int) -> Tuple[str, List[List[Tok]]]:
        """BpJsonFormatString(ctx, "literal", extra...) -> (literal, extra args)"""
        if s[0] != "call" or s[1] != "BpJsonFormatString":
            self.fail(fn, "expected a call of BpJsonFormatString", s)
        args = s[2]
        if len(args) != nargs or [t.text for t in args[0]] != ["ctx"] or len(args[1]) != 1 \
                or args[1][0].kind != "str":
            self.fail(fn, f"BpJsonFormatString call is not (ctx, \"literal\"{', arg' * (nargs - 2)})", s)
        mask[args[1][0].idx] = "STR"
        return c_unescape(args[1][0].text, fn), args[2:]

    def is_call(self, s, callee: str, args: List[str]) -> bool:
        return s[0] == "call" and s[1] == callee and [" ".join(t.text for t in a) for a in s[2]] == args

    def record(self, fn: str, sig: List[Tok], body, mask):
        self.skel[f"bitproto.c:{fn}"] = sha256(" ".join(t.text for t in sig) + " " + ser(body, mask))

    # ---- BpJsonFormatString: pinned entirely ------------------------------------------
    def string_fn(self):
        sig, body = find_c_function(self.toks, "BpJsonFormatString", "bitproto.c")
        self.record("BpJsonFormatString", sig, body, {})

    # ---- dispatch switch: two groups, base-type call / formatter call ------------------
    def dispatch(self, fn: str, sw, mask, base_args: List[str], fmt_callee: str, fmt_args: List[str],
                 sel: str) -> Tuple[List[int], List[int]]:
        if sw[0] != "switch" or [t.text for t in sw[1]] != [sel] or len(sw[2]) != 2:
            self.fail(fn, f"expected switch ({sel}) with two case groups", sw)
        base = fmtr = None
        for labs, body in sw[2]:
            if len(body) != 2 or body[1] != ("break",):
                self.fail(fn, "case group is not `call; break;`", body)
            if self.is_call(body[0], "BpJsonFormatBaseType", base_args):
                base = self.labels(fn, labs, mask)
            elif self.is_call(body[0], fmt_callee, fmt_args):
                fmtr = self.labels(fn, labs, mask)
            else:
                self.fail(fn, "case group calls neither BpJsonFormatBaseType nor the json_formatter as expected",
                          body[0])
        if base is None or fmtr is None:
            self.fail(fn, "switch does not have one base-type group and one formatter group", sw)
        return base, fmtr

    def sep_if(self, fn: str, s, mask, cond: str) -> str:
        if s[0] != "if" or " ".join(t.text for t in s[1]) != cond or s[3] is not None:
            self.fail(fn, f"expected `if ({cond})` without else", s)
        th = unblock(s[2])
        if len(th) != 1:
            self.fail(fn, "separator branch is not a single call", s)
        lit, _ = self.fmt_call(fn, th[0], mask, 2)
        return lit

    def message_fn(self):
        fn = "BpJsonFormatMessage"
        sig, body = find_c_function(self.toks, fn, "bitproto.c")
        mask: Dict[int, str] = {}
        if len(body) != 3 or body[1][0] != "for":
            self.fail(fn, "body is not [open; for; close]", body)
        op, _ = self.fmt_call(fn, body[0], mask, 2)
        cl, _ = self.fmt_call(fn, body[2], mask, 2)
        loop = unblock(body[1][2])
        if " ".join(t.text for t in body[1][1]) != "int k = 0 ; k < descriptor -> nfields ; k ++":
            self.fail(fn, "loop header is not `int k = 0; k < descriptor->nfields; k++`", body[1])
        if len(loop) != 3 or loop[0][0] != "raw" or not self.is_call(
                loop[1], "BpJsonFormatMessageField", ["field_descriptor", "ctx"]):
            self.fail(fn, "loop body is not [field_descriptor = ...; BpJsonFormatMessageField; if ...]", loop)
        if " ".join(t.text for t in loop[0][1]) != \
                "struct BpMessageFieldDescriptor * field_descriptor = & ( descriptor -> field_descriptors [ k ] )":
            self.fail(fn, "field_descriptor is not &(descriptor->field_descriptors[k])", loop[0])
        sep = self.sep_if(fn, loop[2], mask, "k + 1 < descriptor -> nfields")
        self.record(fn, sig, body, mask)
        self.defs += [f"Definition msg_open : string := {coq_str(op)}.",
                      f"Definition msg_sep : string := {coq_str(sep)}.",
                      f"Definition msg_close : string := {coq_str(cl)}."]

    def field_fn(self):
        fn = "BpJsonFormatMessageField"
        sig, body = find_c_function(self.toks, fn, "bitproto.c")
        mask: Dict[int, str] = {}
        if len(body) != 4:
            self.fail(fn, "body is not [key; flag; nbits; switch]", body)
        key, extra = self.fmt_call(fn, body[0], mask, 3)
        if " ".join(t.text for t in extra[0]) != "descriptor -> name":
            self.fail(fn, "key argument is not descriptor->name", body[0])
        if [" ".join(t.text for t in b[1]) if b[0] == "raw" else None for b in body[1:3]] != \
                ["int flag = descriptor -> type . flag", "int nbits = descriptor -> type . nbits"]:
            self.fail(fn, "flag / nbits are not read from descriptor->type", body[1:3])
        base, fmtr = self.dispatch(fn, body[3], mask, ["flag", "nbits", "ctx", "descriptor -> data"],
                                   "descriptor->type.json_formatter", ["descriptor -> data", "ctx"], "flag")
        self.record(fn, sig, body, mask)
        self.defs += [f"Definition key_fmt : string := {coq_str(key)}.",
                      f"Definition field_base_flags : list Z := {zl(base)}.",
                      f"Definition field_fmt_flags : list Z := {zl(fmtr)}."]

    def alias_fn(self):
        fn = "BpJsonFormatAlias"
        sig, body = find_c_function(self.toks, fn, "bitproto.c")
        mask: Dict[int, str] = {}
        if len(body) != 2 or body[0][0] != "raw" or \
                " ".join(t.text for t in body[0][1]) != "int flag = descriptor -> to . flag":
            self.fail(fn, "body is not [int flag = descriptor->to.flag; switch]", body)
        base, fmtr = self.dispatch(fn, body[1], mask, ["flag", "descriptor -> to . nbits", "ctx", "data"],
                                   "descriptor->to.json_formatter", ["data", "ctx"], "flag")
        self.record(fn, sig, body, mask)
        self.defs += [f"Definition alias_base_flags : list Z := {zl(base)}.",
                      f"Definition alias_fmt_flags : list Z := {zl(fmtr)}."]

    def array_fn(self):
        fn = "BpJsonFormatArray"
        sig, body = find_c_function(self.toks, fn, "bitproto.c")
        mask: Dict[int, str] = {}
        if len(body) != 7 or body[5][0] != "for":
            self.fail(fn, "body is not [open; 4 declarations; for; close]", body)
        op, _ = self.fmt_call(fn, body[0], mask, 2)
        cl, _ = self.fmt_call(fn, body[6], mask, 2)
        decls = [" ".join(t.text for t in b[1]) if b[0] == "raw" else None for b in body[1:5]]
        if decls != ["int element_size = descriptor -> element_type . size",
                     "int element_flag = descriptor -> element_type . flag",
                     "int element_nbits = descriptor -> element_type . nbits",
                     "unsigned char * data_ptr = ( unsigned char * ) data"]:
            self.fail(fn, "declarations differ from element_size/element_flag/element_nbits/data_ptr", body[1:5])
        if " ".join(t.text for t in body[5][1]) != "int k = 0 ; k < descriptor -> cap ; k ++":
            self.fail(fn, "loop header is not `int k = 0; k < descriptor->cap; k++`", body[5])
        loop = unblock(body[5][2])
        if len(loop) != 3:
            self.fail(fn, "loop body is not [element_data = ...; switch; if (k + 1 < cap) separator]", loop)
        if loop[0][0] != "raw" or " ".join(t.text for t in loop[0][1]) != \
                "void * element_data = ( void * ) ( data_ptr + k * element_size )":
            self.fail(fn, "element address is not data_ptr + k * element_size", loop)
        base, fmtr = self.dispatch(fn, loop[1], mask, ["element_flag", "element_nbits", "ctx", "element_data"],
                                   "descriptor->element_type.json_formatter", ["element_data", "ctx"],
                                   "element_flag")
        sep = self.sep_if(fn, loop[2], mask, "k + 1 < descriptor -> cap")
        self.record(fn, sig, body, mask)
        self.defs += [f"Definition arr_open : string := {coq_str(op)}.",
                      f"Definition arr_sep : string := {coq_str(sep)}.",
                      f"Definition arr_close : string := {coq_str(cl)}.",
                      f"Definition arr_base_flags : list Z := {zl(base)}.",
                      f"Definition arr_fmt_flags : list Z := {zl(fmtr)}."]

    # ---- BpJsonFormatBaseType ------------------------------------------------------------
    def deref(self, fn: str, toks: List[Tok], mask) -> str:
        """(*((TYPE *)data)) with any redundant parentheses -> TYPE"""
        flat = [t for t in toks if t.text not in ("(", ")")]
        if len(flat) < 4 or flat[0].text != "*" or flat[-1].text != "data" or flat[-2].text != "*" \
                or not all(t.kind == "id" for t in flat[1:-2]):
            raise Broken(f"translator(json): bitproto.c:{fn}: argument is not *((TYPE *)data)",
                         " ".join(t.text for t in toks))
        for t in flat[1:-2]:
            mask[t.idx] = "TYPE"
        mask[flat[1].idx] = "TYPE%d" % (len(flat) - 3)     # number of type-name tokens is pinned
        return " ".join(t.text for t in flat[1:-2])

    def conv(self, fn: str, s, mask) -> str:
        sts = unblock(s)
        if len(sts) != 1:
            self.fail(fn, "conversion branch is not a single statement", s)
        s = sts[0]
        if s[0] == "if":
            c = s[1]
            if len(c) != 3 or c[0].text != "nbits" or c[1].text not in ("<=", "<") or c[2].kind != "num" \
                    or not c[2].text.isdigit() or s[3] is None:
                self.fail(fn, "condition is not `nbits <= N` / `nbits < N` with an else branch", s)
            mask[c[1].idx] = "CMP"
            mask[c[2].idx] = "NUM"
            strict = "true" if c[1].text == "<" else "false"
            return f"(CIf {strict} {int(c[2].text)} {self.conv(fn, s[2], mask)} {self.conv(fn, s[3], mask)})"
        lit, extra = self.fmt_call(fn, s, mask, 3)
        ty = self.deref(fn, extra[0], mask)
        return f"(CLeaf {coq_str(lit)} {coq_str(ty)})"

    def base_fn(self):
        fn = "BpJsonFormatBaseType"
        sig, body = find_c_function(self.toks, fn, "bitproto.c")
        mask: Dict[int, str] = {}
        if len(body) != 1 or body[0][0] != "switch" or [t.text for t in body[0][1]] != ["flag"]:
            self.fail(fn, "body is not a single switch (flag)", body)
        groups = []
        for labs, gb in body[0][2]:
            if len(gb) != 2 or gb[1] != ("break",):
                self.fail(fn, "case group is not `statement; break;`", gb)
            ls = self.labels(fn, labs, mask)
            s = gb[0]
            g = None
            if s[0] == "call" and s[1] == "BpJsonFormatString" and len(s[2]) == 3:
                arg = s[2][2]
                q = [i for i, t in enumerate(arg) if t.text == "?"]
                if q:
                    # (*((bool *)(data))) ? "true" : "false"
                    rest = arg[q[0] + 1:]
                    if len(q) != 1 or len(rest) != 3 or rest[0].kind != "str" or rest[1].text != ":" \
                            or rest[2].kind != "str":
                        self.fail(fn, "conditional argument is not `deref ? \"lit\" : \"lit\"`", s)
                    lit, _ = self.fmt_call(fn, s, mask, 3)
                    ty = self.deref(fn, arg[:q[0]], mask)
                    mask[rest[0].idx] = "STR"
                    mask[rest[2].idx] = "STR"
                    g = (f"(GBool {coq_str(lit)} {coq_str(ty)} {coq_str(c_unescape(rest[0].text, fn))} "
                         f"{coq_str(c_unescape(rest[2].text, fn))})")
            if g is None:
                g = f"(GConv {self.conv(fn, s, mask)})"
            groups.append(f"({zl(ls)}, {g})")
        self.record(fn, sig, body, mask)
        self.defs.append("Definition base_groups : list (list Z * bgroup) :=\n  [ " + ";\n    ".join(groups) + " ].")


def zl(xs) -> str:
    return "[" + "; ".join(str(x) for x in xs) + "]"


# --------------------------------------------------------------------------------------
# compiler side (Python sources)
# --------------------------------------------------------------------------------------

class TrJ(Tr):
    """Tr + `self.nbits()` / `t.nbytes()` as variables and `x in (a, b, ...)`."""

    def z(self, e, env):
        if isinstance(e, ast.Call) and isinstance(e.func, ast.Attribute) and not e.args and not e.keywords:
            key = ast.unparse(e)
            if key in self.attr_map:
                return self.attr_map[key]
        return super().z(e, env)

    def b(self, e, env):
        if isinstance(e, ast.Compare) and len(e.ops) == 1 and isinstance(e.ops[0], ast.In) \
                and isinstance(e.comparators[0], ast.Tuple) and e.comparators[0].elts:
            x = self.z(e.left, env)
            return "(" + " || ".join(f"({x} =? {self.z(c, env)})" for c in e.comparators[0].elts) + ")"
        return super().b(e, env)


def find_class_func(tree: ast.AST, cls: str, name: str) -> ast.FunctionDef:
    return find_func(tree, name, cls)


def const_return(tree, cls: str, name: str, fname: str) -> str:
    """`def name(self, ...): return "literal"` -> literal"""
    fn = find_class_func(tree, cls, name)
    body = [s for s in fn.body if not (isinstance(s, ast.Expr) and isinstance(s.value, ast.Constant))]
    if len(body) == 1 and isinstance(body[0], ast.Return) and isinstance(body[0].value, ast.Constant) \
            and isinstance(body[0].value.value, str):
        return body[0].value.value
    raise Broken(f"translator(json): {fname}: {cls}.{name} does not return a string literal")


def template_return(tree, cls: str, name: str, fname: str) -> Tuple[str, str]:
    """`return "int{0}_t".format(self.get_nbits_of_integer(t))` -> ("int", "_t")"""
    fn = find_class_func(tree, cls, name)
    body = [s for s in fn.body if not (isinstance(s, ast.Expr) and isinstance(s.value, ast.Constant))]
    if len(body) == 1 and isinstance(body[0], ast.Return):
        v = body[0].value
        if isinstance(v, ast.Call) and isinstance(v.func, ast.Attribute) and v.func.attr == "format" \
                and isinstance(v.func.value, ast.Constant) and isinstance(v.func.value.value, str) \
                and len(v.args) == 1 and ast.unparse(v.args[0]) == "self.get_nbits_of_integer(t)":
            parts = v.func.value.value.split("{0}")
            if len(parts) == 2 and "{" not in parts[0] + parts[1]:
                return parts[0], parts[1]
    raise Broken(f"translator(json): {fname}: {cls}.{name} is not `\"pre{{0}}post\".format(self.get_nbits_of_integer(t))`")


def compiler_side(defs: List[str], skel: Dict[str, str]) -> None:
    # Type.nbytes and Formatter.get_nbits_of_integer
    p_ast = os.path.join(REPO, "compiler/bitproto/_ast.py")
    t_ast = ast.parse(open(p_ast).read())
    fn = find_class_func(t_ast, "Type", "nbytes")
    tr = TrJ("Type.nbytes", attr_map={"self.nbits()": "nbits"})
    defs.append(f"Definition nbytes_of (nbits : Z) : Z := {tr.body(fn.body, {})}.")
    p_fmt = os.path.join(REPO, "compiler/bitproto/renderer/formatter.py")
    t_fmt = ast.parse(open(p_fmt).read())
    fn = find_class_func(t_fmt, "Formatter", "get_nbits_of_integer")
    tr = TrJ("Formatter.get_nbits_of_integer", attr_map={"t.nbytes()": "nbytes"})
    defs.append(f"Definition storage_bits (nbytes : Z) : Z := {tr.body(fn.body, {})}.")
    # C type names
    p_cf = os.path.join(REPO, "compiler/bitproto/renderer/impls/c/formatter.py")
    t_cf = ast.parse(open(p_cf).read())
    for c in ast.walk(t_cf):
        if isinstance(c, ast.ClassDef) and c.name == "CFormatter":
            if any(isinstance(n, ast.FunctionDef) and n.name == "get_nbits_of_integer" for n in c.body):
                raise Broken("translator(json): CFormatter overrides get_nbits_of_integer")
    defs.append(f"Definition c_bool_type : string := {coq_str(const_return(t_cf, 'CFormatter', 'format_bool_type', 'c/formatter.py'))}.")
    defs.append(f"Definition c_byte_type : string := {coq_str(const_return(t_cf, 'CFormatter', 'format_byte_type', 'c/formatter.py'))}.")
    for nm, key in (("format_uint_type", "c_uint"), ("format_int_type", "c_int")):
        pre, post = template_return(t_cf, "CFormatter", nm, "c/formatter.py")
        defs.append(f"Definition {key}_pre : string := {coq_str(pre)}.")
        defs.append(f"Definition {key}_post : string := {coq_str(post)}.")
    # renderer blocks that shape the emitted C JSON entry points and descriptor tables
    p_rc = os.path.join(REPO, "compiler/bitproto/renderer/impls/c/renderer_c.py")
    t_rc = ast.parse(open(p_rc).read())
    for cls, name in (("BlockArrayJsonFormatterBody", "render"), ("BlockAliasJsonFormatterBody", "render"),
                      ("BlockMessageProcessorFieldItem", "render"), ("BlockMessageProcessorFieldList", "blocks"),
                      ("BlockMessageDescriptorBuild", "render"), ("BlockMessageBpJsonFormatter", "after"),
                      ("BlockMessageJsonFormatter", "render")):
        skel[f"renderer_c.py:{cls}.{name}"] = sha256(skeleton_digest(find_class_func(t_rc, cls, name)))
    for name in ("format_bp_type", "format_bp_type_flag", "format_bp_bool", "format_bp_int", "format_bp_uint",
                 "format_bp_byte", "format_bp_enum", "format_bp_message", "format_bp_array", "format_bp_alias",
                 "format_bp_alias_descriptor", "format_bp_array_descriptor", "format_bp_message_descriptor"):
        skel[f"c/formatter.py:CFormatter.{name}"] = sha256(skeleton_digest(find_class_func(t_cf, "CFormatter", name)))
    p_rh = os.path.join(REPO, "compiler/bitproto/renderer/impls/c/renderer_h.py")
    t_rh = ast.parse(open(p_rh).read())
    for cls, name in (("BlockEnumDef", "render"), ("BlockMessageFieldList", "blocks")):
        skel[f"renderer_h.py:{cls}.{name}"] = sha256(skeleton_digest(find_class_func(t_rh, cls, name)))
    skel["_ast.py:Message.sorted_fields"] = sha256(skeleton_digest(find_class_func(t_ast, "Message", "sorted_fields")))
    skel["_ast.py:Array.element_type_constraints"] = sha256(
        skeleton_digest(find_class_func(t_ast, "Array", "element_type_constraints")))
    skel["_ast.py:Alias.validate_type"] = sha256(skeleton_digest(find_class_func(t_ast, "Alias", "validate_type")))

    # Python renderer: proxy prefix, dict_factory, dataclass field list, bytearray typing
    p_rp = os.path.join(REPO, "compiler/bitproto/renderer/impls/py/renderer.py")
    t_rp = ast.parse(open(p_rp).read())
    prefix = None
    for n in t_rp.body:
        if isinstance(n, ast.Assign) and len(n.targets) == 1 and isinstance(n.targets[0], ast.Name) \
                and n.targets[0].id == "_enum_field_proxy_prefix":
            if not (isinstance(n.value, ast.Constant) and isinstance(n.value.value, str)) or prefix is not None:
                raise Broken("translator(json): py/renderer.py: _enum_field_proxy_prefix is not one string literal")
            prefix = n.value.value
    if prefix is None or not prefix or not all(32 <= ord(c) < 127 and c not in "'\\\"{}" for c in prefix):
        raise Broken("translator(json): py/renderer.py: _enum_field_proxy_prefix missing or has special characters")
    fn = find_class_func(t_rp, "BlockMessageDictFactory", "before")
    lines = []
    for s in fn.body:
        if isinstance(s, ast.Expr) and isinstance(s.value, ast.Constant):
            continue
        if not (isinstance(s, ast.Expr) and isinstance(s.value, ast.Call) and ast.unparse(s.value.func) == "self.push"
                and len(s.value.args) == 1 and not s.value.keywords):
            raise Broken("translator(json): py/renderer.py: BlockMessageDictFactory.before is not a list of self.push(str)")
        a = s.value.args[0]
        if isinstance(a, ast.Constant) and isinstance(a.value, str):
            lines.append(a.value)
        elif isinstance(a, ast.JoinedStr):
            txt = ""
            for part in a.values:
                if isinstance(part, ast.Constant):
                    txt += part.value
                elif isinstance(part, ast.FormattedValue) and isinstance(part.value, ast.Name) \
                        and part.value.id == "_enum_field_proxy_prefix" and part.conversion == -1 \
                        and part.format_spec is None:
                    txt += prefix
                else:
                    raise Broken("translator(json): py/renderer.py: dict_factory f-string interpolates something else")
            lines.append(txt)
        else:
            raise Broken("translator(json): py/renderer.py: BlockMessageDictFactory.before pushes a non-literal")
    emitted = "\n".join(lines) + "\n"
    try:
        em = ast.parse(emitted)
    except SyntaxError as e:
        raise Broken("translator(json): emitted dict_factory does not parse", str(e))
    f = em.body[0] if em.body else None
    ok = (isinstance(f, ast.FunctionDef) and f.name == "dict_factory" and [a.arg for a in f.args.args] == ["kv_pairs"]
          and [ast.unparse(d) for d in f.decorator_list] == ["staticmethod"] and len(f.body) == 1
          and isinstance(f.body[0], ast.Return) and isinstance(f.body[0].value, ast.DictComp))
    drop = None
    if ok:
        dc = f.body[0].value
        g = dc.generators[0] if len(dc.generators) == 1 else None
        if g is not None and ast.unparse(dc.key) == "k" and ast.unparse(dc.value) == "v" \
                and ast.unparse(g.target) == "(k, v)" and ast.unparse(g.iter) == "kv_pairs" and len(g.ifs) == 1 \
                and not g.is_async:
            c = g.ifs[0]
            if isinstance(c, ast.UnaryOp) and isinstance(c.op, ast.Not) and isinstance(c.operand, ast.Call) \
                    and ast.unparse(c.operand.func) == "k.startswith" and len(c.operand.args) == 1 \
                    and not c.operand.keywords and isinstance(c.operand.args[0], ast.Constant) \
                    and isinstance(c.operand.args[0].value, str):
                drop = c.operand.args[0].value
    if drop is None:
        raise Broken("translator(json): emitted dict_factory is not "
                     "`return {k: v for k, v in kv_pairs if not k.startswith(<literal>)}`", emitted)
    defs.append(f"Definition proxy_prefix : string := {coq_str(prefix)}.")
    defs.append(f"Definition dict_drop_prefix : string := {coq_str(drop)}.")
    for cls, name in (("BlockMessageFieldList", "blocks"), ("BlockMessageField", "render"),
                      ("BlockMessageClass", "before")):
        skel[f"py/renderer.py:{cls}.{name}"] = sha256(skeleton_digest(find_class_func(t_rp, cls, name)))
    p_pf = os.path.join(REPO, "compiler/bitproto/renderer/impls/py/formatter.py")
    t_pf = ast.parse(open(p_pf).read())
    for name in ("format_array_type", "format_default_value_array"):
        skel[f"py/formatter.py:PyFormatter.{name}"] = sha256(skeleton_digest(find_class_func(t_pf, "PyFormatter", name)))
    # bp.py entry points: to_dict pinned; to_json READ (does json.dumps get a `default` hook that
    # turns byte arrays into lists?)
    t_bp = ast.parse(open(os.path.join(REPO, "lib/py/bitprotolib/bp.py")).read())
    skel["json:bp.py:MessageBase.to_dict"] = sha256(skeleton_digest(find_class_func(t_bp, "MessageBase", "to_dict")))
    defs.append(f"Definition dumps_bytes_as_list : bool := {'true' if to_json_hook(t_bp) else 'false'}.")


def to_json_hook(t_bp: ast.AST) -> bool:
    """MessageBase.to_json must be `return json.dumps(self.to_dict(), indent=indent,
    separators=separators[, default=<module-level function>])`.  Returns True when the hook is
        def f(o): if isinstance(o, (bytearray, bytes)): return list(o)
                  raise TypeError(...)
    False when there is no `default`; anything else fails closed."""
    where = "translator(json): bp.py: MessageBase.to_json"
    fn = find_class_func(t_bp, "MessageBase", "to_json")
    if [a.arg for a in fn.args.args] != ["self", "indent", "separators"] or fn.args.vararg or fn.args.kwarg \
            or fn.args.kwonlyargs or [ast.unparse(d) for d in fn.args.defaults] != ["None", "None"] \
            or fn.decorator_list:
        raise Broken(where + ": signature is not (self, indent=None, separators=None)")
    body = [x for x in fn.body if not (isinstance(x, ast.Expr) and isinstance(x.value, ast.Constant))]
    if len(body) != 1 or not isinstance(body[0], ast.Return) or not isinstance(body[0].value, ast.Call):
        raise Broken(where + ": body is not a single `return json.dumps(...)`")
    c = body[0].value
    if ast.unparse(c.func) != "json.dumps" or [ast.unparse(a) for a in c.args] != ["self.to_dict()"]:
        raise Broken(where + ": does not return json.dumps(self.to_dict(), ...)", ast.unparse(c))
    kws = {k.arg: k.value for k in c.keywords}
    if None in kws or len(kws) != len(c.keywords) or ast.unparse(kws.get("indent", ast.Constant(0))) != "indent" \
            or ast.unparse(kws.get("separators", ast.Constant(0))) != "separators" \
            or set(kws) - {"indent", "separators", "default"}:
        raise Broken(where + ": keyword arguments are not indent=indent, separators=separators[, default=f]",
                     ast.unparse(c))
    if "default" not in kws:
        return False
    if not isinstance(kws["default"], ast.Name):
        raise Broken(where + ": `default` is not a module-level function name", ast.unparse(c))
    hooks = [n for n in t_bp.body if isinstance(n, ast.FunctionDef) and n.name == kws["default"].id]
    if len(hooks) != 1:
        raise Broken(where + f": hook {kws['default'].id} is not defined exactly once at module level")
    h = hooks[0]
    hb = [x for x in h.body if not (isinstance(x, ast.Expr) and isinstance(x.value, ast.Constant))]
    ok = (len(h.args.args) == 1 and not h.decorator_list and len(hb) == 2 and isinstance(hb[0], ast.If)
          and not hb[0].orelse and len(hb[0].body) == 1 and isinstance(hb[0].body[0], ast.Return)
          and isinstance(hb[1], ast.Raise) and hb[1].exc is not None)
    if ok:
        a = h.args.args[0].arg
        t = hb[0].test
        exc = hb[1].exc
        ok = (isinstance(t, ast.Call) and ast.unparse(t.func) == "isinstance" and len(t.args) == 2
              and not t.keywords and ast.unparse(t.args[0]) == a and isinstance(t.args[1], ast.Tuple)
              and sorted(ast.unparse(e) for e in t.args[1].elts) == ["bytearray", "bytes"]
              and ast.unparse(hb[0].body[0].value) == f"list({a})"
              and isinstance(exc, ast.Call) and ast.unparse(exc.func) == "TypeError")
    if not ok:
        raise Broken(where + f": hook {h.name} is not `if isinstance(o, (bytearray, bytes)): return list(o)` "
                     "followed by `raise TypeError(...)`", ast.unparse(h)[:400])
    return True


def gen_json() -> Tuple[str, Dict[str, str]]:
    cj = CJson()
    out = ["(* GENERATED by tools/translate_json.py from lib/c/bitproto.{c,h} and the compiler's",
           "   renderers — do not edit *)",
           "From Coq Require Import ZArith List String Bool.",
           "From BP Require Import JsonBase.",
           "Import ListNotations.",
           "Open Scope string_scope.",
           "Open Scope Z_scope.",
           ""]
    for k in ("BOOL", "INT", "UINT", "BYTE", "ENUM", "ALIAS", "ARRAY", "MESSAGE"):
        out.append(f"Definition BP_TYPE_{k} : Z := {cj.flags['BP_TYPE_' + k]}.")
    cj.string_fn()
    cj.message_fn()
    cj.field_fn()
    cj.base_fn()
    cj.alias_fn()
    cj.array_fn()
    compiler_side(cj.defs, cj.skel)
    out += cj.defs
    return "\n".join(out) + "\n", cj.skel


GENERATORS = {"GenJson.v": gen_json}

if __name__ == "__main__":
    text, skel = gen_json()
    print(text)
    for k, v in sorted(skel.items()):
        print(k, v[:16])
