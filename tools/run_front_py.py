"""run_front_py — worker for C12: compile a printed tree with the REAL compiler to Python, find
the message at a dotted path of the root file, generate values (seeded, walking fields in
ASCENDING FIELD NUMBER so that two schemas related by a wire-preserving rewrite get
corresponding values), encode them with the real runtime.

stdin : JSON list of jobs {id, dir, files{name:text}, root, path:[names], seed, nvalues}
stdout: JSON list of {id, tree (declaration order, with numbers), values:[number-keyed], enc:[[bytes]]}
Never trusted: everything is re-checked in Coq against Front.check + Spec.wire."""
import importlib
import json
import os
import random
import signal
import sys
import traceback

sys.path.insert(0, os.path.dirname(os.path.abspath(__file__)))
import run_py  # noqa: E402  (helpers only: compile_files, set_value)


def tree_of(t, A):
    if isinstance(t, A.Bool):
        return ["bool"]
    if isinstance(t, A.Byte):
        return ["byte"]
    if isinstance(t, A.Uint):
        return ["uint", t.cap]
    if isinstance(t, A.Int):
        return ["int", t.cap]
    if isinstance(t, A.Enum):
        return ["enum", t.nbits(), [f.value for f in t.fields()]]
    if isinstance(t, A.Alias):
        return ["alias", tree_of(t.type, A)]
    if isinstance(t, A.Array):
        return ["arr", t.cap, tree_of(t.element_type, A), bool(t.extensible)]
    if isinstance(t, A.Message):
        return ["msg", [[f.number, f.name, tree_of(f.type, A)] for f in t.fields()], bool(t.extensible)]
    raise TypeError(type(t).__name__)


def gen(tree, rng, mode):
    k = tree[0]
    if k == "bool":
        return {"zero": False, "max": True}.get(mode, rng.random() < 0.5)
    if k == "alias":
        return gen(tree[1], rng, mode)
    if k == "arr":
        return [gen(tree[2], rng, mode) for _ in range(tree[1])]
    if k == "msg":
        return {str(n): gen(ft, rng, mode) for n, _nm, ft in sorted(tree[1], key=lambda f: f[0])}
    if k == "enum":
        vals = tree[2]
        if not vals:
            return 0
        return vals[0] if mode == "zero" else (vals[-1] if mode == "max" else vals[rng.randrange(len(vals))])
    if k == "byte":
        lo, hi = 0, 255
    elif k == "uint":
        lo, hi = 0, (1 << tree[1]) - 1
    else:
        lo, hi = -(1 << (tree[1] - 1)), (1 << (tree[1] - 1)) - 1
    if mode == "zero":
        return 0
    if mode == "max":
        return hi
    if mode == "min":
        return lo
    return rng.randint(lo, hi)


def do_job(job):
    from bitproto import _ast as A
    from bitproto.parser import parse
    res = {"id": job["id"]}
    d = job["dir"]
    try:
        signal.alarm(90)
        run_py.compile_files(job)
        proto = parse(os.path.join(d, job["root"]))
    except BaseException as e:  # noqa
        res["compile_error"] = f"{type(e).__name__}: {e}"
        res["trace"] = traceback.format_exc()[-1200:]
        return res
    finally:
        signal.alarm(0)
    m = proto.get_member(*job["path"])
    if not isinstance(m, A.Message):
        res["compile_error"] = f"no message at {job['path']}"
        return res
    tree = tree_of(m, A)
    res["tree"] = tree
    rtree = ["msg", tree[1]]
    sys.path.insert(0, d)
    try:
        for mm in list(sys.modules):
            if mm.endswith("_bp"):
                del sys.modules[mm]
        importlib.invalidate_caches()
        try:
            mod = importlib.import_module(job["root"][:-len(".bitproto")] + "_bp")
            cls = getattr(mod, "_".join(job["path"]))
        except BaseException as e:  # noqa
            res["import_error"] = f"{type(e).__name__}: {e}"
            return res
        res["values"], res["enc"] = [], []
        modes = ["random", "max", "min", "zero", "random", "random"]
        for k in range(job["nvalues"]):
            rng = random.Random(f"{job['seed']}:{k}")
            v = gen(tree, rng, modes[k % len(modes)])
            res["values"].append(v)
            try:
                signal.alarm(30)
                obj = cls()
                run_py.set_value(obj, rtree, v)
                res["enc"].append(list(obj.encode()))
            except BaseException as e:  # noqa
                res["enc"].append({"exc": type(e).__name__, "msg": str(e)[:200]})
            finally:
                signal.alarm(0)
    finally:
        sys.path.remove(d)
    return res


def main():
    jobs = json.load(sys.stdin)
    import bitproto
    import bitprotolib.bp as bp
    repo = os.environ.get("VERIF_REPO", "/repo")
    assert bitproto.__file__.startswith(repo + "/"), bitproto.__file__
    assert bp.__file__.startswith(repo + "/"), bp.__file__
    out = []
    real_stdout = sys.stdout
    sys.stdout = sys.stderr
    for job in jobs:
        try:
            out.append(do_job(job))
        except BaseException as e:  # noqa
            out.append({"id": job.get("id"), "worker_error": f"{type(e).__name__}: {e}"})
    sys.stdout = real_stdout
    json.dump(out, sys.stdout)


if __name__ == "__main__":
    main()
