"""run_c — worker: drives the REAL C runtime (lib/c/bitproto.c of the tree under test) and the
REAL generated C code through ctypes, on raw memory with guard zones.

stdin : JSON list of jobs, stdout: JSON list of results (same length).  Job kinds:

  {"kind": "rt", "lib": <shared object built from bitproto.c>, "cases": [...]}
      direct calls of BpCopyBufferBits / BpEndecodeBaseType / BpEndecodeInt /
      BpHandleIntSignAfterEndecode / BpEndecodeArray on exact-size buffers.

  {"kind": "schema", "dir", "files", "top": ctree, "configs": [...], "cases": [...]}
      compile the schema with the working-tree compiler (C, and optionally Go / Python for the
      size constants), probe struct layout with gcc (offsetof/sizeof), build one shared
      object per configuration, run Encode<Top>/Decode<Top> on raw struct memory.

Nothing reported here is trusted: every observation is re-checked in Coq against the model
(coq/theories/CRt.v) and the specification.
"""
import ctypes
import json
import os
import re
import signal
import subprocess
import sys
import traceback

G = 64                      # guard zone (bytes) on each side of every buffer
GUARD_BYTE = 0xC3


def _alarm(_s, _f):
    raise TimeoutError("implementation did not return within the time limit")


signal.signal(signal.SIGALRM, _alarm)

REPO = os.environ.get("VERIF_REPO", "/repo")


# --------------------------------------------------------------------------------------
# guarded buffers
# --------------------------------------------------------------------------------------

class GBuf:
    """len(content) bytes surrounded by guard zones."""

    def __init__(self, content):
        self.n = len(content)
        self.raw = ctypes.create_string_buffer(G + self.n + G)
        self.fill(content)

    def fill(self, content):
        mv = (ctypes.c_ubyte * (2 * G + self.n)).from_buffer(self.raw)
        for k in range(G):
            mv[k] = GUARD_BYTE
            mv[G + self.n + k] = GUARD_BYTE
        for k, b in enumerate(content):
            mv[G + k] = b & 255

    @property
    def addr(self):
        return ctypes.addressof(self.raw) + G

    def content(self):
        return list(self.raw.raw[G:G + self.n])

    def guards_ok(self):
        r = self.raw.raw
        return all(b == GUARD_BYTE for b in r[:G]) and all(b == GUARD_BYTE for b in r[G + self.n:])


class Ctx(ctypes.Structure):
    _fields_ = [("is_encode", ctypes.c_bool), ("i", ctypes.c_int), ("s", ctypes.c_void_p)]


class BpType(ctypes.Structure):
    _fields_ = [("flag", ctypes.c_int), ("nbits", ctypes.c_int), ("size", ctypes.c_int),
                ("processor", ctypes.c_void_p), ("json_formatter", ctypes.c_void_p),
                ("to_flag", ctypes.c_int)]


class BpArrayDescriptor(ctypes.Structure):
    _fields_ = [("extensible", ctypes.c_bool), ("cap", ctypes.c_int), ("element_type", BpType)]


# --------------------------------------------------------------------------------------
# direct runtime calls
# --------------------------------------------------------------------------------------

def rt_case(lib, c):
    op = c["op"]
    signal.alarm(20)
    try:
        if op == "copy":
            dst, src = GBuf(c["dst"]), GBuf(c["src"])
            lib.BpCopyBufferBits(ctypes.c_int(c["n"]), ctypes.c_void_p(dst.addr + c.get("dp", 0)),
                                 ctypes.c_void_p(src.addr + c.get("sp", 0)),
                                 ctypes.c_int(c["di"]), ctypes.c_int(c["si"]))
            return {"dst": dst.content(), "src_same": src.content() == [b & 255 for b in c["src"]],
                    "guards": dst.guards_ok() and src.guards_ok()}
        s, data = GBuf(c["s"]), GBuf(c["data"])
        ctx = Ctx(bool(c["enc"]), c["i"], s.addr)
        if op == "base":
            lib.BpEndecodeBaseType(ctypes.c_int(c["nbits"]), ctypes.byref(ctx), ctypes.c_void_p(data.addr))
        elif op == "int":
            # definition order in bitproto.c: (size, nbits, ctx, data)
            lib.BpEndecodeInt(ctypes.c_int(c["size"]), ctypes.c_int(c["nbits"]), ctypes.byref(ctx),
                              ctypes.c_void_p(data.addr))
        elif op == "sign":
            lib.BpHandleIntSignAfterEndecode(ctypes.c_int(c["size"]), ctypes.c_int(c["nbits"]),
                                             ctypes.byref(ctx), ctypes.c_void_p(data.addr))
        elif op == "array":
            d = BpArrayDescriptor(bool(c["ext"]), c["cap"],
                                  BpType(c["flag"], c["nbits"], c["size"], None, None, c["to_flag"]))
            lib.BpEndecodeArray(ctypes.byref(d), ctypes.byref(ctx), ctypes.c_void_p(data.addr))
        else:
            return {"error": "unknown op"}
        return {"s": s.content(), "data": data.content(), "i": ctx.i,
                "guards": s.guards_ok() and data.guards_ok()}
    finally:
        signal.alarm(0)


def do_rt(job):
    lib = ctypes.CDLL(job["lib"])
    for fn in ("BpCopyBufferBits", "BpEndecodeBaseType", "BpEndecodeInt", "BpHandleIntSignAfterEndecode",
               "BpEndecodeArray"):
        getattr(lib, fn).restype = None
    return {"results": [rt_case(lib, c) for c in job["cases"]]}


# --------------------------------------------------------------------------------------
# generated code
# --------------------------------------------------------------------------------------

def compile_schema(job, lang, **kw):
    from bitproto.parser import parse
    from bitproto.renderer import render
    d = job["dir"]
    os.makedirs(d, exist_ok=True)
    for name, text in job["files"].items():
        with open(os.path.join(d, name), "w") as f:
            f.write(text)
    outs = []
    for name in job["files"]:
        proto = parse(os.path.join(d, name))
        outs.extend(render(proto, lang, outdir=d, **kw))
    return outs


def msgs_of(t, acc):
    k = t[0]
    if k == "msg":
        if t[1] not in acc:
            acc[t[1]] = t
        for _, _, ft in t[2]:
            msgs_of(ft, acc)
    elif k == "arr":
        msgs_of(t[2], acc)
    elif k == "alias":
        msgs_of(t[1], acc)
    return acc


def layout_source(job, headers):
    """a C file with a table of sizeof/offsetof for every struct of the schema tree; it is compiled
    into every shared object and read back through ctypes (no separate probe process)"""
    d = job["dir"]
    msgs = msgs_of(job["top"], {})
    lines = ["#include <stddef.h>"] + [f'#include "{os.path.basename(h)}"' for h in headers]
    entries = []
    keys = []
    for cname, t in msgs.items():
        entries.append(f"sizeof(struct {cname})")
        keys.append(("S", cname, None))
        for num, fname, ft in t[2]:
            entries.append(f"offsetof(struct {cname}, {fname})")
            keys.append(("O", cname, str(num)))
            entries.append(f"sizeof(((struct {cname} *)0)->{fname})")
            keys.append(("Z", cname, str(num)))
    lines.append("const unsigned long bp_verif_layout[] = {" + ", ".join(entries) + "};")
    src = os.path.join(d, "verif_layout.c")
    with open(src, "w") as f:
        f.write("\n".join(lines) + "\n")
    return src, keys


def read_layout(lib, keys):
    arr = (ctypes.c_ulong * len(keys)).in_dll(lib, "bp_verif_layout")
    lay = {}
    for (k, cname, num), v in zip(keys, arr):
        e = lay.setdefault(cname, {"fields": {}})
        if k == "S":
            e["size"] = int(v)
        elif k == "O":
            e["fields"].setdefault(num, [0, 0])[0] = int(v)
        else:
            e["fields"].setdefault(num, [0, 0])[1] = int(v)
    return lay


def is_flat(t):
    k = t[0]
    if k == "b":
        return True
    if k == "alias":
        return is_flat(t[1])
    if k == "arr":
        return is_flat(t[2])
    return False


def sizeof(t, lay):
    k = t[0]
    if k == "b":
        return t[1]
    if k == "alias":
        return sizeof(t[1], lay)
    if k == "arr":
        return t[1] * sizeof(t[2], lay)
    return lay[t[1]]["size"]


def place(t, off, o, mem, lay, cover):
    """write object tree o (type t) at byte offset off of bytearray mem"""
    k = t[0]
    if is_flat(t):
        bs = o["B"]
        n = sizeof(t, lay)
        if len(bs) != n:
            raise RuntimeError(f"object has {len(bs)} bytes, C type has {n}")
        mem[off:off + n] = bytes(b & 255 for b in bs)
        for j in range(off, off + n):
            cover[j] = 1
        return
    if k == "alias":
        return place(t[1], off, o, mem, lay, cover)
    if k == "arr":
        es = sizeof(t[2], lay)
        for j in range(t[1]):
            place(t[2], off + j * es, o["L"][j], mem, lay, cover)
        return
    L = lay[t[1]]
    for num, fname, ft in t[2]:
        foff, fsz = L["fields"][str(num)]
        if fsz != sizeof(ft, lay):
            raise RuntimeError(f"sizeof mismatch for {t[1]}.{fname}: gcc {fsz}, harness {sizeof(ft, lay)}")
        place(ft, off + foff, o["S"][str(num)], mem, lay, cover)


def read(t, off, mem, lay):
    k = t[0]
    if is_flat(t):
        return {"B": list(mem[off:off + sizeof(t, lay)])}
    if k == "alias":
        return read(t[1], off, mem, lay)
    if k == "arr":
        es = sizeof(t[2], lay)
        return {"L": [read(t[2], off + j * es, mem, lay) for j in range(t[1])]}
    L = lay[t[1]]
    return {"S": {str(num): read(ft, off + L["fields"][str(num)][0], mem, lay) for num, fname, ft in t[2]}}


def build_so(d, name, cc, flags, srcs, single_tu):
    out = os.path.join(d, f"lib_{name}.so")
    inc = ["-I", d, "-I", os.path.join(REPO, "lib/c")]
    if single_tu:
        tu = os.path.join(d, f"tu_{name}.c")
        with open(tu, "w") as f:
            for s in srcs:
                f.write(f'#include "{s}"\n')
        srcs = [tu]
    p = subprocess.run([cc, "-shared", "-fPIC", "-w"] + flags + inc + srcs + ["-o", out],
                       capture_output=True, text=True, timeout=300)
    if p.returncode != 0:
        raise RuntimeError(f"{cc} {' '.join(flags)} failed: " + p.stderr[-1500:])
    return out


def size_constants(d, job):
    """(C macro, Go const, Go Size(), Python BYTES_LENGTH) per message, parsed from emitted text"""
    res = {"c": {}, "go": {}, "go_size": {}, "py": {}}
    for f in os.listdir(d):
        p = os.path.join(d, f)
        if f.endswith("_bp.h"):
            txt = open(p).read()
            for m in re.finditer(r"#define (BYTES_LENGTH_\w+) (\d+)\s*\n\s*\n?struct (\w+) \{", txt):
                res["c"][m.group(3)] = int(m.group(2))
        elif f.endswith("_bp.go"):
            txt = open(p).read()
            for m in re.finditer(r"const (BYTES_LENGTH_\w+) uint32 = (\d+)\s*\n\s*\nfunc \(m \*(\w+)\) Size\(\) uint32 \{ return (\d+) \}", txt):
                res["go"][m.group(3)] = int(m.group(2))
                res["go_size"][m.group(3)] = int(m.group(4))
        elif f.endswith("_bp.py"):
            txt = open(p).read()
            for m in re.finditer(r"class (\w+)\(bp\.MessageBase\):\n(?:.*\n)*?\s+BYTES_LENGTH: ClassVar\[int\] = (\d+)", txt):
                res["py"][m.group(1)] = int(m.group(2))
    return res


def do_schema(job):
    res = {"id": job.get("id")}
    d = job["dir"]
    try:
        signal.alarm(120)
        outs = compile_schema(job, "c")
        if job.get("all_langs"):
            compile_schema(job, "go")
            compile_schema(job, "py")
            res["consts"] = size_constants(d, job)
    except BaseException as e:  # noqa
        res["compile_error"] = f"{type(e).__name__}: {e}"
        res["trace"] = traceback.format_exc()[-1500:]
        return res
    finally:
        signal.alarm(0)
    headers = [o for o in outs if o.endswith(".h")]
    csrcs = [o for o in outs if o.endswith(".c")]
    res["generated"] = {os.path.basename(o): open(o).read() for o in outs}
    lay_src, lay_keys = layout_source(job, headers)
    top = job["top"]
    topname = top[1]
    hdr = open([h for h in headers if os.path.basename(h) == job["main_header"]][0]).read()
    m = re.search(r"#define (BYTES_LENGTH_\w+) (\d+)\s*\n\s*\n?struct " + re.escape(topname) + r" \{", hdr)
    if not m:
        res["probe_error"] = "size macro of the top message not found"
        return res
    blen = int(m.group(2))
    res["bytes_length"] = blen
    res["runs"] = {}
    rt_src = os.path.join(REPO, "lib/c/bitproto.c")
    for cfg in job["configs"]:
        name = cfg["name"]
        try:
            so = build_so(d, name, cfg["cc"], cfg["flags"], csrcs + [rt_src, lay_src], cfg.get("single_tu", False))
            lib = ctypes.CDLL(so)
            lay = read_layout(lib, lay_keys)
            total = lay[topname]["size"]
        except BaseException as e:  # noqa
            res["runs"][name] = {"build_error": str(e)[-1500:]}
            continue
        res.setdefault("layout", lay)
        enc_fn = getattr(lib, "Encode" + topname)
        dec_fn = getattr(lib, "Decode" + topname)
        runs = []
        for case in job["cases"]:
            r = {}
            try:
                signal.alarm(30)
                # ---- encode: struct with the given leaf bytes, padding filled with junk
                mem = bytearray((0x5A + 7 * j) & 255 for j in range(total))
                cover = [0] * total
                place(top, 0, case["obj"], mem, lay, cover)
                sbuf = GBuf(list(mem))
                out = GBuf([0] * blen)
                enc_fn(ctypes.c_void_p(sbuf.addr), ctypes.c_void_p(out.addr))
                r["enc"] = out.content()
                r["enc_guards"] = out.guards_ok() and sbuf.guards_ok()
                r["enc_struct_same"] = sbuf.content() == list(mem)
                # ---- decode: zero-initialised struct, input = given bytes or what was just encoded
                inp = case.get("dec_in") or r["enc"]
                ibuf = GBuf(inp)
                zbuf = GBuf([0] * total)
                dec_fn(ctypes.c_void_p(zbuf.addr), ctypes.c_void_p(ibuf.addr))
                after = zbuf.content()
                r["dec"] = read(top, 0, after, lay)
                r["dec_guards"] = zbuf.guards_ok() and ibuf.guards_ok()
                r["dec_in_same"] = ibuf.content() == [b & 255 for b in inp]
                r["dec_pad_ok"] = all(after[j] == 0 for j in range(total) if not cover[j])
            except BaseException as e:  # noqa
                r["error"] = f"{type(e).__name__}: {e}"
            finally:
                signal.alarm(0)
            runs.append(r)
        res["runs"][name] = {"cases": runs}
    return res


def main():
    jobs = json.load(sys.stdin)
    real_stdout = sys.stdout
    sys.stdout = sys.stderr
    if any(j.get("kind") == "schema" for j in jobs):
        import bitproto
        assert bitproto.__file__.startswith(REPO + "/"), bitproto.__file__
    out = []
    for job in jobs:
        try:
            if job.get("kind") == "rt":
                out.append(do_rt(job))
            else:
                out.append(do_schema(job))
        except BaseException as e:  # noqa
            out.append({"id": job.get("id"), "worker_error": f"{type(e).__name__}: {e}",
                        "trace": traceback.format_exc()[-1500:]})
    sys.stdout = real_stdout
    json.dump(out, sys.stdout)


if __name__ == "__main__":
    main()
