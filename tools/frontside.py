"""frontside — shared harness of the front-end checks (C08, C11, C12): run the real parser / CLI
on printed trees (worker tools/run_front.py) and let Coq compare what it observed with
Front.check on the same tree."""
from __future__ import annotations

import glob
import json
import os
from typing import Any, Dict, List, Optional, Tuple

import front_gen as fg
import pyside
import vlib
from vlib import VERIF, Broken, Check, clist, cz, run_workers

HEADER = """From Coq Require Import ZArith List Bool String.
From BP Require Import Schema Spec FrontBase Front.
Import ListNotations.
Open Scope Z_scope.
"""

ASSUME = [
    "Coq 8.16.1 kernel and its vm_compute (witnesses, boundary examples, correspondence evaluation)",
    "ply's tokenizer and LALR driver are not modelled: the model's input is the syntax tree; the printer "
    "tools/front_gen.py (tree -> text with random trivia) and the real parser relate text and tree, and every "
    "T2 case checks that relation end to end",
    "tools/translate_front.py (T0) reads _ast.py / options.py correctly (validator raise conditions, size "
    "arithmetic, option tables); control structure of push_member/get_member/parser actions/grammar/lexer rules "
    "is hand-modelled in coq/theories/Front.v and pinned by AST digests (coq/ref/skeletons_front.json)",
    "file identity (os.path.samefile) is modelled as equality of canonical file keys; all files of a schema live "
    "in one directory",
    "statements are separated by `;`, a newline, a comment or `}` (one-token lexer look-ahead cannot raise)",
]


def coq_rows(rows: List[Any]) -> str:
    return clist(f"({fg.cstr(q)}, {clist(cz(int(z)) for z in zs)}, {fg.cstr(f)})" for q, zs, f in rows)


def coq_obs(o: Dict[str, Any]) -> str:
    return f"({cz(int(o['code']))}, {fg.cstr(o['file'])}, {cz(int(o['line']))}, {coq_rows(o['rows'])})"


class Case:
    def __init__(self, files: Dict[str, List[Any]], root: str, trad: bool = False, origin: str = "",
                 expect: Optional[Dict[str, Any]] = None, texts: Optional[Dict[str, str]] = None, cli: bool = False,
                 meta: Any = None):
        self.files, self.root, self.trad, self.origin = files, root, trad, origin
        self.expect = expect          # {"code": k, "node": item} from the mutation catalogue, or {"code": 0}
        self.texts = texts
        self.cli = cli
        self.meta = meta

    def to_json(self) -> Dict[str, Any]:
        return {"files": self.files, "root": self.root, "trad": self.trad, "texts": self.texts,
                "origin": self.origin}


def run_front(ck: Check, cases: List[Case], tag: str) -> List[Dict[str, Any]]:
    jobs = []
    for i, c in enumerate(cases):
        jobs.append(dict(id=i, dir=os.path.join(ck.dir, f"{tag}{i}"), files=c.texts, root=c.root, trad=c.trad,
                         cli=c.cli, lang="c" if c.trad else "py"))   # -O exists for C only
    return run_workers("run_front.py", jobs, chunk=max(4, len(jobs) // 32))


def compare_model(ck: Check, cases: List[Case], results: List[Dict[str, Any]], tag: str,
                  per_shard: int = 60) -> List[int]:
    """code per case: 0 = Front.check agrees with the real parser (accept/reject, class, file,
    line, and on acceptance every definition row); 1 = disagreement; -1 = worker error."""
    sh = pyside.Shards(ck, tag, per_shard=per_shard)
    skipped = {}
    for i, (c, r) in enumerate(zip(cases, results)):
        if "obs" not in r:
            skipped[i] = r.get("worker_error", "?")
            continue
        defs = f"Definition fs_{i} : files := {fg.coq_files(c.files)}.\n"
        expr = (f"(if obs_eqb (observe (check fs_{i} {fg.cstr(c.root)} {'true' if c.trad else 'false'})) "
                f"{coq_obs(r['obs'])} then 0 else 1)")
        sh.add(defs, [expr], [i])
    out = sh.run(header=HEADER)
    codes = [-1] * len(cases)
    for i, code in out:
        codes[i] = code
    return codes


def model_obs(ck: Check, c: Case, tag: str) -> str:
    """What the model says about one case (for replay files)."""
    from vlib import coq_eval_file
    path = os.path.join(ck.dir, f"explain_{tag}.v")
    with open(path, "w") as f:
        f.write(HEADER + f"Definition fs : files := {fg.coq_files(c.files)}.\n"
                f"Eval vm_compute in (let o := observe (check fs {fg.cstr(c.root)} {'true' if c.trad else 'false'}) in "
                f"(fst (fst (fst o)), snd (fst (fst o)), snd (fst o))).\n")
    try:
        return coq_eval_file(path, 300).strip()[-400:]
    except Broken as b:
        return "coq failed: " + b.detail[-300:]


def load_corpus(prop: str) -> List[Dict[str, Any]]:
    out = []
    for p in sorted(glob.glob(os.path.join(VERIF, "corpus", prop, "*.json"))):
        j = json.load(open(p))
        j["_path"] = p
        out.append(j)
    return out


def scaled(n: int) -> int:
    """VERIF_FRONT_SCALE (default 1) shrinks the generated streams for experiments on a loaded
    machine; streams are seeded per index, so a smaller run is a prefix of the full one."""
    try:
        f = float(os.environ.get("VERIF_FRONT_SCALE", "1"))
    except ValueError:
        f = 1.0
    return max(1, int(n * f))


def ensure_model_translation() -> Optional[str]:
    """When T0 for the front end fails on the tree under test (fail-closed translator), put the
    last accepted translation (coq/ref/GenFront.v) in place, so that the model the ties run
    against is the reference one and not a stale gen file; the failure itself is reported by
    Check.try_prove."""
    import shutil
    import translate_front
    try:
        translate_front.gen_front()
        return None
    except Broken as b:
        shutil.copy(os.path.join(vlib.COQ, "ref", "GenFront.v"), os.path.join(vlib.COQ, "gen", "GenFront.v"))
        return b.what
