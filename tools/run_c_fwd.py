"""run_c_fwd — worker for C05 (C runtime): generate standard-mode C from an OLDER schema S1,
build it with lib/c/bitproto.c and a tiny driver, decode buffers produced by a NEWER schema
into a zeroed struct and re-encode with S1's encoder.  stdin/stdout: JSON lists."""
import json
import os
import subprocess
import sys

DRIVER = r'''
#include <stdio.h>
#include <string.h>
#include <stdlib.h>
#include "%(hdr)s"
static int hexval(int c) { return c <= '9' ? c - '0' : (c | 32) - 'a' + 10; }
int main(int argc, char **argv) {
  for (int a = 1; a < argc; a++) {
    size_t n = strlen(argv[a]) / 2;
    size_t cap = n + 64 > %(bl)s + 64 ? n + 64 : %(bl)s + 64;
    unsigned char *in = calloc(cap, 1);
    for (size_t i = 0; i < n; i++) in[i] = (unsigned char)(hexval(argv[a][2*i]) * 16 + hexval(argv[a][2*i+1]));
    struct %(top)s m;
    memset(&m, 0, sizeof m);
    Decode%(top)s(&m, in);
    unsigned char out[%(bl)s + 16];
    memset(out, 0, sizeof out);
    Encode%(top)s(&m, out);
    for (size_t i = 0; i < %(bl)s; i++) printf("%%02x", out[i]);
    printf("\n");
    free(in);
  }
  return 0;
}
'''


def run_retry(cmd, timeouts):
    """subprocess.run with escalating time limits (the last one is final and raises)."""
    for k, t in enumerate(timeouts):
        try:
            return subprocess.run(cmd, capture_output=True, text=True, timeout=t)
        except subprocess.TimeoutExpired:
            if k == len(timeouts) - 1:
                raise


def do_job(job):
    from bitproto.parser import parse
    from bitproto.renderer import render
    repo = os.environ.get("VERIF_REPO", "/repo")
    d = job["dir"]
    os.makedirs(d, exist_ok=True)
    res = {"id": job["id"]}
    try:
        for name, text in job["files"].items():
            with open(os.path.join(d, name), "w") as f:
                f.write(text)
        cfiles = []
        for name in job["files"]:
            proto = parse(os.path.join(d, name))
            for p in render(proto, "c", outdir=d):
                if p.endswith(".c"):
                    cfiles.append(p)
    except BaseException as e:  # noqa
        res["compile_error"] = f"{type(e).__name__}: {e}"
        return res
    top = job["top"]
    bl = "BYTES_LENGTH_" + job["top_upper"]
    with open(os.path.join(d, "driver.c"), "w") as f:
        f.write(DRIVER % {"hdr": job["base"] + "_bp.h", "top": top, "bl": bl})
    exe = os.path.join(d, "fwd")
    cmd = ["gcc", "-O1", "-w", "-I", os.path.join(repo, "lib/c"), "-I", d, "-o", exe,
           os.path.join(d, "driver.c"), os.path.join(repo, "lib/c/bitproto.c")] + cfiles
    p = run_retry(cmd, (120, 900))          # a loaded machine must not turn a slow gcc into an alarm
    if p.returncode != 0:
        res["gcc_error"] = p.stderr[-800:]
        return res
    outs = []
    for i in range(0, len(job["bufs"]), 20):
        q = run_retry([exe] + job["bufs"][i:i + 20], (60, 600))
        if q.returncode != 0:
            res["run_error"] = f"rc={q.returncode} {q.stderr[-300:]}"
            return res
        outs.extend(q.stdout.split())
    res["outs"] = outs
    return res


def main():
    jobs = json.load(sys.stdin)
    import bitproto
    repo = os.environ.get("VERIF_REPO", "/repo")
    assert bitproto.__file__.startswith(repo + "/"), bitproto.__file__
    out = []
    real = sys.stdout
    sys.stdout = sys.stderr
    for job in jobs:
        try:
            out.append(do_job(job))
        except BaseException as e:  # noqa
            out.append({"id": job.get("id"), "worker_error": f"{type(e).__name__}: {e}"})
    sys.stdout = real
    json.dump(out, sys.stdout)


if __name__ == "__main__":
    main()
