"""names_gen — schemas for C15: definitions named after the style guide (nesting, imports with and
without alias, with and without `option c.name_prefix`), their .bitproto text, and the Coq term
(`Names.proton`) that carries exactly the names to the model.

Two streams:
  * main: every name lies in the languages of the theorems (letters only);
  * known: names of the style guide's own shape that contain digits / adjacent one-letter words
    (the class of the known finding `digit-names`).
"""
from __future__ import annotations

import random
from dataclasses import dataclass, field
from typing import Any, Dict, List, Optional, Tuple

import keyword

# bitproto's own keywords, plus the reserved words of the three target languages: a field or
# import name equal to one of them yields code the target toolchain rejects, which is C10's
# subject (accepted schemas -> accepted code), not a naming question
KEYWORDS = ({"proto", "import", "option", "type", "const", "enum", "message", "bool", "byte", "true", "false",
             "yes", "no", "uint", "int"}
            | set(keyword.kwlist) | set(keyword.softkwlist)
            | {"break", "case", "chan", "const", "continue", "default", "defer", "else", "fallthrough", "for", "func",
               "go", "goto", "if", "import", "interface", "map", "package", "range", "return", "select", "struct",
               "switch", "type", "var", "len", "cap", "new", "make", "nil", "iota", "string", "error",
               "m", "s", "v", "di", "bp"}
            | {"auto", "char", "do", "double", "extern", "float", "inline", "int", "long", "register", "restrict",
               "short", "signed", "sizeof", "static", "typedef", "union", "unsigned", "void", "volatile", "while",
               "main", "self", "field", "json", "list", "dict", "union", "classvar", "intenum", "unique",
               "dataclass", "bp", "any", "optional", "tuple"})
WORDS = ["zoo", "monkey", "big", "cat", "tail", "len", "wild", "color", "red", "park", "cage", "bar", "count",
         "mood", "kind", "level", "depth", "val", "stamp", "pair", "left", "right", "ok", "bad", "unknown", "item",
         "node", "id", "x", "y", "a", "http", "server", "max", "min", "pen", "ink", "flag", "is", "has", "at", "of"]
BASES = ["bool", "byte", "uint3", "uint7", "uint8", "uint13", "uint32", "int5", "int16", "int64"]


def cq(s: str) -> str:
    return 'Str "' + s.replace('"', '""') + '"'


def clist(xs) -> str:
    return "[" + "; ".join(xs) + "]"


@dataclass
class Proto:
    name: str
    base: str                       # file name is base + ".bitproto"
    prefix: Optional[str]
    decls: List["Def"] = field(default_factory=list)
    imports: List[Tuple[Optional[str], "Proto"]] = field(default_factory=list)


@dataclass
class Def:
    kind: str                       # const | alias | enum | message
    name: str
    proto: Proto
    encl: List[str]
    value: Any = None               # const literal / alias target TRef / enum members
    nested: List["Def"] = field(default_factory=list)
    fields: List[Tuple[str, int, "TRef"]] = field(default_factory=list)


@dataclass
class TRef:
    kind: str                       # base | named | array
    base: str = ""
    target: Optional[Def] = None
    via: Optional[str] = None       # name under which the target's proto is imported (None: same proto)
    elem: Optional["TRef"] = None
    cap: int = 0


class NameGen:
    def __init__(self, rng: random.Random, known: bool):
        self.rng = rng
        self.known = known

    def word(self) -> str:
        r = self.rng
        if r.random() < 0.6:
            return r.choice(WORDS)
        n = r.choice([1, 2, 2, 3, 4, 5, 6])
        return "".join(r.choice("abcdefghijklmnopqrstuvwxyz") for _ in range(n))

    def digitize(self, w: str) -> str:
        r = self.rng
        k = r.randrange(3)
        d = str(r.randrange(10))
        if k == 0:
            return w + d
        if k == 1 and len(w) > 1:
            i = r.randrange(1, len(w))
            return w[:i] + d + w[i:]
        return w + d + r.choice(WORDS)

    def pascal(self) -> str:
        r = self.rng
        ws = [self.word() for _ in range(r.choice([1, 1, 2, 2, 3]))]
        ws = [w if len(w) > 1 else w + r.choice("aeiou") for w in ws]
        if self.known and r.random() < 0.5:
            i = r.randrange(len(ws))
            ws[i] = self.digitize(ws[i])
        return "".join(w[0].upper() + w[1:] for w in ws)

    def snake(self) -> str:
        r = self.rng
        while True:
            ws = [self.word() for _ in range(r.choice([1, 2, 2, 3, 4]))]
            if self.known:
                k = r.random()
                if k < 0.4:
                    i = r.randrange(len(ws))
                    ws[i] = self.digitize(ws[i])
                elif k < 0.8:
                    i = r.randrange(len(ws) + 1)
                    ws[i:i] = [r.choice("abxy"), r.choice("abxy")]
            else:
                if any(len(a) == 1 and len(b) == 1 for a, b in zip(ws, ws[1:])):
                    continue
            s = "_".join(ws)
            if s not in KEYWORDS and not s[0].isdigit():
                return s

    def upper(self) -> str:
        r = self.rng
        ws = [self.word() for _ in range(r.choice([1, 2, 2, 3, 4]))]
        if self.known and r.random() < 0.6:
            i = r.randrange(len(ws))
            ws[i] = self.digitize(ws[i])
        return "_".join(ws).upper()

    def prefix(self) -> Optional[str]:
        r = self.rng
        k = r.random()
        if k < 0.4:
            return None
        ws = [self.word() for _ in range(r.choice([1, 1, 2, 3]))]
        if any(len(a) == 1 and len(b) == 1 for a, b in zip(ws, ws[1:])):
            ws = [w + "q" if len(w) == 1 else w for w in ws]
        if self.known and r.random() < 0.3:
            ws[0] = ws[0] + str(r.randrange(10))
        return "_".join(ws) + "_"


def fresh(gen, used: set) -> str:
    for _ in range(1000):
        n = gen()
        if n not in used and n.lower() not in KEYWORDS:
            used.add(n)
            return n
    raise RuntimeError("name space exhausted")


def prefix_shapes(rng: random.Random, name: str) -> List[str]:
    """Name prefixes that share their leading characters with the Pascal name they will prefix
    (`Link` -> L_, Li_, Link_, LI_, LINK_, li_, Lkni_, My_Li_, Li, Link, ... ): upper-case,
    Capitalised, lower-case and mixed words, ending with and without "_", equal to a prefix of
    the name, equal to the name, containing every letter of the name."""
    k = rng.randrange(1, len(name) + 1)
    head = name[:k]
    rest = list(name[1:])
    rng.shuffle(rest)
    perm = name[0] + "".join(rest).lower()
    other = rng.choice(WORDS)
    shapes = [
        head + "_", name + "_", name[0] + "_",                 # Capitalised, closed
        head.upper() + "_", name.upper() + "_",               # CAPITALS, closed
        head.lower() + "_",                                   # small letters, closed
        perm + "_", perm + rng.choice("bdqz") + "_",          # every letter of the name
        other.capitalize() + "_" + head + "_", other + "_" + name + "_", head.upper() + "_" + other + "_",
        (head if len(head) > 1 else name[:2]), name, other + "_" + name[:2],   # open (no final "_")
        head.lower() if len(head) > 1 else name[:2].lower(),
        name[:2].upper(), name[0],                            # open, ambiguous: model tie only
        other + name[:2] + "_",                               # camelCase word: model tie only
    ]
    return shapes


class SchemaGen:
    def __init__(self, rng: random.Random, known: bool = False, odd_prefix: bool = False,
                 stream: Optional[str] = None):
        self.rng = rng
        known = known or stream == "known"
        self.ng = NameGen(rng, known)
        self.known = known
        self.stream = stream or ("known" if known else "odd-prefix" if odd_prefix else "main")
        self.odd_prefix = self.stream == "odd-prefix"
        self.global_used: set = set()
        self.preferred: List[str] = []       # Pascal names to hand out first (collide stream)

    # ---- structure ------------------------------------------------------------------------
    def proto(self, depth: int, imports: List[Tuple[Optional[str], Proto]], main: bool,
              name: Optional[str] = None, base: Optional[str] = None) -> Proto:
        r = self.rng
        forced = name is not None
        if name is None:
            name = fresh(self.ng.snake if not self.known else NameGen(r, False).snake, self.global_used)
        if base is None:
            base = name
        if main and not forced:
            k = r.random()
            if k < 0.25:
                base = name + "_v2"
            elif k < 0.4:
                base = name + ".schema"
            elif k < 0.5:
                base = "X" + name
        prefix = self.ng.prefix()
        if self.odd_prefix and main:
            prefix = r.choice(["ab", "Ab_", "AB_", "a_b_", "x9_", "my__lib_", "_p_", "Zoo", "q_"])
        p = Proto(name, base, prefix, [], imports)
        used: set = set(a or ip.name for a, ip in imports)
        ndecl = r.randrange(2, 6) if main else r.randrange(2, 4)
        kinds = ["message"] + [r.choice(["const", "alias", "enum", "message", "message"]) for _ in range(ndecl)]
        r.shuffle(kinds)
        if self.stream == "prefix-shapes":
            kinds[kinds.index("message")] = "message!"     # one message with nested definitions 2-3 deep
        for k in kinds:
            p.decls.append(self.decl(p, k, [], used, depth))
        if self.stream == "prefix-shapes":
            host = [d for d in p.decls if d.kind == "message" and d.nested]
            target = r.choice(host) if host else r.choice([d for d in p.decls if d.kind == "message"])
            p.prefix = r.choice(prefix_shapes(r, target.name))
        return p

    def visible_types(self, p: Proto, encl_defs: List[Def]) -> List[Tuple[Def, Optional[str], str]]:
        """(definition, import name, source text of a reference) for every named type that can be
        referenced here: earlier top-level definitions of p (and their nested ones, by dotted
        path), definitions already made inside the enclosing messages, imported definitions."""
        out = []

        def walk(d: Def, path: str, via: Optional[str]):
            if d.kind in ("alias", "enum", "message"):
                out.append((d, via, path))
            for n in d.nested:
                walk(n, path + "." + n.name, via)

        for d in p.decls:
            walk(d, d.name, None)
        for e in encl_defs:
            for n in e.nested:
                walk(n, n.name, None)
        for alias, ip in p.imports:
            nm = alias or ip.name
            for d in ip.decls:
                walk(d, nm + "." + d.name, nm)
        return out

    def single(self, p: Proto, encl_defs: List[Def], as_element: bool) -> Tuple[TRef, str]:
        """A non-array type reference; as an array element it must not be an alias of an array."""
        r = self.rng
        vis = self.visible_types(p, encl_defs)
        if as_element:
            vis = [v for v in vis if not (v[0].kind == "alias" and v[0].value[0].kind == "array")]
        if r.random() < 0.35 or not vis:
            b = r.choice(BASES)
            return TRef("base", base=b), b
        d, via, path = r.choice(vis)
        return TRef("named", target=d, via=via), path

    def tref(self, p: Proto, encl_defs: List[Def], alias_target: bool = False) -> Tuple[TRef, str]:
        r = self.rng
        if alias_target:
            # an alias may only name base types and arrays
            if r.random() < 0.5:
                b = r.choice(BASES)
                return TRef("base", base=b), b
            et, src = self.single(p, encl_defs, as_element=True)
            cap = r.randrange(1, 5)
            return TRef("array", elem=et, cap=cap), f"{src}[{cap}]"
        if r.random() < 0.25:
            et, src = self.single(p, encl_defs, as_element=True)
            cap = r.randrange(1, 5)
            return TRef("array", elem=et, cap=cap), f"{src}[{cap}]"
        return self.single(p, encl_defs, as_element=False)

    def pascal_name(self) -> str:
        if self.preferred:
            return self.preferred.pop(0)
        return self.ng.pascal()

    def decl(self, p: Proto, kind: str, encl_defs: List[Def], used: set, depth: int) -> Def:
        r = self.rng
        encl = [e.name for e in encl_defs]
        if kind == "const":
            d = Def("const", fresh(self.ng.upper, used), p, encl)
            d.value = r.choice(["7", "yes", '"abc"', "0x10"])
            return d
        if kind == "alias":
            d = Def("alias", fresh(self.pascal_name, used), p, encl)
            t, src = self.tref(p, encl_defs, alias_target=True)
            d.value = (t, src)
            return d
        if kind == "enum":
            d = Def("enum", fresh(self.pascal_name, used), p, encl)
            mused = self.global_used      # enum members share the proto-wide C namespace; keep distinct
            d.value = [fresh(self.ng.upper, mused) for _ in range(r.randrange(1, 4))]
            return d
        force = kind == "message!"
        d = Def("message", fresh(self.pascal_name, used), p, encl)
        inner_used: set = set()
        if depth > 0:
            inner = [r.choice(["enum", "message", "message"]) for _ in range(r.choice([0, 0, 1, 1, 2]))]
            if force:
                inner = ["enum", "message!" if depth > 1 else "message"] + inner[:1]
            for k in inner:
                d.nested.append(self.decl(p, k, encl_defs + [d], inner_used, depth - 1))
        fused: set = set()
        nums = r.sample(range(1, 30), r.randrange(1, 5))
        for num in nums:
            t, src = self.tref(p, encl_defs + [d])
            d.fields.append((fresh(self.ng.snake, fused), num, t, src))
        return d

    def colliding_imports(self) -> Tuple[List[Tuple[Optional[str], Proto]], Optional[str]]:
        """2-3 imports whose `as` names, proto names and file base names are drawn from one small
        pool, so that they collide pairwise in every combination the language allows: the keys
        under which the imports are registered (`as` name, else proto name) and the file base
        names must be distinct, everything else may coincide (an `as` name equal to another
        file's proto name or base name, two files declaring the same proto name, a proto name
        equal to another file's base name, the main proto named like one of them).  The imported
        protos define types of the same names."""
        r = self.rng
        clean = NameGen(r, False)
        pool = []
        while len(pool) < 3:
            w = clean.snake()
            if w not in pool and w not in KEYWORDS:
                pool.append(w)
        n = r.choice([2, 2, 3])
        consistent = r.random() < 0.5      # every file declares the proto its base name says
        for _ in range(200):
            if consistent:
                bases = r.sample(pool, n)
                names = list(bases)
            else:
                bases = r.sample(pool + [pool[0] + "_x", pool[1] + "_x"], n)
                names = [r.choice(pool) for _ in range(n)]
            aliases = [r.choice(pool + ["bb", None, None]) for _ in range(n)]
            keys = [a or nm for a, nm in zip(aliases, names)]
            if len(set(keys)) < n:
                continue
            cross = 0
            for i in range(n):
                for j in range(n):
                    if i != j:
                        cross += (aliases[i] is not None and aliases[i] in (names[j], bases[j]))
                        cross += (names[i] == bases[j]) + (i < j and names[i] == names[j])
            if cross >= 1 and any(a is not None for a in aliases):
                break
        else:
            raise RuntimeError("no colliding import assignment found")
        imports: List[Tuple[Optional[str], Proto]] = []
        shared: List[str] = []
        for i in range(n):
            self.preferred = list(shared)
            ip = self.proto(1, [], main=False, name=names[i], base=bases[i])
            self.preferred = []
            if not shared:
                shared = [d.name for d in ip.decls if d.kind in ("alias", "enum", "message")]
            imports.append((aliases[i], ip))
        main_name = r.choice(pool + [None, None, None])
        if main_name in [b for b in bases]:
            main_name = None          # the main file needs its own base name
        return imports, main_name

    def schema(self) -> "Schema":
        r = self.rng
        if self.stream == "collide":
            imports, main_name = self.colliding_imports()
            main = self.proto(2, imports, main=True, name=main_name,
                              base=(main_name + "_main") if main_name else None)
            # make sure every import is referred to
            used = set(d.name for d in main.decls)
            host = Def("message", fresh(self.ng.pascal, used), main, [])
            num = 1
            for alias, ip in imports:
                key = alias or ip.name
                for d in ip.decls:
                    if d.kind in ("alias", "enum", "message"):
                        host.fields.append((fresh(self.ng.snake, set(f[0] for f in host.fields)), num,
                                            TRef("named", target=d, via=key), f"{key}.{d.name}"))
                        num += 1
            if host.fields:
                main.decls.append(host)
            return Schema(main)
        imports: List[Tuple[Optional[str], Proto]] = []
        for _ in range(r.choice([0, 1, 1, 2])):
            ip = self.proto(1, [], main=False)
            alias = None
            if r.random() < 0.6:
                alias = fresh(NameGen(r, False).snake, self.global_used)
            imports.append((alias, ip))
        main = self.proto(2, imports, main=True)
        return Schema(main)


class Schema:
    def __init__(self, main: Proto):
        self.main = main

    # ---- .bitproto text ----------------------------------------------------------------------
    def proto_text(self, p: Proto) -> str:
        out = [f"proto {p.name}", ""]
        for alias, ip in p.imports:
            out.append(f'import {alias + " " if alias else ""}"{ip.base}.bitproto"')
        if p.prefix is not None:
            out.append(f'option c.name_prefix = "{p.prefix}"')
        out.append("")
        for d in p.decls:
            out.extend(self.def_text(d, 0))
            out.append("")
        return "\n".join(out)

    def def_text(self, d: Def, ind: int) -> List[str]:
        sp = " " * ind
        if d.kind == "const":
            return [f"{sp}const {d.name} = {d.value}"]
        if d.kind == "alias":
            return [f"{sp}type {d.name} = {d.value[1]}"]
        if d.kind == "enum":
            out = [f"{sp}enum {d.name} : uint8 {{"]
            for i, m in enumerate(d.value):
                out.append(f"{sp}    {m} = {i}")
            return out + [f"{sp}}}"]
        out = [f"{sp}message {d.name} {{"]
        for n in d.nested:
            out.extend(self.def_text(n, ind + 4))
        for name, num, t, src in d.fields:
            out.append(f"{sp}    {src} {name} = {num}")
        return out + [f"{sp}}}"]

    def files(self) -> Dict[str, str]:
        out = {self.main.base + ".bitproto": self.proto_text(self.main)}
        for _, ip in self.main.imports:
            out[ip.base + ".bitproto"] = self.proto_text(ip)
        return out

    # ---- Coq term ------------------------------------------------------------------------------
    def coq_tref(self, t: TRef) -> str:
        if t.kind == "base":
            return "TBase"
        if t.kind == "array":
            return f"(TArray {self.coq_tref(t.elem)})"
        d = t.target
        k = {"alias": "KAlias", "enum": "KEnum", "message": "KMessage"}[d.kind]
        imp = f"(Some ({cq(t.via)}))" if t.via is not None else "None"
        return (f"(TNamed {k} ({cq(d.proto.prefix or '')}) {clist('(' + cq(e) + ')' for e in d.encl)} "
                f"({cq(d.name)}) {imp})")

    def coq_decl(self, d: Def) -> str:
        if d.kind == "const":
            return f"(DConst ({cq(d.name)}))"
        if d.kind == "alias":
            return f"(DAlias ({cq(d.name)}) {self.coq_tref(d.value[0])})"
        if d.kind == "enum":
            return f"(DEnum ({cq(d.name)}) {clist('(' + cq(m) + ')' for m in d.value)})"
        fs = clist(f"{{| f_name := {cq(n)}; f_number := {num}%N; f_type := {self.coq_tref(t)} |}}"
                   for n, num, t, _ in d.fields)
        return f"(DMessage ({cq(d.name)}) {clist(self.coq_decl(n) for n in d.nested)} {fs})"

    def coq_proton(self) -> str:
        p = self.main
        return f"{{| p_prefix := {cq(p.prefix or '')}; p_decls := {clist(self.coq_decl(d) for d in p.decls)} |}}"

    def py_importable(self) -> bool:
        """False when the main proto refers to a type NESTED in a message of an imported proto: the
        Python back end writes such a reference unqualified (defect py-nested-import of C10), so
        the generated module cannot be imported."""
        bad = [False]

        def chk(t: TRef):
            while t.kind == "array":
                t = t.elem
            if t.kind == "named" and t.via is not None and t.target.encl:
                bad[0] = True

        def walk(d: Def):
            if d.kind == "alias":
                chk(d.value[0])
            for n in d.nested:
                walk(n)
            for f in d.fields:
                chk(f[2])

        for d in self.main.decls:
            walk(d)
        # the import statements name the module after the PROTO name, the file after its base
        # name (defect import-filename of C10)
        if any(ip.name != ip.base for _, ip in self.main.imports):
            return False
        return not bad[0]

    def all_names(self) -> List[Tuple[str, str]]:
        out = []

        def walk(d: Def):
            out.append((d.kind, d.name))
            if d.kind == "enum":
                out.extend(("member", m) for m in d.value)
            for n in d.nested:
                walk(n)
            for f in d.fields:
                out.append(("field", f[0]))

        for d in self.main.decls:
            walk(d)
        return out

    def stats(self) -> Dict[str, int]:
        depth = [0]
        cnt = {"const": 0, "alias": 0, "enum": 0, "message": 0, "member": 0, "field": 0, "imported_refs": 0,
               "nested_defs": 0}

        def walk(d: Def, lvl: int):
            cnt[d.kind] += 1
            if lvl > 0:
                cnt["nested_defs"] += 1
            depth[0] = max(depth[0], lvl)
            if d.kind == "enum":
                cnt["member"] += len(d.value)
            for n in d.nested:
                walk(n, lvl + 1)
            for f in d.fields:
                cnt["field"] += 1
                t = f[2]
                while t.kind == "array":
                    t = t.elem
                if t.kind == "named" and t.via is not None:
                    cnt["imported_refs"] += 1

        for d in self.main.decls:
            walk(d, 0)
        cnt["max_depth"] = depth[0]
        cnt["imports"] = len(self.main.imports)
        cnt["prefix"] = 1 if self.main.prefix else 0
        return cnt


def to_json(s: Schema) -> Dict[str, Any]:
    return {"files": s.files(), "main": s.main.base + ".bitproto", "proton": s.coq_proton(),
            "basename": s.main.base + ".bitproto", "stem": s.main.base, "py_importable": s.py_importable()}
