"""lrstage — the LR stage of C08 / C09: the parser (token list -> reductions) inside the model.

  lr_stage(ck, prop_file, sizes_quick, sizes_thorough, label)
     1. try_prove(prop_file): regenerates gen/GenLR.v from /repo (grammar from the docstrings,
        tables from ply), re-runs the validator and the ranking check by vm_compute
        (LRConcrete.tables_valid / ranking_valid) and builds the theorems.
     2. T2: the REAL ply parser built from /repo's Parser (worker tools/run_lr.py) against the
        model (tie) and against the documented grammar (property), on
          a  texts of generated valid schemas              (expected: accepted)
          b  token-level mutations of accepted sequences   (index and type of the offending token)
          c  sentences derived from the documented grammar (expected: accepted) + injected errors
          d  boundary catalogue with documented outcomes
          t  canonical prints of generated trees: LRFront.tokens_of / reds_of (completeness)
        An independent Earley recogniser of the documented CFG decides "documented" for every
        case: accepted <=> derivable.
     3. coverage / assumptions.
"""
from __future__ import annotations

import copy
import json
import os
import random
from typing import Any, Dict, List, Optional, Tuple

import front_gen as fg
import lr_gen
import translate_lr
import vlib
from vlib import Broken, Check, clist

HEADER = """From Coq Require Import List Arith NArith.
From BP Require Import LR LRConcrete LRCase.
From BPGen Require Import GenLR.
Import ListNotations.
Open Scope N_scope.
"""
HEADER_T = """From Coq Require Import ZArith NArith List Bool String Arith.
From BP Require Import Schema FrontBase Front LR LRConcrete LRCase LRFront.
From BPGen Require Import GenLR.
Import ListNotations.
Open Scope Z_scope.
"""

ASSUME = [
    "Coq 8.16.1 kernel and vm_compute (validator, ranking check, per-case evaluation)",
    "ply 3.11's LRParser.parseopt_notrack is modelled by hand in coq/theories/LR.v (state stack, lazy "
    "lookahead, defaulted states, $end, accept, no error recovery because p_error raises); its source and the "
    "yacc.yacc arguments / parse_string / p_error of parser.py are pinned by digests (coq/ref/skeletons_lr.json) "
    "and every T2 case compares outcome, offending token index and type, and the full reduction sequence",
    "ply's table CONSTRUCTION is not modelled and not trusted: the tables are dumped at run time and re-validated "
    "in Coq on every run (LR.validate: incoming symbols, known stack suffixes, goto defined, accept condition; "
    "LR.validate_rank: reductions between two shifts are bounded)",
    "the lexer is not part of this stage: the model's input is the sequence of token TYPES; texts go through "
    "the real lexer of /repo in the worker",
    "semantic actions are replaced by recorders in the worker for the syntax-level comparison (same LRParser "
    "object, same tables, same loop); a second run with the real actions checks that the recorded sequence is "
    "the same up to the first action error",
]


QUICK = {"valid": 24, "sentences": 120, "mutations": 400}
THOROUGH = {"valid": 300, "sentences": 1500, "mutations": 6000}
QUICK_C09 = {"valid": 8, "sentences": 150, "mutations": 500}
THOROUGH_C09 = {"valid": 60, "sentences": 3000, "mutations": 12000}


def _raw(r: Dict[str, Any]) -> List[str]:
    """token types of the text as written; when the lexer failed the comparison is on the lexed prefix"""
    return r["types"] if r.get("lexerr") else r.get("raw", r["types"])


def _ends(r: Dict[str, Any]) -> bool:
    return True if r.get("lexerr") else bool(r.get("ends_nl", True))


def _coq_obs(syn: Dict[str, Any], tid: Dict[str, int], ntypes: int) -> Optional[str]:
    if syn["out"] == "accept":
        return f"(0, 0, 0, {clist(str(x) for x in syn['reds'])})"
    if syn["out"] == "syntax":
        tok = 0 if syn["tok"] == "$end" else tid[syn["tok"]]
        return f"(1, {syn['idx']}, {tok}, {clist(str(x) for x in syn['reds'])})"
    return f"(2, 0, 0, {clist(str(x) for x in syn.get('reds', []))})"


def lr_stage(ck: Check, prop_file: str, sizes_quick: Dict[str, int], sizes_thorough: Dict[str, int],
             label: str) -> None:
    import time
    t_start = time.time()
    ck.try_prove(prop_file, model_vo=("theories/LRFront.vo", "theories/LRCase.vo"))
    t_proved = time.time()
    for a in ASSUME:
        if a not in ck.assumptions:
            ck.assumptions.append(a)
    sz = sizes_quick if ck.quick else sizes_thorough
    rng = random.Random(f"{label}:{ck.seed}")
    try:
        G = translate_lr.read_grammar()
    except Broken as b:
        ck.broken(b)
        return
    terms: List[str] = G["terms"]
    tid = {t: i for i, t in enumerate(terms)}
    vocab = [t for t in terms if t not in ("$end", "error")]
    prods = [(p["name"], p["rhs"]) for p in G["prods"]]
    earley = lr_gen.Earley(prods[1:], G["start"], terms)
    dist: Dict[str, int] = {}

    # ---------------- cases ----------------
    cases: List[Dict[str, Any]] = []       # {kind, name, job, expect}
    trees: List[Dict[str, Any]] = []       # {name, items, job}

    def add_tree(name: str, items: List[Any]) -> None:
        its = copy.deepcopy(items)
        text = fg.render({"f": its}, random.Random(0), fg.PLAIN)["f"]
        trees.append({"name": name, "items": its, "job": {"mode": "text", "text": text, "real": False}})

    for i in range(sz["valid"]):
        files, _ = fg.gen_valid(rng, fg.Params(max_depth=rng.choice([1, 2, 3])))
        noisy = fg.render(copy.deepcopy(files), rng, fg.Trivia())
        for k, text in noisy.items():
            imports = any(it[0] == "import" for it, *_ in fg.walk_items(files[k]))
            cases.append({"kind": "valid", "name": f"valid#{i}:{k}", "expect": "accept",
                          "job": {"mode": "text", "text": text, "real": not imports}})
        for k, items in files.items():
            add_tree(f"tree#{i}:{k}", items)
    for j, e in enumerate(lr_gen.expr_trees()):
        add_tree(f"expr#{j}", lr_gen.expr_file(e))
    for j, f in enumerate(lr_gen.const_ref_files()):
        add_tree(f"constref#{j}", f)
        cases.append({"kind": "valid", "name": f"constref#{j}", "expect": "accept",
                      "job": {"mode": "text", "text": lr_gen.plain_text(f), "real": True}})
    for j, f in enumerate(lr_gen.misc_files()):
        add_tree(f"misc#{j}", f)
    for d in (1, 5, 30):
        add_tree(f"nest{d}", lr_gen.nest_file(d))
    for name, text, exp in lr_gen.catalogue():
        cases.append({"kind": "catalogue", "name": name, "expect": exp,
                      "job": {"mode": "text", "text": text, "real": False}})
    for i in range(sz["sentences"]):
        s = lr_gen.sentence(rng, G, depth=rng.choice([6, 10, 14]), budget=rng.choice([20, 60, 150]))
        cases.append({"kind": "sentence", "name": f"sentence#{i}", "expect": "accept",
                      "job": {"mode": "types", "types": s}})
        m, how = lr_gen.mutate_types(rng, s, vocab)
        cases.append({"kind": "sentence-mut", "name": f"sentence#{i}/{how}", "expect": None,
                      "job": {"mode": "types", "types": m}})

    res = vlib.run_workers("run_lr.py", [c["job"] for c in cases] + [t["job"] for t in trees], chunk=40, timeout=300)
    res_c, res_t = res[:len(cases)], res[len(cases):]

    # mutations of the accepted token sequences (second round)
    base = [r["types"] for c, r in zip(cases, res_c)
            if "worker_error" not in r and c["kind"] == "valid" and r["syn"]["out"] == "accept"]
    muts: List[Dict[str, Any]] = []
    for i in range(sz["mutations"]):
        if not base:
            break
        b = rng.choice(base)
        m, how = lr_gen.mutate_types(rng, b, vocab)
        muts.append({"kind": "mutation", "name": f"mutation#{i}/{how}", "expect": None,
                     "job": {"mode": "types", "types": m}})
    res_m = vlib.run_workers("run_lr.py", [c["job"] for c in muts], chunk=60, timeout=300)
    cases += muts
    res_c += res_m

    # ---------------- Coq evaluation ----------------
    rows: List[Tuple[Dict[str, Any], Dict[str, Any]]] = []
    for c, r in zip(cases, res_c):
        if "worker_error" in r:
            ck.broken(Broken(f"{label}: worker failed on {c['name']}", r["worker_error"]))
            continue
        rows.append((c, r))
    files = []
    shard = 300
    for si in range(0, len(rows), shard):
        part = rows[si:si + shard]
        body = ";\n".join(
            f"  ({clist(str(tid[t]) for t in _raw(r))}, {'true' if _ends(r) else 'false'}, "
            f"{clist(str(tid[t]) for t in r['types'])}, {_coq_obs(r['syn'], tid, len(r['types']))})" for c, r in part)
        path = os.path.join(ck.dir, f"lr_{label}_{si // shard}.v")
        with open(path, "w") as f:
            f.write(HEADER + "Definition cases : list (list N * bool * list N * obsN) := [\n" + body + "\n].\n"
                    "Eval vm_compute in map text_case_code_N cases.\n")
        files.append((path, part))
    trows = [(t, r) for t, r in zip(trees, res_t) if "worker_error" not in r]
    for t, r in zip(trees, res_t):
        if "worker_error" in r:
            ck.broken(Broken(f"{label}: worker failed on {t['name']}", r["worker_error"]))
    tfiles = []
    tshard = 60
    for si in range(0, len(trows), tshard):
        part = trows[si:si + tshard]
        body = ";\n".join(
            f"  ({clist(fg.coq_item(i) for i in t['items'])}, ({clist(str(tid[x]) for x in r['types'])}%N, "
            f"{_coq_obs(r['syn'], tid, len(r['types']))}%N))" for t, r in part)
        path = os.path.join(ck.dir, f"lrtree_{label}_{si // tshard}.v")
        with open(path, "w") as f:
            f.write(HEADER_T + "Definition cases : list (list item * (list N * obsN)) := [\n" + body + "\n].\n"
                    "Eval vm_compute in map tree_code_N cases.\n")
        tfiles.append((path, part))
    outs: Dict[str, str] = {}
    if ck.model_ok:
        try:
            outs = vlib.coq_eval_many([p for p, _ in files] + [p for p, _ in tfiles], timeout=600)
        except Broken as b:
            ck.broken(b)
    n_eval = 0
    nontrivial = set()
    samples: List[str] = []

    def replay(c, r, extra=None):
        d = {"stage": label, "case": c["name"], "kind": c.get("kind", "tree"), "input": c["job"],
             "token_types": r.get("types"), "implementation": r.get("syn"), "expected": c.get("expect")}
        if extra:
            d.update(extra)
        return d

    for path, part in files:
        if path not in outs:
            continue
        codes = vlib.parse_zlist(outs[path], path)
        if len(codes) != len(part):
            ck.broken(Broken(f"{label}: {os.path.basename(path)} printed {len(codes)} codes for {len(part)} cases"))
            continue
        for (c, r), code in zip(part, codes):
            n_eval += 1
            syn = r["syn"]
            key = syn["out"] if syn["out"] != "syntax" else "syntax error"
            dist[f"{c['kind']}: {key}"] = dist.get(f"{c['kind']}: {key}", 0) + 1
            nontrivial.add((syn["out"], tuple(syn.get("reds", []))[-6:], syn.get("tok")))
            if syn["out"] == "syntax":
                k = syn["idx"]
                b = ("at end of input" if syn["tok"] == "$end" else "token 0" if k == 0 else "token 1-4" if k < 5
                     else "token 5-19" if k < 20 else "token 20-99" if k < 100 else "token 100+")
                dist[f"syntax error position: {b}"] = dist.get(f"syntax error position: {b}", 0) + 1
            if len(samples) < 6 and c["kind"] in ("mutation", "catalogue"):
                samples.append(f"{c['name']}: {syn['out']}" + (f" at token {syn['idx']} ({syn['tok']})" if syn["out"] == "syntax" else f" with {len(syn['reds'])} reductions"))
            if syn["out"] == "crash":
                ck.violation(f"{label}: the LR driver raised {syn.get('exc')} (not a GrammarError) on a token sequence",
                             replay(c, r), found_input=True)
            if code & 2:
                ck.violation(f"{label}: accepted, but the p_ functions called are not a derivation of the input in the "
                             f"documented grammar", replay(c, r), found_input=True)
            if code & 1:
                ck.broken(Broken(f"{label}: model LR.parse and the real ply parser differ on {c['name']}",
                                 json.dumps(replay(c, r))[:1500]))
            if code & 4:
                ck.broken(Broken(f"{label}: the model crashed / ran out of fuel on {c['name']}"))
            if code & 8:
                ck.broken(Broken(f"{label}: the tokens ply fetched inside Parser.parse_string differ from the model of its "
                                 f"text normalisation (LRConcrete.text_tokens) on {c['name']}",
                                 json.dumps(replay(c, r, {"raw": r.get("raw"), "ends_nl": r.get("ends_nl")}))[:1500]))
            documented = earley.accepts(r["types"])
            accepted = syn["out"] == "accept"
            if accepted != documented:
                ck.violation(f"{label}: " + ("accepted but NOT derivable in the documented grammar" if accepted else
                                             "derivable in the documented grammar but REJECTED (syntax error)"),
                             replay(c, r, {"earley": documented}), found_input=True)
            if c["expect"] is not None and r.get("lexerr") is None and (c["expect"] == "accept") != accepted:
                ck.violation(f"{label}: {c['name']}: the documentation promises `{c['expect']}` at the syntax level, "
                             f"the parser says {syn['out']}", replay(c, r), found_input=True)
            if c["expect"] is not None and r.get("lexerr") is not None:
                ck.violation(f"{label}: {c['name']}: lexer error {r['lexerr']} on a catalogue / valid text",
                             replay(c, r), found_input=True)
            real = r.get("real")
            if real is not None:
                dist[f"real actions: {real['out']}"] = dist.get(f"real actions: {real['out']}", 0) + 1
                rr, sr = real["reds"], syn["reds"]
                if real["out"] in ("ok", "grammar"):
                    same = rr == sr and (real["out"] == "ok") == accepted
                else:
                    same = rr == sr[:len(rr)]
                if not same:
                    ck.broken(Broken(f"{label}: production sequence with the real actions differs from the recording "
                                     f"run on {c['name']}", json.dumps({"real": real, "syn": syn})[:1500]))
                if c["expect"] == "accept" and real["out"] != "ok":
                    ck.violation(f"{label}: a generated VALID schema is not accepted by the real parser "
                                 f"({real['out']}: {real.get('exc')})", replay(c, r, {"real": real}), found_input=True)
    for path, part in tfiles:
        if path not in outs:
            continue
        codes = vlib.parse_zlist(outs[path], path)
        if len(codes) != len(part):
            ck.broken(Broken(f"{label}: {os.path.basename(path)} printed {len(codes)} codes for {len(part)} cases"))
            continue
        for (t, r), code in zip(part, codes):
            n_eval += 1
            dist["tree: " + ("predicted" if code == 0 else f"code {code}")] = dist.get("tree: " + ("predicted" if code == 0 else f"code {code}"), 0) + 1
            nontrivial.add(("tree", tuple(r["syn"].get("reds", []))[-8:]))
            if code & 4:
                ck.violation(f"{label}: the parser does not build the documented tree: productions reduced on the canonical "
                             f"print of a generated syntax tree differ from LRFront.reds_of ({t['name']})",
                             replay(t, r), found_input=True)
            if code & 2:
                ck.broken(Broken(f"{label}: completeness fails in the model: LR.parse (tokens_of t) <> Accept (reds_of t) "
                                 f"for {t['name']}", json.dumps(replay(t, r))[:1500]))
            if code & 1:
                ck.broken(Broken(f"{label}: LRFront.tokens_of differs from the real lexer on the canonical print of "
                                 f"{t['name']}", json.dumps(replay(t, r))[:1500]))
    cov = ck.coverage
    cov["evaluations"] += n_eval
    cov["distinct_nontrivial"] += len(nontrivial)
    cov["rule"] = (cov.get("rule") or "") + (" | " if cov.get("rule") else "") + \
        f"{label}: distinct (outcome, last reductions, offending token type) per case"
    cov["samples"] = (cov.get("samples") or []) + samples
    cov["tie"][f"{label}"] = {"cases": len(rows), "trees": len(trows), "productions": len(prods),
                               "terminals": len(terms),
                               "timing_s": {"prove": round(t_proved - t_start, 1),
                                            "t2": round(time.time() - t_proved, 1)}}
    cov["distribution"][label] = dict(sorted(dist.items()))
