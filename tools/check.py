"""check.py — entry point: /verif/check <ID> [--tier quick|thorough] [--replay file]."""
import argparse
import importlib
import json
import os
import sys
import traceback

sys.path.insert(0, os.path.dirname(os.path.abspath(__file__)))
sys.path.insert(0, os.path.join(os.path.dirname(os.path.abspath(__file__)), "props"))

import vlib  # noqa: E402


def main() -> int:
    ap = argparse.ArgumentParser()
    ap.add_argument("prop")
    ap.add_argument("--tier", default=os.environ.get("VERIF_TIER", "quick"), choices=["quick", "thorough"])
    ap.add_argument("--replay", default=None)
    args = ap.parse_args()
    seed = int(os.environ.get("VERIF_SEED", "1") or "1")
    prop = args.prop.upper()
    mod = importlib.import_module(prop.lower())
    ck = vlib.Check(prop, args.tier, seed, level=getattr(mod, "LEVEL", "proof"))
    ck.replay_file = args.replay
    try:
        vlib.assert_env()
        mod.run(ck)
    except vlib.Broken as b:
        ck.broken(b)
    except Exception:
        ck.broken(vlib.Broken("internal error of the checker", traceback.format_exc()[-3000:]))
    return ck.finish()


if __name__ == "__main__":
    sys.exit(main())
