"""translate_cli — tie T0 for C17 / C20: regenerate coq/gen/GenCli.v from the CURRENT source of

  compiler/bitproto/_main.py      main() -> `decide` (decision tree), fatal() default code,
                                  argparse specification, run_bitproto plumbing (digest)
  compiler/bitproto/parser.py     traditional-mode plumbing (root parser, child parsers, the
                                  extensible-flag action), _get_col, current_indent, initial
                                  last_newline_pos; position-recording actions (digests)
  compiler/bitproto/lexer.py      every token rule with its regex, whether it can match a
                                  newline (structural analysis of the regex), which rules write
                                  `lineno`
  compiler/bitproto/linter.py     SUPPORTED_TYPES, rule order, every rule recognised by shape,
                                  the indent expression
  compiler/bitproto/utils.py      the regex constants of snake_case; pascal_case / snake_case
                                  bodies are hand-modelled in Lint.v and pinned by digest + T2
  compiler/bitproto/errors.py     message format (digests)
  compiler/bitproto/renderer/...  registry, support_optimization per renderer, the
                                  optimization-mode check, block lists, every dispatcher of the
                                  optimization-mode block lists, the Go per-message block list,
                                  and the complete set of places that read the -F filter

Fail-closed: every unrecognised shape raises vlib.Broken.
"""
from __future__ import annotations

import ast
import copy
import os
import re
from typing import Callable, Dict, List, Optional, Sequence, Tuple

from translate import Tr, find_func, skeleton_digest, strip_doc
from vlib import REPO, Broken

CB = "compiler/bitproto"


def _parse(rel: str) -> ast.Module:
    path = os.path.join(REPO, rel)
    try:
        return ast.parse(open(path).read())
    except (OSError, SyntaxError) as e:
        raise Broken(f"translator(cli): cannot read {rel}", str(e))


def _class(tree: ast.AST, name: str) -> ast.ClassDef:
    for n in tree.body:  # type: ignore
        if isinstance(n, ast.ClassDef) and n.name == name:
            return n
    raise Broken(f"translator(cli): class {name} not found")


def _method(cls: ast.ClassDef, name: str) -> Optional[ast.FunctionDef]:
    for n in cls.body:
        if isinstance(n, ast.FunctionDef) and n.name == name:
            return n
    return None


def cstr(s: str) -> str:
    """Coq string literal."""
    for ch in s:
        if ord(ch) < 32 or ord(ch) > 126:
            raise Broken("translator(cli): non-printable character in a string constant", repr(s))
    return '"' + s.replace('"', '""') + '"'


def clist(items: Sequence[str]) -> str:
    return "[" + "; ".join(items) + "]"


def fail(where: str, node: ast.AST, why: str = "") -> None:
    raise Broken(f"translator(cli): {where}: unsupported construct {why}",
                 (ast.unparse(node) if isinstance(node, ast.AST) else str(node))[:400])


class Subst(ast.NodeTransformer):
    def __init__(self, env: Dict[str, ast.expr]):
        self.env = env

    def visit_Name(self, node: ast.Name):
        if isinstance(node.ctx, ast.Load) and node.id in self.env:
            return copy.deepcopy(self.env[node.id])
        return node


def subst(e: ast.expr, env: Dict[str, ast.expr]) -> ast.expr:
    return Subst(env).visit(copy.deepcopy(e))


# --------------------------------------------------------------------------------------
# A. _main.main()  ->  decide
# --------------------------------------------------------------------------------------

MAIN_PARAMS = ["filepath", "lang", "outdir", "disable_linter", "check", "enable_optimize",
               "filter_messages", "endian"]
MAIN_DEFAULTS = ["''", "''", "False", "False", "False", "None", "'both'"]


class MainTr:
    BOOLS = {"disable_linter": "(disable_linter a)", "check": "(check a)",
             "enable_optimize": "(enable_optimize a)"}
    TRUTHY = {"lang": "(truthy_opt (lang_ a))", "filter_messages": "(truthy_list (filter_messages a))"}

    def __init__(self, fatal_default_code: int):
        self.fatal_default_code = fatal_default_code

    def cond(self, e: ast.expr, env: Dict[str, Tuple[str, str]]) -> str:
        if isinstance(e, ast.Name):
            if e.id in env and env[e.id][0] == "bool":
                return env[e.id][1]
            if e.id in self.BOOLS:
                return self.BOOLS[e.id]
            if e.id in self.TRUTHY:
                return self.TRUTHY[e.id]
            fail("main", e, "(name in boolean position)")
        if isinstance(e, ast.UnaryOp) and isinstance(e.op, ast.Not):
            return f"(negb {self.cond(e.operand, env)})"
        if isinstance(e, ast.BoolOp):
            op = " && " if isinstance(e.op, ast.And) else " || "
            return "(" + op.join(self.cond(v, env) for v in e.values) + ")"
        if isinstance(e, ast.Constant) and isinstance(e.value, bool):
            return "true" if e.value else "false"
        if (isinstance(e, ast.Compare) and len(e.ops) == 1 and isinstance(e.left, ast.Name)
                and e.left.id in env and env[e.left.id][0] == "nat"
                and isinstance(e.comparators[0], ast.Constant) and isinstance(e.comparators[0].value, int)
                and not isinstance(e.comparators[0].value, bool) and e.comparators[0].value >= 0):
            v, c = env[e.left.id][1], e.comparators[0].value
            op = e.ops[0]
            if isinstance(op, ast.Gt):
                return f"(Nat.ltb {c} {v})"
            if isinstance(op, ast.GtE):
                return f"(Nat.leb {c} {v})"
            if isinstance(op, ast.NotEq):
                return f"(negb (Nat.eqb {v} {c}))"
            if isinstance(op, ast.Eq):
                return f"(Nat.eqb {v} {c})"
        fail("main", e, "(condition)")
        return ""

    def fatal_term(self, call: ast.Call, env=None) -> str:
        code = self.fatal_default_code
        args = list(call.args)
        for kw in call.keywords:
            if kw.arg == "code" and isinstance(kw.value, ast.Constant) and isinstance(kw.value.value, int):
                code = kw.value.value
            elif kw.arg == "code" and isinstance(kw.value, ast.Name) and env is not None \
                    and env.get(kw.value.id, ("",))[0] == "nat":
                code = f"(Z.of_nat {env[kw.value.id][1]})"      # a count as exit code: see CliBase.process_status
            elif kw.arg == "s":
                args.insert(0, kw.value)
            else:
                fail("main", call, "(fatal keyword)")
        if len(args) == 2 and isinstance(args[1], ast.Constant) and isinstance(args[1].value, int):
            code = args[1].value
            args = args[:1]
        if len(args) == 0:
            msg = "MsgNone"
        elif len(args) == 1:
            s = ast.unparse(args[0])
            if s == "error.colored()":
                msg = "MsgErrorColored"
            elif s == "str(error)":
                msg = "MsgErrorStr"
            elif s == "str(NoLanguageArgument())":
                msg = "MsgNoLanguage"
            elif isinstance(args[0], ast.Constant) and isinstance(args[0].value, str):
                msg = "MsgNone" if args[0].value == "" else f"(MsgLit {cstr(args[0].value)})"
            else:
                fail("main", call, "(fatal message)")
        else:
            fail("main", call, "(fatal arguments)")
        return f"(AFatal {msg} {code})"

    def is_call(self, e: Optional[ast.expr], fn: str) -> bool:
        return isinstance(e, ast.Call) and isinstance(e.func, ast.Name) and e.func.id == fn

    def handlers(self, hs: List[ast.ExceptHandler], ctor: str, allowed: Dict[str, str]) -> List[str]:
        out = []
        seen = set()
        for h in hs:
            if not (isinstance(h.type, ast.Name) and h.type.id in allowed) or h.type.id in seen:
                fail("main", h, "(exception handler)")
            seen.add(h.type.id)
            if not (len(h.body) == 1 and isinstance(h.body[0], ast.Expr) and self.is_call(h.body[0].value, "fatal")):
                fail("main", h, "(handler body is not a single fatal(...))")
            if h.name not in (None, "error"):
                fail("main", h, "(handler variable)")
            out.append(f"| {ctor} {allowed[h.type.id]} => {self.fatal_term(h.body[0].value)}")
        out.append(f"| {ctor} e => AUncaught e")
        return out

    def exec(self, stmts: List[ast.stmt], env: Dict[str, Tuple[str, str]]) -> str:
        stmts = [s for s in stmts if not (isinstance(s, ast.Expr) and isinstance(s.value, ast.Constant))]
        if not stmts:
            return f"(AReturn {env['__rendered__'][1]})"
        s, rest = stmts[0], stmts[1:]
        if isinstance(s, ast.Return) and s.value is None:
            return f"(AReturn {env['__rendered__'][1]})"
        if isinstance(s, ast.Expr) and self.is_call(s.value, "fatal"):
            return self.fatal_term(s.value, env)  # NoReturn
        if isinstance(s, (ast.Assign, ast.AnnAssign)):
            tgt = s.targets[0] if isinstance(s, ast.Assign) else s.target
            if not isinstance(tgt, ast.Name) or s.value is None:
                fail("main", s)
            env2 = dict(env)
            v = s.value
            if isinstance(v, ast.Constant) and isinstance(v.value, int) and not isinstance(v.value, bool) and v.value >= 0:
                env2[tgt.id] = ("nat", f"{v.value}%nat")
            elif self.is_call(v, "lint"):
                if not (len(v.args) == 1 and isinstance(v.args[0], ast.Name) and env.get(v.args[0].id, ("",))[0] == "proto"
                        and not v.keywords):
                    fail("main", s, "(lint call)")
                env2[tgt.id] = ("nat", "lint")
            else:
                env2[tgt.id] = ("bool", self.cond(v, env))
            return self.exec(rest, env2)
        if isinstance(s, ast.If):
            c = self.cond(s.test, env)
            simple = lambda b: all(isinstance(x, ast.Assign) and isinstance(x.targets[0], ast.Name) for x in b)
            if simple(s.body) and simple(s.orelse):
                # both branches only assign: join the environments (keeps the term small)
                def run(b):
                    e = dict(env)
                    for x in b:
                        sub = self.exec([x, ast.Return(value=None)], e)  # type-checks the assignment
                        del sub
                        v = x.value
                        if isinstance(v, ast.Constant) and isinstance(v.value, int) and not isinstance(v.value, bool):
                            e[x.targets[0].id] = ("nat", f"{v.value}%nat")
                        elif self.is_call(v, "lint"):
                            e[x.targets[0].id] = ("nat", "lint")
                        else:
                            e[x.targets[0].id] = ("bool", self.cond(v, e))
                    return e
                e1, e2 = run(s.body), run(s.orelse)
                env2 = dict(env)
                for k in set(e1) | set(e2):
                    a, b = e1.get(k), e2.get(k)
                    if a == b:
                        if a is not None:
                            env2[k] = a
                        continue
                    if a is None or b is None or a[0] != b[0]:
                        fail("main", s, f"(variable {k} not defined on both paths with one type)")
                    env2[k] = (a[0], f"(if {c} then {a[1]} else {b[1]})")
                return self.exec(rest, env2)
            return f"(if {c} then {self.exec(s.body + rest, env)} else {self.exec(s.orelse + rest, env)})"
        if isinstance(s, ast.Try) and not s.orelse and not s.finalbody and s.body:
            env2 = dict(env)
            for b in s.body[:-1]:
                if not (isinstance(b, ast.Assign) and isinstance(b.targets[0], ast.Name)):
                    fail("main", b, "(statement inside try)")
                env2[b.targets[0].id] = ("bool", self.cond(b.value, env2))
            last = s.body[-1]
            if isinstance(last, ast.Assign) and isinstance(last.targets[0], ast.Name) and self.is_call(last.value, "parse"):
                call = last.value
                kws = {k.arg: k.value for k in call.keywords}
                if not (len(call.args) == 1 and ast.unparse(call.args[0]) == "filepath" and set(kws) <= {"traditional_mode"}):
                    fail("main", last, "(parse call)")
                t = self.cond(kws["traditional_mode"], env2) if "traditional_mode" in kws else "false"
                env3 = dict(env2)
                env3[last.targets[0].id] = ("proto", "")
                hs = self.handlers(s.handlers, "PRaise", {"ParserError": "ExParserError", "IOError": "ExIOError",
                                                            "OSError": "ExIOError"})
                return (f"(match parse {t} with | POk => {self.exec(rest, env3)} " + " ".join(hs) + " end)")
            if isinstance(last, ast.Expr) and self.is_call(last.value, "render"):
                call = last.value
                kws = {k.arg: k.value for k in call.keywords}
                ok = (len(call.args) == 2 and isinstance(call.args[0], ast.Name)
                      and env2.get(call.args[0].id, ("",))[0] == "proto"
                      and ast.unparse(call.args[1]) == "lang"
                      and set(kws) == {"outdir", "optimization_mode", "optimization_mode_filter_messages",
                                       "optimization_mode_endian"}
                      and ast.unparse(kws["outdir"]) == "outdir")
                if not ok:
                    fail("main", last, "(render call)")
                fm = ast.unparse(kws["optimization_mode_filter_messages"])
                en = ast.unparse(kws["optimization_mode_endian"])
                if fm != "filter_messages" or en != "endian":
                    fail("main", last, "(render plumbing of filter/endian)")
                req = (f"(mkReq (lang_ a) {self.cond(kws['optimization_mode'], env2)} "
                       f"(filter_messages a) (endian_ a))")
                env3 = dict(env2)
                env3["__rendered__"] = ("opt", f"(Some {req})")
                hs = self.handlers(s.handlers, "RRaise", {"RendererError": "ExRendererError", "IOError": "ExIOError",
                                                            "OSError": "ExIOError"})
                return f"(match render {req} with | ROk => {self.exec(rest, env3)} " + " ".join(hs) + " end)"
            fail("main", s, "(try block)")
        fail("main", s)
        return ""


def gen_main(out: List[str], skel: Dict[str, str]) -> None:
    utils = _parse(f"{CB}/utils.py")
    fatal = find_func(utils, "fatal")
    if [a.arg for a in fatal.args.args] != ["s", "code"] or len(fatal.args.defaults) != 2:
        raise Broken("translator(cli): utils.fatal signature changed")
    d_s, d_code = fatal.args.defaults
    if not (isinstance(d_s, ast.Constant) and d_s.value == "" and isinstance(d_code, ast.Constant)
            and isinstance(d_code.value, int)):
        raise Broken("translator(cli): utils.fatal defaults changed")
    skel["utils.py:fatal"] = skeleton_digest(fatal)
    skel["utils.py:write_stderr"] = skeleton_digest(find_func(utils, "write_stderr"))
    out.append(f"Definition fatal_default_code : Z := {d_code.value}.")

    tree = _parse(f"{CB}/_main.py")
    fn = find_func(tree, "main")
    params = [a.arg for a in fn.args.args]
    if params != MAIN_PARAMS:
        raise Broken("translator(cli): _main.main parameters changed", str(params))
    defaults = [ast.unparse(d) for d in fn.args.defaults]
    if defaults != MAIN_DEFAULTS:
        raise Broken("translator(cli): _main.main defaults changed", str(defaults))
    tr = MainTr(d_code.value)
    body = tr.exec(strip_doc(fn), {"__rendered__": ("opt", "None")})
    out.append("Definition decide (a : args) (parse : bool -> parse_outcome) (lint : nat) "
               "(render : render_req -> render_outcome) : action :=\n  " + body + ".")

    # argparse specification: flags, dest, action, type, choices, default, nargs (help text masked)
    bap = find_func(tree, "build_arg_parser")
    spec = []
    for n in ast.walk(bap):
        if isinstance(n, ast.Call) and isinstance(n.func, ast.Attribute) and n.func.attr == "add_argument":
            flags = [ast.unparse(a) for a in n.args]
            kws = {k.arg: ast.unparse(k.value) for k in n.keywords if k.arg not in ("help", "version", "metavar")}
            spec.append((flags, sorted(kws.items())))
    spec.sort()
    skel["_main.py:argparse-spec"] = repr(spec)
    endian = [kws for flags, kws in spec if "'--endian'" in flags]
    if len(endian) != 1:
        raise Broken("translator(cli): --endian argument not found")
    ek = dict(endian[0])
    try:
        choices = ast.literal_eval(ek["choices"])
        default = ast.literal_eval(ek["default"])
    except Exception:
        raise Broken("translator(cli): --endian choices/default are not literals")
    out.append(f"Definition endian_choices : list string := {clist(cstr(c) for c in choices)}.")
    out.append(f"Definition endian_default : string := {cstr(default)}.")
    skel["_main.py:run_bitproto"] = skeleton_digest(find_func(tree, "run_bitproto"))


# --------------------------------------------------------------------------------------
# small decision-procedure translator (if / return / raise over named atoms)
# --------------------------------------------------------------------------------------

class Dec:
    """Statements: simple assignment (substituted), `if`, `return`, `raise`, and caller-defined
    effect statements.  Conditions: and/or/not over atoms; an atom is looked up by the
    unparsed text of the expression after substitution of assigned names."""

    def __init__(self, where: str, atom: Callable[[ast.expr], Optional[str]],
                 ret: Callable[[Optional[ast.expr], Dict[str, ast.expr]], str],
                 on_raise: Optional[Callable[[ast.Raise], str]] = None,
                 fall_off: Optional[str] = None,
                 skip: Optional[Callable[[ast.stmt], bool]] = None,
                 effect: Optional[Callable[[ast.stmt, Dict[str, ast.expr]], Optional[Dict[str, ast.expr]]]] = None):
        self.where, self.atom, self.ret, self.on_raise = where, atom, ret, on_raise
        self.fall_off, self.skip, self.effect = fall_off, skip, effect

    def cond(self, e: ast.expr, env: Dict[str, ast.expr]) -> str:
        if isinstance(e, ast.UnaryOp) and isinstance(e.op, ast.Not):
            return f"(negb {self.cond(e.operand, env)})"
        if isinstance(e, ast.BoolOp):
            op = " && " if isinstance(e.op, ast.And) else " || "
            return "(" + op.join(self.cond(v, env) for v in e.values) + ")"
        e2 = subst(e, env)
        if isinstance(e2, (ast.UnaryOp, ast.BoolOp)) and e2 is not e and ast.dump(e2) != ast.dump(e):
            return self.cond(e2, {})
        a = self.atom(e2)
        if a is None:
            fail(self.where, e2, "(condition)")
        return a  # type: ignore

    def body(self, stmts: List[ast.stmt], env: Dict[str, ast.expr]) -> str:
        stmts = [s for s in stmts if not (isinstance(s, ast.Expr) and isinstance(s.value, ast.Constant))]
        if not stmts:
            if self.fall_off is None:
                raise Broken(f"translator(cli): {self.where}: a path falls off the end")
            return self.fall_off
        s, rest = stmts[0], stmts[1:]
        if self.skip and self.skip(s):
            return self.body(rest, env)
        if isinstance(s, ast.Return):
            return self.ret(s.value, env)
        if isinstance(s, ast.Raise) and self.on_raise:
            return self.on_raise(s)
        if isinstance(s, ast.If):
            return (f"(if {self.cond(s.test, env)} then {self.body(s.body + rest, env)} "
                    f"else {self.body(s.orelse + rest, env)})")
        if self.effect:
            env2 = self.effect(s, env)
            if env2 is not None:
                return self.body(rest, env2)
        if isinstance(s, (ast.Assign, ast.AnnAssign)):
            tgt = s.targets[0] if isinstance(s, ast.Assign) else s.target
            if isinstance(tgt, ast.Name) and s.value is not None:
                env2 = dict(env)
                env2[tgt.id] = subst(s.value, env)
                return self.body(rest, env2)
        fail(self.where, s)
        return ""


# --------------------------------------------------------------------------------------
# D. parser.py
# --------------------------------------------------------------------------------------

POSITION_ACTIONS = ["p_option", "p_alias", "p_const", "p_open_enum_scope", "p_close_enum_scope", "p_enum",
                    "p_enum_field", "p_message", "p_open_message_scope", "p_close_message_scope",
                    "p_message_field", "p_message_field_name", "p_constant_reference", "p_type_reference",
                    "p_type", "p_single_type", "p_base_type", "p_array_type", "p_dotted_identifier",
                    "p_import", "p_proto", "p_comment", "p_newline", "p_error", "copy_p_tracking",
                    "set_last_newline_pos", "p_open_global_scope", "p_enum_item_unsupported",
                    "p_message_item_unsupported", "p_constant_reference_for_calculation",
                    "p_constant_reference_for_array_capacity", "parse_string", "parse"]


class _Rewrite(ast.NodeTransformer):
    """Replace recognised sub-expressions by names (so that translate.Tr can print them)."""

    def __init__(self, table: Dict[str, str]):
        self.table = table

    def generic_visit(self, node):
        if isinstance(node, ast.expr):
            key = ast.unparse(node)
            if key in self.table:
                return ast.copy_location(ast.Name(id=self.table[key], ctx=ast.Load()), node)
        return super().generic_visit(node)


def _pure(fn: ast.FunctionDef, where: str, rewrite: Dict[str, str], params: List[str], coq_name: str,
          drop_assign_to: Sequence[str] = ()) -> str:
    fn2 = _Rewrite(rewrite).visit(copy.deepcopy(fn))
    body = []
    for s in strip_doc(fn2):
        if (isinstance(s, ast.Assign) and isinstance(s.targets[0], ast.Name) and s.targets[0].id in drop_assign_to
                and isinstance(s.value, ast.Name) and s.value.id == s.targets[0].id):
            continue   # `lexpos = p.lexpos(k)` rewritten to `lexpos = lexpos`
        body.append(s)
    tr = Tr(where)
    e = tr.body(body, {p: p for p in params}, "z")
    return f"Definition {coq_name} ({' '.join(params)} : Z) : Z := {e}."


def gen_parser(out: List[str], skel: Dict[str, str]) -> None:
    tree = _parse(f"{CB}/parser.py")
    P = _class(tree, "Parser")

    # module-level parse(): how the flag reaches the root parser
    fn = find_func(tree, "parse")
    if [a.arg for a in fn.args.args] != ["filepath", "traditional_mode"] or \
            [ast.unparse(d) for d in fn.args.defaults] != ["False"]:
        raise Broken("translator(cli): parser.parse signature changed")
    body = strip_doc(fn)
    if not (len(body) == 1 and isinstance(body[0], ast.Return)):
        fail("parser.parse", fn)
    call = body[0].value
    ok = (isinstance(call, ast.Call) and isinstance(call.func, ast.Attribute) and call.func.attr == "parse"
          and ast.unparse(call.args[0]) == "filepath" and isinstance(call.func.value, ast.Call)
          and ast.unparse(call.func.value.func) == "Parser" and not call.func.value.args)
    if not ok:
        fail("parser.parse", body[0])

    def flag_of(ctor: ast.Call, where: str, names: Dict[str, str]) -> str:
        kws = {k.arg: k.value for k in ctor.keywords}
        if "traditional_mode" not in kws:
            return init_default
        key = ast.unparse(kws["traditional_mode"])
        if key in names:
            return names[key]
        if key in ("True", "False"):
            return key.lower()
        fail(where, kws["traditional_mode"], "(traditional_mode argument)")
        return ""

    init = _method(P, "__init__")
    if init is None:
        raise Broken("translator(cli): Parser.__init__ not found")
    iparams = [a.arg for a in init.args.args]
    if "traditional_mode" not in iparams:
        raise Broken("translator(cli): Parser.__init__ has no traditional_mode parameter")
    idef = init.args.defaults[len(init.args.defaults) - (len(iparams) - iparams.index("traditional_mode"))]
    if ast.unparse(idef) not in ("True", "False"):
        fail("Parser.__init__", idef)
    init_default = ast.unparse(idef).lower()
    stored = None
    lnp_init = None
    for s in ast.walk(init):
        if isinstance(s, (ast.Assign, ast.AnnAssign)):
            tgt = s.targets[0] if isinstance(s, ast.Assign) else s.target
            if ast.unparse(tgt) == "self.traditional_mode":
                stored = ast.unparse(s.value)
            if ast.unparse(tgt) == "self.last_newline_pos":
                lnp_init = s.value
    if stored != "traditional_mode":
        raise Broken("translator(cli): Parser.__init__ does not store traditional_mode as given", str(stored))
    try:
        lnp_value = ast.literal_eval(lnp_init) if lnp_init is not None else None
    except Exception:
        lnp_value = None
    if not isinstance(lnp_value, int) or isinstance(lnp_value, bool):
        raise Broken("translator(cli): Parser.__init__: initial last_newline_pos is not an integer literal")
    writers = sorted({f.name for f in P.body if isinstance(f, ast.FunctionDef) for n in ast.walk(f)
                      if isinstance(n, (ast.Assign, ast.AnnAssign, ast.AugAssign))
                      and "self.traditional_mode" in [ast.unparse(t) for t in
                                                      (n.targets if isinstance(n, ast.Assign) else [n.target])]})
    if writers != ["__init__"]:
        raise Broken("translator(cli): traditional_mode is assigned outside Parser.__init__", str(writers))

    out.append(f"Definition root_traditional_mode (traditional_mode : bool) : bool := "
               f"{flag_of(call.func.value, 'parser.parse', {'traditional_mode': 'traditional_mode'})}.")

    pc = _method(P, "parse_child")
    body = strip_doc(pc) if pc else []
    if not (len(body) == 1 and isinstance(body[0], ast.Return) and isinstance(body[0].value, ast.Call)
            and isinstance(body[0].value.func, ast.Attribute) and body[0].value.func.attr == "parse"
            and isinstance(body[0].value.func.value, ast.Call)
            and ast.unparse(body[0].value.func.value.func) == "Parser" and not body[0].value.func.value.args):
        raise Broken("translator(cli): Parser.parse_child has an unexpected shape")
    out.append(f"Definition child_traditional_mode (traditional_mode : bool) : bool := "
               f"{flag_of(body[0].value.func.value, 'parse_child', {'self.traditional_mode': 'traditional_mode'})}.")
    callers = sorted(f.name for f in P.body if isinstance(f, ast.FunctionDef)
                     for n in ast.walk(f) if isinstance(n, ast.Call) and ast.unparse(n.func) == "self.parse_child")
    if callers != ["p_import"]:
        raise Broken("translator(cli): parse_child is not called exactly from p_import", str(callers))
    ctor_sites = sorted(f.name for f in ast.walk(tree) if isinstance(f, ast.FunctionDef)
                        for n in ast.walk(f) if isinstance(n, ast.Call) and ast.unparse(n.func) == "Parser")
    if ctor_sites != ["parse", "parse_child", "parse_string"]:
        raise Broken("translator(cli): Parser(...) constructed at unexpected places", str(ctor_sites))

    # the action of the only production that mentions the marker
    gram = _parse(f"{CB}/grammars.py")
    marker_rules = []
    for n in gram.body:
        if isinstance(n, ast.Assign) and isinstance(n.value, ast.Constant) and isinstance(n.value.value, str):
            if "\"'\"" in n.value.value or "'\\''" in n.value.value:
                marker_rules.append(n.targets[0].id)  # type: ignore
    if marker_rules != ["r_optional_extensible_flag"]:
        raise Broken("translator(cli): the extensible marker appears in other grammar rules", str(marker_rules))
    skel["grammars.py:r_optional_extensible_flag"] = " ".join(
        [n.value.value for n in gram.body if isinstance(n, ast.Assign)
         and n.targets[0].id == "r_optional_extensible_flag"][0].split())  # type: ignore
    fx = _method(P, "p_optional_extensible_flag")
    if fx is None:
        raise Broken("translator(cli): p_optional_extensible_flag not found")

    def atom(e: ast.expr) -> Optional[str]:
        k = ast.unparse(e)
        return {"len(p) == 2": "(len_p =? 2)", "self.traditional_mode": "traditional_mode"}.get(k)

    def on_raise(r: ast.Raise) -> str:
        c = r.exc
        if not (isinstance(c, ast.Call) and ast.unparse(c.func) == "ExtensibleGrammarFoundInTraditionalMode"):
            fail("p_optional_extensible_flag", r)
        kws = {k.arg: ast.unparse(k.value) for k in c.keywords}  # type: ignore
        if kws != {"filepath": "self.current_filepath()", "lineno": "p.lineno(1)", "token": "p[1]"}:
            fail("p_optional_extensible_flag", r, "(error position)")
        return "true"

    dec = Dec("p_optional_extensible_flag", atom, lambda v, env: "false", on_raise, fall_off="false",
              skip=lambda s: isinstance(s, ast.Assign) and ast.unparse(s.targets[0]) == "p[0]")
    out.append("Definition ext_flag_raises (len_p : Z) (traditional_mode : bool) : bool := "
               + dec.body(strip_doc(fx), {}) + ".")

    # positions
    gc = _method(P, "_get_col")
    if gc is None or [a.arg for a in gc.args.args] != ["self", "p", "k"]:
        raise Broken("translator(cli): Parser._get_col signature changed")
    out.append(_pure(gc, "_get_col", {"p.lexpos(k)": "lexpos", "p.lexer.lexdata.rfind('\\n', 0, lexpos)": "rfind_nl"},
                     ["lexpos", "rfind_nl"], "get_col", drop_assign_to=["lexpos"]))
    ci = _method(P, "current_indent")
    if ci is None or [a.arg for a in ci.args.args] != ["self", "p", "i"] or \
            [ast.unparse(d) for d in ci.args.defaults] != ["1"]:
        raise Broken("translator(cli): Parser.current_indent signature changed")
    out.append(_pure(ci, "current_indent", {"p.lexpos(i)": "lexpos", "self.last_newline_pos": "last_newline_pos"},
                     ["lexpos", "last_newline_pos"], "current_indent", drop_assign_to=["lexpos"]))
    out.append(f"Definition last_newline_pos_init : Z := {lnp_value if lnp_value >= 0 else '(' + str(lnp_value) + ')'}.")
    for name in POSITION_ACTIONS:
        f = _method(P, name)
        if f is None:
            raise Broken(f"translator(cli): Parser.{name} not found")
        skel[f"parser.py:Parser.{name}"] = skeleton_digest(f)
    skel["parser.py:Parser.__init__"] = skeleton_digest(init, [lnp_init])   # the initial value is translated, not pinned
    for rule in ("r_comment", "r_newline", "r_message_field", "r_open_message_scope", "r_open_enum_scope",
                 "r_enum_field", "r_alias", "r_const", "r_option", "r_array_type", "r_dotted_identifier"):
        vals = [n.value.value for n in gram.body if isinstance(n, ast.Assign) and n.targets[0].id == rule]  # type: ignore
        if len(vals) != 1:
            raise Broken(f"translator(cli): grammar rule {rule} not found")
        skel[f"grammars.py:{rule}"] = " ".join(vals[0].split())


# --------------------------------------------------------------------------------------
# E. lexer.py
# --------------------------------------------------------------------------------------

def regex_may_match_newline(pattern: str, flags: int) -> bool:
    """Structural over-approximation: can a string matched by `pattern` contain '\\n'?"""
    try:
        import re._parser as sre_parse  # type: ignore
        import re._constants as C  # type: ignore
    except ImportError:  # pragma: no cover
        import sre_parse  # type: ignore
        import sre_constants as C  # type: ignore
    NL = 10
    parsed = sre_parse.parse(pattern, flags)
    dotall = bool(parsed.state.flags & re.DOTALL)

    def in_set(items) -> bool:
        neg = False
        hit = False
        for op, av in items:
            if op is C.NEGATE:
                neg = True
            elif op is C.LITERAL:
                hit = hit or av == NL
            elif op is C.RANGE:
                hit = hit or av[0] <= NL <= av[1]
            elif op is C.CATEGORY:
                if av in (C.CATEGORY_SPACE, C.CATEGORY_NOT_DIGIT, C.CATEGORY_NOT_WORD):
                    hit = True
                elif av in (C.CATEGORY_DIGIT, C.CATEGORY_WORD, C.CATEGORY_NOT_SPACE):
                    pass
                else:
                    return True
            else:
                return True
        return (not hit) if neg else hit

    def walk(seq) -> bool:
        for op, av in seq:
            if op is C.LITERAL:
                if av == NL:
                    return True
            elif op is C.NOT_LITERAL:
                if av != NL:
                    return True
            elif op is C.ANY:
                if dotall:
                    return True
            elif op is C.IN:
                if in_set(av):
                    return True
            elif op is C.BRANCH:
                if any(walk(b) for b in av[1]):
                    return True
            elif op is C.SUBPATTERN:
                if walk(av[3]):
                    return True
            elif op in (C.MAX_REPEAT, C.MIN_REPEAT):
                if walk(av[2]):
                    return True
            elif op is C.AT:
                pass
            elif op is C.CATEGORY:
                return True
            else:
                return True   # unknown node: assume the worst
        return False

    return walk(parsed)


def gen_lexer(out: List[str], skel: Dict[str, str]) -> None:
    tree = _parse(f"{CB}/lexer.py")
    L = _class(tree, "Lexer")
    rules: List[Tuple[str, str]] = []
    writers: List[str] = []
    ignore = None
    literals = None
    for n in L.body:
        if isinstance(n, (ast.Assign, ast.AnnAssign)):
            tgt = n.targets[0] if isinstance(n, ast.Assign) else n.target
            if isinstance(tgt, ast.Name) and tgt.id.startswith("t_"):
                if not (isinstance(n.value, ast.Constant) and isinstance(n.value.value, str)):
                    fail("lexer", n, "(token rule is not a string literal)")
                if tgt.id == "t_ignore":
                    ignore = n.value.value
                else:
                    rules.append((tgt.id, n.value.value))
            if isinstance(tgt, ast.Name) and tgt.id == "literals":
                if not (isinstance(n.value, ast.Constant) and isinstance(n.value.value, str)):
                    fail("lexer", n, "(literals)")
                literals = n.value.value
        if isinstance(n, ast.FunctionDef) and n.name.startswith("t_"):
            if n.name == "t_error":
                skel["lexer.py:Lexer.t_error"] = skeleton_digest(n)
                continue
            doc = ast.get_docstring(n, clean=False)
            if doc is None:
                fail("lexer", n, "(token function without regex docstring)")
            rules.append((n.name, doc))
            skel[f"lexer.py:Lexer.{n.name}"] = skeleton_digest(n)
            for m in ast.walk(n):
                tg = []
                if isinstance(m, ast.Assign):
                    tg = m.targets
                elif isinstance(m, (ast.AugAssign, ast.AnnAssign)):
                    tg = [m.target]
                for t in tg:
                    if isinstance(t, ast.Attribute) and t.attr == "lineno":
                        writers.append(n.name)
                        if not (isinstance(m, ast.AugAssign) and isinstance(m.op, ast.Add)
                                and ast.unparse(m.target) == "t.lexer.lineno"
                                and isinstance(m.value, ast.Constant) and m.value.value == 1):
                            fail("lexer", m, "(lineno update is not `t.lexer.lineno += 1`)")
    if ignore is None or literals is None:
        raise Broken("translator(cli): Lexer.t_ignore / literals not found")
    init = _method(L, "__init__")
    if init is None or "lex.lex(object=self)" not in ast.unparse(init):
        raise Broken("translator(cli): Lexer.__init__ no longer builds `lex.lex(object=self)` (default re.VERBOSE)")
    # no other code of the lexer/parser may touch lineno of the lexer
    ptree = _parse(f"{CB}/parser.py")
    for t, nm in ((tree, "lexer.py"), (ptree, "parser.py")):
        for m in ast.walk(t):
            if isinstance(m, (ast.Assign, ast.AugAssign)):
                tg = m.targets if isinstance(m, ast.Assign) else [m.target]
                for x in tg:
                    if isinstance(x, ast.Attribute) and x.attr == "lineno" and ast.unparse(x) != "t.lexer.lineno":
                        if not (nm == "parser.py" and ast.unparse(x) in ("proto.scope_end_lineno", "enum.scope_end_lineno",
                                                                         "message.scope_end_lineno")):
                            fail(nm, m, "(assignment to a lineno attribute)")
    rows = []
    for name, rx in rules:
        try:
            nl = regex_may_match_newline(rx, re.VERBOSE)
        except Exception as e:
            raise Broken(f"translator(cli): cannot analyse regex of {name}", f"{rx!r}: {e}")
        rows.append(f"({cstr(name)}, {cstr(rx)}, {'true' if nl else 'false'})")
    out.append("Definition lexer_rules : list (string * string * bool) :=\n  " + clist(rows) + ".")
    out.append(f"Definition lexer_lineno_writers : list string := {clist(cstr(w) for w in sorted(set(writers)))}.")
    out.append(f"Definition lexer_newline_increment : Z := 1.")
    has_nl = "\n" in ignore or "\n" in literals
    out.append(f"Definition lexer_ignore_or_literals_contain_newline : bool := {'true' if has_nl else 'false'}.")
    skel["lexer.py:t_ignore"] = repr(ignore)
    skel["lexer.py:literals"] = repr(literals)


# --------------------------------------------------------------------------------------
# F. linter.py, G. utils.py, H. errors.py
# --------------------------------------------------------------------------------------

KIND_OF_CLASS = {"Alias": "KAlias", "Constant": "KConstant", "Enum": "KEnum", "EnumField": "KEnumField",
                 "Message": "KMessage", "MessageField": "KMessageField", "Option": "KOption", "Proto": "KProto"}


def _norm(fn: ast.FunctionDef) -> str:
    return "\n".join(ast.unparse(s) for s in strip_doc(fn))


def gen_linter(out: List[str], skel: Dict[str, str]) -> None:
    tree = _parse(f"{CB}/linter.py")
    st = None
    for n in tree.body:
        if isinstance(n, (ast.Assign, ast.AnnAssign)):
            tgt = n.targets[0] if isinstance(n, ast.Assign) else n.target
            if isinstance(tgt, ast.Name) and tgt.id == "SUPPORTED_TYPES":
                st = n.value
    if not (isinstance(st, ast.Tuple) and all(isinstance(e, ast.Name) for e in st.elts)):
        raise Broken("translator(cli): linter.SUPPORTED_TYPES is not a tuple of names")
    out.append(f"Definition lint_supported_types : list string := {clist(cstr(e.id) for e in st.elts)}.")  # type: ignore

    LN = _class(tree, "Linter")
    rules_fn = _method(LN, "rules")
    body = strip_doc(rules_fn) if rules_fn else []
    if not (len(body) == 1 and isinstance(body[0], ast.Return) and isinstance(body[0].value, ast.Tuple)
            and all(isinstance(e, ast.Call) and isinstance(e.func, ast.Name) and not e.args and not e.keywords
                    for e in body[0].value.elts)):
        raise Broken("translator(cli): Linter.rules() has an unexpected shape")
    order = [e.func.id for e in body[0].value.elts]  # type: ignore
    for m in ("lint", "filter_rules"):
        f = _method(LN, m)
        if f is None:
            raise Broken(f"translator(cli): Linter.{m} not found")
        skel[f"linter.py:Linter.{m}"] = skeleton_digest(f)
    skel["linter.py:lint"] = skeleton_digest(find_func(tree, "lint"))

    def name_rule(test_py: str, sugg: str) -> str:
        return ("definition_name = name or definition.name\n" + test_py +
                "\n    return {W}.from_token(token=definition, suggestion=" + sugg + ")\nreturn None")

    shapes = {
        "TPascalNe": ["definition_name = name or definition.name\nexpect = pascal_case(definition_name)\n"
                      "if definition_name != expect:\n    return {W}.from_token(token=definition, suggestion=expect)\nreturn None",
                      "definition_name = name or definition.name\nexpect = pascal_case(definition_name)\n"
                      "if expect != definition_name:\n    return {W}.from_token(token=definition, suggestion=expect)\nreturn None"],
        "TSnakeNe": ["definition_name = name or definition.name\nexpect = snake_case(definition_name)\n"
                     "if expect != definition_name:\n    return {W}.from_token(token=definition, suggestion=expect)\nreturn None",
                     "definition_name = name or definition.name\nexpect = snake_case(definition_name)\n"
                     "if definition_name != expect:\n    return {W}.from_token(token=definition, suggestion=expect)\nreturn None"],
        "TNotUpper": [name_rule("if not definition_name.isupper():", "definition_name.upper()")],
        "TNoZeroField": ["for field in definition.fields():\n    if field.value == 0:\n        return None\n"
                         "return {W}.from_token(token=definition, suggestion=None)"],
    }
    rows = []
    for rname in order:
        R = _class(tree, rname)
        tc = _method(R, "target_class")
        ck = _method(R, "check")
        if tc is None or ck is None:
            raise Broken(f"translator(cli): rule {rname} lacks target_class/check")
        tb = strip_doc(tc)
        if not (len(tb) == 1 and isinstance(tb[0], ast.Return) and isinstance(tb[0].value, ast.Name)):
            fail(rname, tc)
        target = tb[0].value.id  # type: ignore
        if [a.arg for a in ck.args.args] != ["self", "definition", "name"]:
            fail(rname, ck, "(check signature)")
        text = _norm(ck)
        m = re.search(r"return (\w+)\.from_token\(", text)
        if not m:
            fail(rname, ck, "(no warning constructed)")
        wcls = m.group(1)  # type: ignore
        found = None
        for test, alts in shapes.items():
            if any(text == a.replace("{W}", wcls) for a in alts):
                found = test
        if found is None and target == "BoundDefinition":
            # RuleDefinitionIndent: expect = (len(definition.scope_stack) - 1) * 4; if <cond>: return W(...suggestion=f"{expect} spaces"); return None
            b = strip_doc(ck)
            ok = (len(b) == 3 and isinstance(b[0], (ast.Assign, ast.AnnAssign)) and isinstance(b[1], ast.If)
                  and not b[1].orelse and len(b[1].body) == 1 and isinstance(b[1].body[0], ast.Return)
                  and ast.unparse(b[1].body[0].value) == wcls + ".from_token(token=definition, suggestion=f'{expect} spaces')"
                  and ast.unparse(b[2]) == "return None")
            if ok:
                rw = {"len(definition.scope_stack)": "depth", "definition.indent": "indent"}
                val = _Rewrite(rw).visit(copy.deepcopy(b[0].value))
                tgt = b[0].targets[0] if isinstance(b[0], ast.Assign) else b[0].target
                if not (isinstance(tgt, ast.Name) and tgt.id == "expect"):
                    fail(rname, b[0])
                tr = Tr(rname)
                env = {"depth": "depth", "indent": "indent"}
                ex = tr.z(val, env)
                out.append(f"Definition indent_expect (depth : Z) : Z := {ex}.")
                env["expect"] = "(indent_expect depth)"
                cond = tr.b(_Rewrite(rw).visit(copy.deepcopy(b[1].test)), env)
                out.append(f"Definition indent_warns (indent depth : Z) : bool := {cond}.")
                found = "TIndent"
        if found is None:
            fail(rname, ck, "(rule body not recognised)")
        rows.append(f"({cstr(rname)}, {cstr(target)}, {found}, {cstr(wcls)})")
    out.append("Definition lint_rules : list (string * string * lint_test * string) :=\n  " + clist(rows) + ".")

    # utils: naming helpers (hand-modelled in Lint.v; regexes come from here)
    utils = _parse(f"{CB}/utils.py")
    consts = {}
    for n in utils.body:
        if isinstance(n, ast.Assign) and isinstance(n.targets[0], ast.Name) and n.targets[0].id.startswith("_snakecase_re_"):
            v = n.value
            if not (isinstance(v, ast.Call) and ast.unparse(v.func) == "re.compile" and len(v.args) == 1
                    and not v.keywords and isinstance(v.args[0], ast.Constant) and isinstance(v.args[0].value, str)):
                fail("utils", n, "(regex constant)")
            consts[n.targets[0].id[len("_snakecase_"):]] = v.args[0].value  # type: ignore
    for k in sorted(consts):
        out.append(f"Definition {k} : string := {cstr(consts[k])}.")
    out.append(f"Definition snakecase_regex_names : list string := {clist(cstr(k) for k in sorted(consts))}.")
    for f in ("pascal_case", "snake_case", "upper_case", "keep_case"):
        skel[f"utils.py:{f}"] = skeleton_digest(find_func(utils, f))

    # errors: message format
    et = _parse(f"{CB}/errors.py")
    for cls, meths in (("Base", ["__post_init__", "__str__", "colored"]), ("Error", ["colored", "_message_prefix"]),
                       ("Warning", ["colored", "_message_prefix"]),
                       ("_TokenBound", ["format_default_description", "from_token"]),
                       ("LintWarning", ["format_default_description"]),
                       ("LanguageNotSupportOptimizationMode", ["format_default_description"])):
        C = _class(et, cls)
        for m in meths:
            f = _method(C, m)
            if f is None:
                raise Broken(f"translator(cli): errors.{cls}.{m} not found")
            skel[f"errors.py:{cls}.{m}"] = skeleton_digest(f)
    skel["errors.py:warning"] = skeleton_digest(find_func(et, "warning"))
    bases = {}
    for n in et.body:
        if isinstance(n, ast.ClassDef):
            bases[n.name] = [ast.unparse(b) for b in n.bases]
    skel["errors.py:hierarchy"] = repr(sorted(bases.items()))


# --------------------------------------------------------------------------------------
# I. renderers
# --------------------------------------------------------------------------------------

RENDERER_MODULES = {
    "c_src": "renderer/impls/c/renderer_c.py",
    "c_hdr": "renderer/impls/c/renderer_h.py",
    "go": "renderer/impls/go/renderer.py",
    "py": "renderer/impls/py/renderer.py",
}
FILTER_ATTR = "optimization_mode_filter_messages"


def _block_names(e: ast.expr, where: str) -> List[str]:
    if not isinstance(e, ast.List):
        fail(where, e, "(block list)")
    names = []
    for x in e.elts:  # type: ignore
        if not (isinstance(x, ast.Call) and isinstance(x.func, ast.Name) and not x.keywords
                and all(ast.unparse(a) in ("self.d", "self.bound", "d") for a in x.args)):
            fail(where, x, "(block constructor)")
        names.append(x.func.id)  # type: ignore
    return names


def _filter_atoms(where: str, dname: str) -> Callable[[ast.expr], Optional[str]]:
    flt = {f"self._get_ctx_or_raise().{FILTER_ATTR}"}

    def atom(e: ast.expr) -> Optional[str]:
        k = ast.unparse(e)
        if k in flt:
            return "filter_truthy"
        if isinstance(e, ast.Call) and ast.unparse(e.func) == "isinstance" and len(e.args) == 2 \
                and ast.unparse(e.args[0]) == "d" and isinstance(e.args[1], ast.Name) and e.args[1].id in KIND_OF_CLASS:
            return f"(defkind_eqb kind {KIND_OF_CLASS[e.args[1].id]})"
        if isinstance(e, ast.Compare) and len(e.ops) == 1 and ast.unparse(e.left) == f"{dname}.name" \
                and ast.unparse(e.comparators[0]) in flt:
            if isinstance(e.ops[0], ast.NotIn):
                return "(negb name_in_filter)"
            if isinstance(e.ops[0], ast.In):
                return "name_in_filter"
        return None

    return atom


def gen_renderers(out: List[str], skel: Dict[str, str]) -> None:
    # registry
    reg_tree = _parse(f"{CB}/renderer/impls/__init__.py")
    reg = None
    for n in reg_tree.body:
        if isinstance(n, (ast.Assign, ast.AnnAssign)):
            tgt = n.targets[0] if isinstance(n, ast.Assign) else n.target
            if isinstance(tgt, ast.Name) and tgt.id == "renderer_registry":
                reg = n.value
    if not isinstance(reg, ast.Dict):
        raise Broken("translator(cli): renderer_registry is not a dict literal")
    registry: Dict[str, List[str]] = {}
    for k, v in zip(reg.keys, reg.values):
        if not (isinstance(k, ast.Constant) and isinstance(v, ast.Tuple) and all(isinstance(e, ast.Name) for e in v.elts)):
            fail("renderer_registry", reg)
        registry[k.value] = [e.id for e in v.elts]  # type: ignore
    if sorted(registry) != ["c", "go", "py"]:
        raise Broken("translator(cli): the set of languages changed", str(sorted(registry)))
    want = {"c": ["RendererC", "RendererCHeader"], "go": ["RendererGo"], "py": ["RendererPy"]}
    if registry != want:
        raise Broken("translator(cli): renderer classes per language changed", str(registry))

    base = _parse(f"{CB}/renderer/renderer.py")
    RB = _class(base, "Renderer")
    so = _method(RB, "support_optimization")
    sb = strip_doc(so) if so else []
    if not (len(sb) == 1 and isinstance(sb[0], ast.Return) and ast.unparse(sb[0].value) in ("True", "False")):
        raise Broken("translator(cli): Renderer.support_optimization default has an unexpected shape")
    default_support = ast.unparse(sb[0].value).lower()

    cp = _method(RB, "check_proto_for_optimization_mode")
    if cp is None:
        raise Broken("translator(cli): Renderer.check_proto_for_optimization_mode not found")

    def atom(e: ast.expr) -> Optional[str]:
        return {"self.optimization_mode": "optimization_mode", "self.support_optimization()": "supports"}.get(ast.unparse(e))

    def on_raise(r: ast.Raise) -> str:
        if not (isinstance(r.exc, ast.Call) and ast.unparse(r.exc.func) == "LanguageNotSupportOptimizationMode"):
            fail("check_proto_for_optimization_mode", r)
        return "true"

    dec = Dec("check_proto_for_optimization_mode", atom, lambda v, env: "false", on_raise, fall_off="false")
    out.append("Definition opt_check_raises (optimization_mode supports : bool) : bool := "
               + dec.body(strip_doc(cp), {}) + ".")
    init = _method(RB, "__init__")
    if init is None:
        raise Broken("translator(cli): Renderer.__init__ not found")
    skel["renderer.py:Renderer.__init__"] = skeleton_digest(init)
    skel["renderer.py:Renderer.render_string"] = skeleton_digest(_method(RB, "render_string"))  # type: ignore
    skel["renderer.py:Renderer.render"] = skeleton_digest(_method(RB, "render"))  # type: ignore
    top = _parse(f"{CB}/renderer/__init__.py")
    skel["renderer/__init__.py:render"] = skeleton_digest(find_func(top, "render"))
    et = _parse(f"{CB}/errors.py")
    for c in ("LanguageNotSupportOptimizationMode", "UnsupportedLanguageToRender"):
        if [ast.unparse(b) for b in _class(et, c).bases] != ["RendererError"]:
            raise Broken(f"translator(cli): {c} is no longer a RendererError")

    trees = {k: _parse(f"{CB}/{p}") for k, p in RENDERER_MODULES.items()}
    cls_module = {"RendererC": "c_src", "RendererCHeader": "c_hdr", "RendererGo": "go", "RendererPy": "py"}
    supports: Dict[str, str] = {}
    for cname, mod in cls_module.items():
        C = _class(trees[mod], cname)
        if [ast.unparse(b) for b in C.bases] != ["Renderer[F]"]:
            raise Broken(f"translator(cli): {cname} bases changed")
        m = _method(C, "support_optimization")
        if m is None:
            supports[cname] = default_support
        else:
            b = strip_doc(m)
            if not (len(b) == 1 and isinstance(b[0], ast.Return) and ast.unparse(b[0].value) in ("True", "False")):
                fail(cname, m, "(support_optimization)")
            supports[cname] = ast.unparse(b[0].value).lower()
        if _method(C, "__init__") is not None or _method(C, "check_proto_for_optimization_mode") is not None:
            raise Broken(f"translator(cli): {cname} overrides __init__/check_proto_for_optimization_mode")
    out.append(f"Definition renderer_supports_opt (r : string) : bool :=\n  "
               + " ".join(f"if String.eqb r {cstr(c)} then {supports[c]} else" for c in cls_module) + " false.")
    lang_ctor = {"c": "LC", "go": "LGo", "py": "LPy"}
    out.append("Definition renderers_of (l : language) : list string :=\n  match l with "
               + " ".join(f"| {lang_ctor[l]} => {clist(cstr(c) for c in registry[l])}" for l in ("c", "go", "py"))
               + " end.")

    # block() of the renderers that support -O, their op-mode block lists and dispatchers
    all_readers: List[str] = []
    for mod, tree in trees.items():
        for C in [n for n in tree.body if isinstance(n, ast.ClassDef)]:
            for f in [n for n in C.body if isinstance(n, ast.FunctionDef)]:
                if any(isinstance(x, ast.Attribute) and x.attr == FILTER_ATTR for x in ast.walk(f)):
                    all_readers.append(f"{mod}:{C.name}.{f.name}")
    # nobody else in the compiler reads it (formatters, block.py helpers ...)
    other_readers = []
    for root, _, files in os.walk(os.path.join(REPO, CB)):
        for fnm in files:
            if fnm.endswith(".py"):
                rel = os.path.relpath(os.path.join(root, fnm), os.path.join(REPO, CB))
                if rel in RENDERER_MODULES.values():
                    continue
                src = open(os.path.join(root, fnm)).read()
                if FILTER_ATTR in src:
                    other_readers.append(rel)
    if sorted(other_readers) != ["_main.py", "renderer/__init__.py", "renderer/block.py", "renderer/renderer.py"]:
        raise Broken("translator(cli): the -F filter is mentioned in unexpected modules", str(sorted(other_readers)))
    blk = _parse(f"{CB}/renderer/block.py")
    for C in [n for n in blk.body if isinstance(n, ast.ClassDef)]:
        for f in [n for n in C.body if isinstance(n, ast.FunctionDef)]:
            if any(isinstance(x, ast.Attribute) and x.attr == FILTER_ATTR for x in ast.walk(f)):
                all_readers.append(f"block:{C.name}.{f.name}")
    skel["block.py:BlockBoundDefinitionDispatcher.blocks"] = skeleton_digest(
        _method(_class(blk, "BlockBoundDefinitionDispatcher"), "blocks"))  # type: ignore
    skel["block.py:BlockComposition.render"] = skeleton_digest(_method(_class(blk, "BlockComposition"), "render"))  # type: ignore
    out.append(f"Definition filter_readers : list string := {clist(cstr(r) for r in sorted(all_readers))}.")

    for mod, rcls in (("c_src", "RendererC"), ("c_hdr", "RendererCHeader"), ("go", "RendererGo")):
        tree = trees[mod]
        R = _class(tree, rcls)
        bf = _method(R, "block")
        if bf is None:
            raise Broken(f"translator(cli): {rcls}.block not found")
        dec = Dec(f"{rcls}.block", lambda e: {"self.optimization_mode": "optimization_mode"}.get(ast.unparse(e)),
                  lambda v, env: cstr(v.func.id) if isinstance(v, ast.Call) and isinstance(v.func, ast.Name)  # type: ignore
                  and not v.args else fail(f"{rcls}.block", v))  # type: ignore
        out.append(f"Definition {mod}_root_block (optimization_mode : bool) : string := " + dec.body(strip_doc(bf), {}) + ".")
        BL = _class(tree, "BlockListOpMode")
        bl = _method(BL, "blocks")
        b = strip_doc(bl) if bl else []
        if not (len(b) == 1 and isinstance(b[0], ast.Return)):
            raise Broken(f"translator(cli): {mod}: BlockListOpMode.blocks has an unexpected shape")
        names = _block_names(b[0].value, f"{mod}.BlockListOpMode")
        out.append(f"Definition {mod}_blocks_op : list string := {clist(cstr(n) for n in names)}.")
        disp_rows = []
        for nm in names:
            C = _class(tree, nm) if any(isinstance(n, ast.ClassDef) and n.name == nm for n in tree.body) else None
            if C is None:
                continue   # imported helper block (e.g. BlockAheadNotice): not a dispatcher of this module
            if [ast.unparse(x) for x in C.bases] == ["BlockBoundDefinitionDispatcher[F]"]:
                df = _method(C, "dispatch")
                if df is None or [a.arg for a in df.args.args] != ["self", "d"]:
                    raise Broken(f"translator(cli): {mod}.{nm}.dispatch not found")

                def ret(v, env, where=f"{mod}.{nm}.dispatch"):
                    if v is None or (isinstance(v, ast.Constant) and v.value is None):
                        return "None"
                    if isinstance(v, ast.Call) and isinstance(v.func, ast.Name) and [ast.unparse(a) for a in v.args] == ["d"] \
                            and not v.keywords:
                        return f"(Some {cstr(v.func.id)})"
                    fail(where, v, "(dispatch result)")

                dec = Dec(f"{mod}.{nm}.dispatch", _filter_atoms(nm, "d"), ret)
                fname = f"{mod}_dispatch_{nm}"
                out.append(f"Definition {fname} (kind : defkind) (filter_truthy name_in_filter : bool) : option string := "
                           + dec.body(strip_doc(df), {}) + ".")
                disp_rows.append(f"({cstr(nm)}, {fname})")
        out.append(f"Definition {mod}_dispatchers : list (string * (defkind -> bool -> bool -> option string)) := "
                   + clist(disp_rows) + ".")

    # Go: the per-message composite reads the filter itself
    GM = _class(trees["go"], "BlockMessageOpMode")
    gb = _method(GM, "blocks")
    if gb is None:
        raise Broken("translator(cli): go BlockMessageOpMode.blocks not found")

    lists: Dict[str, List[str]] = {}

    def effect(s: ast.stmt, env: Dict[str, ast.expr]) -> Optional[Dict[str, ast.expr]]:
        if isinstance(s, (ast.Assign, ast.AnnAssign)):
            tgt = s.targets[0] if isinstance(s, ast.Assign) else s.target
            if isinstance(tgt, ast.Name) and isinstance(s.value, ast.List):
                env2 = dict(env)
                env2[tgt.id] = s.value
                return env2
        if isinstance(s, ast.Expr) and isinstance(s.value, ast.Call) and isinstance(s.value.func, ast.Attribute) \
                and s.value.func.attr == "extend" and isinstance(s.value.func.value, ast.Name) \
                and isinstance(env.get(s.value.func.value.id), ast.List) and len(s.value.args) == 1 \
                and isinstance(s.value.args[0], ast.List):
            env2 = dict(env)
            old = env[s.value.func.value.id]
            env2[s.value.func.value.id] = ast.List(elts=list(old.elts) + list(s.value.args[0].elts), ctx=ast.Load())  # type: ignore
            return env2
        return None

    def ret_list(v, env):
        v2 = subst(v, {k: x for k, x in env.items() if isinstance(x, ast.List)})
        return clist(cstr(n) for n in _block_names(v2, "go.BlockMessageOpMode.blocks"))

    def go_atom(e: ast.expr) -> Optional[str]:
        k = ast.unparse(e)
        if k == f"self._get_ctx_or_raise().{FILTER_ATTR}":
            return "filter_truthy"
        if isinstance(e, ast.Compare) and len(e.ops) == 1 and ast.unparse(e.left) == "self.d.name" \
                and ast.unparse(e.comparators[0]) == f"self._get_ctx_or_raise().{FILTER_ATTR}":
            return "(negb name_in_filter)" if isinstance(e.ops[0], ast.NotIn) else \
                ("name_in_filter" if isinstance(e.ops[0], ast.In) else None)
        return None

    class GoDec(Dec):
        def cond(self, e, env):
            return super().cond(e, {k: v for k, v in env.items() if not isinstance(v, ast.List)})

    dec = GoDec("go.BlockMessageOpMode.blocks", go_atom, ret_list, effect=effect)
    out.append("Definition go_message_blocks_op (filter_truthy name_in_filter : bool) : list string := "
               + dec.body(strip_doc(gb), {}) + ".")
    # the unconditional composites returned by the C dispatchers
    for mod, cname in (("c_src", "BlockMessageFunctionsOpMode"), ("c_hdr", "BlockMessageFunctionDeclarationsForUserOpMode")):
        C = _class(trees[mod], cname)
        bl = _method(C, "blocks")
        b = strip_doc(bl) if bl else []
        if not (len(b) == 1 and isinstance(b[0], ast.Return)):
            raise Broken(f"translator(cli): {mod}.{cname}.blocks has an unexpected shape")
        out.append(f"Definition {mod}_message_function_blocks : list string := "
                   f"{clist(cstr(n) for n in _block_names(b[0].value, cname))}.")


# --------------------------------------------------------------------------------------

def gen_cli() -> Tuple[str, Dict[str, str]]:
    skel: Dict[str, str] = {}
    out = ["(* GENERATED by tools/translate_cli.py from compiler/bitproto/{_main,parser,lexer,linter,utils,errors}.py",
           "   and compiler/bitproto/renderer/** — do not edit *)",
           "From Coq Require Import ZArith List String Bool.",
           "From BP Require Import CliBase.",
           "Import ListNotations.",
           "Open Scope string_scope.",
           "Open Scope Z_scope.", ""]
    gen_main(out, skel)
    gen_parser(out, skel)
    gen_lexer(out, skel)
    gen_linter(out, skel)
    gen_renderers(out, skel)
    return "\n".join(out) + "\n", skel


GENERATORS = {"GenCli.v": gen_cli}


if __name__ == "__main__":
    text, skel = gen_cli()
    print(text)
    print(len(skel), "skeleton digests")
