"""pywire — the C01 / C02 harness: generated schemas x values through the real compiler and
the real Python runtime, T1 on the emitted module, and one Coq evaluation per shard in which
IMPLEMENTATION outputs, MODEL (PyRt on the emitted tables) and SPEC meet."""
from __future__ import annotations

import glob
import json
import os
import random
from typing import Any, Dict, List, Optional, Tuple

import pyside
import schema_gen as sg
from t1_py import PyT1, T1Error
from vlib import VERIF, Broken, Check, clist, coq_eval_file, parse_zlist, run_workers

ASSUME = [
    "Coq 8.16.1 kernel and its vm_compute (sweeps, witnesses, correspondence evaluation)",
    "tools/translate.py (T0) reads lib/py/bitprotolib/bp.py correctly: int(a/b) -> Z.div for 0<=a<2^53,b>0; "
    "shift counts non-negative",
    "CPython semantics of int/list/dataclass/IntEnum for the operations the generated accessors use "
    "(modelled in coq/theories/PyRt.v, validated by T2 on every run)",
    "tools/t1_py.py (T1) parses the emitted module faithfully; unknown shapes are rejected",
    "a fresh message has no aliasing between its sub-objects (default_factory creates new objects)",
]


def load_corpus(prop: str) -> List[Dict[str, Any]]:
    out = []
    for p in sorted(glob.glob(os.path.join(VERIF, "corpus", prop, "*.json"))):
        try:
            j = json.load(open(p))
            j["_path"] = p
            out.append(j)
        except Exception:
            pass
    return out


def gen_cases(ck: Check, n_schemas: int, n_values: int, params_for=None) -> List[Tuple[sg.Schema, List[Any], str]]:
    cases = []
    for i in range(n_schemas):
        rng = random.Random(f"{ck.prop}:{ck.seed}:{i}")
        params = params_for(i, rng) if params_for else default_params(i, rng)
        s = sg.Gen(rng, params).schema()
        vals = [sg.gen_value(s.top, rng, pyside.MODES[k % len(pyside.MODES)]) for k in range(n_values)]
        cases.append((s, vals, f"gen#{i}"))
    return cases


def default_params(i: int, rng) -> sg.Params:
    r = i % 10
    if r == 0:
        return sg.Params(max_bits=20000, max_leaves=600, big_prob=0.3)
    if r == 1:
        return sg.Params(max_depth=4, max_fields=8)
    if r == 2:
        return sg.Params(allow_import=False, allow_nested=False, max_fields=3, max_bits=200)
    return sg.Params()


def explain(ck: Check, s: sg.Schema, v: Any) -> Optional[List[int]]:
    """Ask Coq for Spec.wire on a failing case (for the replay file)."""
    path = os.path.join(ck.dir, f"explain_{abs(hash(json.dumps(sg.value_to_json(s.top, v), sort_keys=True))) % 10**8}.v")
    with open(path, "w") as f:
        f.write("From Coq Require Import ZArith List Bool.\nFrom BP Require Import Bits Schema Spec.\n"
                "Import ListNotations.\nOpen Scope Z_scope.\n"
                f"Eval vm_compute in (wire {s.coq_ty()} {sg.coq_val(s.top, v)}).\n")
    try:
        return parse_zlist(coq_eval_file(path, 300), path)
    except Broken:
        return None


def classify_known(ck: Check, s: sg.Schema, what: str, v: Any = None, rr: Any = None) -> Optional[str]:
    """Key of the known finding that EXPLAINS this failing case (see known_findings.jsonl):
    the schema must be in the finding's class and the observed difference must be exactly
    the one the finding predicts; anything else stays a violation."""
    for kf in ck.known:
        cls = kf.get("class", {})
        pred = KNOWN_CLASSES.get(cls.get("pred", ""))
        if pred and kf.get("status") == "known" and what in cls.get("symptoms", [what]) and pred(s.top, cls):
            expl = EXPLAINERS.get(cls.get("pred", ""))
            if expl is None or (rr is not None and expl(s.top, v, rr)):
                return kf["key"]
    return None


def enum_default_explains(top: sg.T, v: Any, rr: Dict[str, Any]) -> bool:
    """decoded tree == v except at enum leaves with nonzero first member d, where it is v|d."""
    if "dec" not in rr:
        # reading the or-ed proxy back through the IntEnum property raises ValueError when
        # v|d is not a member
        if rr.get("read_exc") != "ValueError":
            return False
        hit = [False]

        def scan(t: sg.T, a: Any) -> None:
            k = t.kind
            if k == "alias":
                scan(t.t, a)
            elif k == "arr":
                for x in a:
                    scan(t.t, x)
            elif k == "msg":
                for n, _, ft in t.fields:
                    scan(ft, a[n] if n in a else a[str(n)])
            elif k == "enum" and t.members[0][1] != 0:
                if (a | t.members[0][1]) not in [m for _, m in t.members]:
                    hit[0] = True
        scan(top, v)
        return hit[0]
    found = [False]

    def eq(t: sg.T, a: Any, b: Any) -> bool:
        k = t.kind
        if k == "alias":
            return eq(t.t, a, b)
        if k == "arr":
            return len(a) == len(b) and all(eq(t.t, x, y) for x, y in zip(a, b))
        if k == "msg":
            return all(eq(ft, a[n] if n in a else a[str(n)], b[str(n)]) for n, _, ft in t.fields)
        if k == "enum" and t.members[0][1] != 0 and a != b:
            if b == (a | t.members[0][1]):
                found[0] = True
                return True
            return False
        return a == b and type(a) == type(b) or (a == b and k != "bool")

    return eq(top, v, rr["dec"]) and found[0]


def _walk(t: sg.T):
    yield t
    if t.kind in ("alias", "arr"):
        yield from _walk(t.t)
    elif t.kind == "msg":
        for _, _, ft in t.fields:
            yield from _walk(ft)


def has_bad_ext_array(top: sg.T, cls=None) -> bool:
    """array-skip class: an extensible array whose skip target i+cap*cap lies beyond the
    bits actually consumed, 16+cap*elem_bits (decode cursor overshoots)."""
    for t in _walk(top):
        if t.kind == "arr" and t.ext and t.cap * t.cap > 16 + t.cap * t.t.nbits():
            return True
    return False


def has_enum_chunk_issue(top: sg.T, cls=None) -> bool:
    """enum-chunk class: some enum is wider than 8 bits or has a nonzero member (a partial
    chunk or an or-ed intermediate value may then be a non-member)."""
    for t in _walk(top):
        if t.kind == "enum":
            return True
    return False


def has_enum_nonzero_default(top: sg.T, cls=None) -> bool:
    for t in _walk(top):
        if t.kind == "enum" and t.members and t.members[0][1] != 0:
            return True
    return False


EXPLAINERS = {"enum_nonzero_default": enum_default_explains}

KNOWN_CLASSES = {
    "ext_array_overshoot": has_bad_ext_array,
    "enum_any": has_enum_chunk_issue,
    "enum_nonzero_default": has_enum_nonzero_default,
}


def run_py_wire(ck: Check, prop_file: str, want_decode: bool, n_quick=(120, 4), n_thorough=(1500, 8),
                params_for=None, extra_cases: Optional[List[Tuple[sg.Schema, List[Any], str]]] = None,
                guard=None) -> None:
    """guard(schema) -> False when the schema lies in a region the theorem excludes (known
    findings); such schemas go to the separate 'inside the class' stream."""
    ck.assumptions.extend(ASSUME)
    ck.coverage["trusted_base"] = ["Coq 8.16.1 kernel + vm_compute", "tools/translate.py", "tools/t1_py.py",
                                   "tools/run_py.py + CPython 3.12", "no axioms (Print Assumptions: closed)"]
    ck.try_prove(prop_file)

    ns, nv = n_quick if ck.quick else n_thorough
    cases: List[Tuple[sg.Schema, List[Any], str]] = []
    if getattr(ck, "replay_file", None):
        j = json.load(open(ck.replay_file))
        if "schema" in j and "value" in j:
            s_ = sg.schema_from_json(j["schema"])
            cases.append((s_, [sg.value_from_json(s_.top, j["value"])], "replay:" + os.path.basename(ck.replay_file)))
            ns, extra_cases, guard = 0, None, guard
    for j in ([] if getattr(ck, "replay_file", None) else load_corpus(ck.prop)):
        s = sg.schema_from_json(j["schema"])
        vals = [sg.value_from_json(s.top, v) for v in j["values"]]
        cases.append((s, vals, "corpus:" + os.path.basename(j["_path"])))
    n_corpus = len(cases)
    if extra_cases:
        cases.extend(extra_cases)
    if ns > 0 and not getattr(ck, "replay_file", None):
        import boundary_cases
        cases.extend(boundary_cases.cases(ck.seed))       # deterministic edge catalogue
    cases.extend(gen_cases(ck, ns, nv, params_for))
    if guard is not None and not getattr(ck, "replay_file", None):
        # separate small stream INSIDE the classes of the known findings
        def inside(i, rng):
            return sg.Params(enum_nonzero_first=1.0, max_fields=4)
        saved = ck.seed
        for (s_, v_, o_) in gen_cases(ck, 8 if ck.quick else 60, 2, lambda i, rng: inside(i, rng)):
            cases.append((s_, v_, o_.replace("gen#", "inside-known-class#")))

    jobs = [pyside.make_job(ck, i, s, vals) for i, (s, vals, _) in enumerate(cases)]
    results = run_workers("run_py.py", jobs, chunk=max(5, len(jobs) // 32))

    sh = pyside.Shards(ck, ck.prop.lower(), per_shard=25)
    spec_only = not ck.model_ok
    header = pyside.HEADER if not spec_only else (
        "From Coq Require Import ZArith List Bool.\nFrom BP Require Import Bits Schema Spec.\n"
        "Import ListNotations.\nOpen Scope Z_scope.\n"
        "Fixpoint zl_eqb (a b : list Z) : bool := match a, b with [], [] => true | x :: r, y :: s => (x =? y) && zl_eqb r s | _, _ => false end.\n")
    n_eval = 0
    distinct = set()
    impl_fail = 0
    t1_fail: Dict[int, str] = {}
    for i, ((s, vals, origin), r) in enumerate(zip(cases, results)):
        if "runs" not in r:
            impl_fail += 1
            err = r.get("compile_error") or r.get("import_error") or r.get("worker_error") or "?"
            ck.violation(f"the compiler/runtime could not process a valid schema: {err}",
                         {"schema": sg.schema_to_json(s), "error": err, "origin": origin,
                          "obligation": "tie T2 (implementation could not be run)"}, found_input=True)
            continue
        bl = r["bytes_length"]
        defs = f"Definition t_{i} : ty := {s.coq_ty()}.\n"
        exprs: List[str] = []
        metas: List[Any] = []
        if not spec_only:
            try:
                t1 = PyT1(r["generated"])
                p = t1.message_proc(t1.mods[s.files[0].base + "_bp"], sg.py_type_name(s, s.top, 0))
            except T1Error as e:
                t1_fail[i] = str(e)
                p = None
            if p is not None:
                defs += f"Definition p_{i} : proc := {p}.\n"
                exprs.append(f"(if proc_eqb p_{i} (proc_of (norm t_{i})) && ({bl} =? nbytes t_{i}) then 0 else 4)")
                metas.append((i, "t1", None))
        for k, (v, rr) in enumerate(zip(vals, r["runs"])):
            cv = sg.coq_val(s.top, v)
            n_eval += 1
            distinct.add((s.texts[s.main], json.dumps(sg.value_to_json(s.top, v), sort_keys=True)))
            if spec_only:
                impl = pyside.bytes_term(rr["enc"]) if "enc" in rr else "[256]"
                exprs.append(f"(if zl_eqb (wire t_{i} {cv}) {impl} then 0 else 2)")
                metas.append((i, "enc", k))
                continue
            impl = pyside.res_bytes_term(rr, "enc", "enc_exc")
            model = f"(py_encode_proc p_{i} {bl} {cv})" if f"p_{i} " in defs else f"(py_encode t_{i} {cv})"
            exprs.append(f"((if res_bytes_eqb {model} {impl} then 0 else 1) + "
                         f"(if res_bytes_eqb (Ok (wire t_{i} {cv})) {impl} then 0 else 2))")
            metas.append((i, "enc", k))
            if want_decode and "enc" in rr and "read_exc" in rr:
                # decode() returned but a field of the decoded message raises when read
                exprs.append("2")
                metas.append((i, "dec", k))
            elif want_decode and "enc" in rr:
                if "dec" in rr:
                    dv = f"(Ok {pyside.val_from_impl(s.top, rr['dec'])})"
                else:
                    dv = f"(Raise {pyside.exn_term(rr.get('dec_exc', '?'))})"
                dmodel = (f"(py_decode_proc p_{i} {bl} (py_default (norm t_{i})) {pyside.bytes_term(rr['enc'])})"
                          if f"p_{i} " in defs else f"(py_decode t_{i} {pyside.bytes_term(rr['enc'])})")
                # bit0: model != impl ; bit1: impl decode != original value (the property)
                exprs.append(f"((if res_val_sim t_{i} {dmodel} {dv} then 0 else 1) + "
                             f"(if res_val_sim t_{i} (Ok {cv}) {dv} then 0 else 2))")
                metas.append((i, "dec", k))
                if "reenc" in rr or "reenc_exc" in rr:
                    re_impl = pyside.res_bytes_term(rr, "reenc", "reenc_exc")
                    exprs.append(f"(if res_bytes_eqb (Ok (wire t_{i} {cv})) {re_impl} then 0 else 2)")
                    metas.append((i, "reenc", k))
        sh.add(defs, exprs, metas)

    out = sh.run(header=header)
    counts: Dict[str, int] = {}
    n_tie_mismatch = 0
    n_spec_mismatch = 0
    for (i, kind, k), code in out:
        counts[f"{kind}:{code}"] = counts.get(f"{kind}:{code}", 0) + 1
        if code == 0:
            continue
        s, vals, origin = cases[i]
        r = results[i]
        if kind == "t1":
            n_tie_mismatch += 1
            t1_fail.setdefault(i, "emitted processor tree / accessor tables / BYTES_LENGTH differ from the model renderer")
            continue
        v = vals[k]
        rr = r["runs"][k]
        if code & 2:
            n_spec_mismatch += 1
            what = {"enc": "encode() bytes differ from the specification",
                    "dec": "decode(encode(v)) differs from v" if "dec" in rr else
                           (f"decode(encode(v)) raised {rr.get('dec_exc')}" if "dec_exc" in rr else
                            f"reading the decoded message raised {rr.get('read_exc')}"),
                    "reenc": "re-encoding the decoded message does not reproduce the bytes"}[kind]
            key = classify_known(ck, s, kind, v, rr) if (guard is not None) else None
            replay = {"schema": sg.schema_to_json(s), "value": sg.value_to_json(s.top, v),
                      "observed": {kk: rr.get(kk) for kk in ("enc", "enc_exc", "dec", "dec_exc", "read_exc", "reenc", "reenc_exc")},
                      "origin": origin, "stage": kind}
            if key is None and len([x for x in ck.violations if x["found_input"]]) < 3:
                replay["specified_wire"] = explain(ck, s, v)
            ck.violation(what, replay, found_input=True, key=key)
        elif code & 1:
            n_tie_mismatch += 1
            ck.broken(Broken(f"tie T2: the model (PyRt) and the implementation disagree on {kind} "
                             f"(schema {origin}, value #{k}) although the implementation agrees with the specification",
                             json.dumps({"schema": s.texts, "value": sg.value_to_json(s.top, v)})[:2000]))
    for i, msg in t1_fail.items():
        s, vals, origin = cases[i]
        ck.broken(Broken(f"tie T1 (emitted Python vs model renderer) on schema {origin}: {msg}",
                         json.dumps(s.texts)[:2000]))
        if len(t1_fail) > 3:
            break

    cov = ck.coverage
    cov["evaluations"] = n_eval
    cov["distinct_nontrivial"] = len([1 for (txt, val) in distinct if len(val) > 8])
    cov["rule"] = ("schemas from tools/schema_gen.py (resolved tree first: nesting, aliases, enums, imports, "
                   "extensible markers, permuted field numbers, widths weighted to 1,7,8,9,15,16,17,31,32,33,63,64) x "
                   "values in modes random/max/min/zero/ones; a case is (main schema text, value tree); distinct = "
                   "distinct pairs, non-trivial = value tree with at least one field")
    cov["tie"] = {**cov.get("tie", {}), "schemas": len(cases), "corpus": n_corpus, "t1_checked": len(cases) - impl_fail,
                  "codes": counts, "tie_mismatches": n_tie_mismatch, "spec_mismatches": n_spec_mismatch,
                  "impl_failures": impl_fail}
    cov["distribution"] = sg.distribution([c[0] for c in cases])
    for (s, vals, origin), r in list(zip(cases, results))[:2]:
        if "runs" in r and vals:
            cov["samples"].append({"schema": s.texts, "value": sg.value_to_json(s.top, vals[0]),
                                   "implementation_bytes": bytes(r["runs"][0].get("enc", [])).hex(),
                                   "origin": origin})
