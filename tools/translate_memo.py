"""translate_memo — tie T0 for C18: regenerate coq/gen/GenMemo.v from the CURRENT source of
compiler/bitproto/{utils,_ast}.py (memoisation and freeze machinery) and scan the generator
(_ast.py, utils.py, options.py, renderer/**) plus the front end for impure decision inputs.

What is translated (symbolically executed into Gallina boolean decision trees):
  * _ast.cache_if_frozen_condition              -> cache_if_frozen_condition
  * utils.conditional_cache ... decorated       -> conditional_cache_uses_cache (+ the facts that
        the memoised function is created ONCE per decorated function and is called with the
        unchanged `*args, **kwargs`, i.e. the key holds the node object itself)
  * utils.frozen: freeze / __setattr__ / __delattr__ -> frozen_{freeze,setattr,delattr}_raises
  * _ast.Scope.push_member (guard)              -> push_member_raises
  * utils.safe_hash.__hash__                    -> safe_hash_key (identity key)
  * _ast._ENABLE_CACHE_ON_AST_FROZEN            -> enable_cache_on_ast_frozen
Tables (checked by decision procedures proved in props/C18.v):
  * ast_classes     : every class of _ast.py with its decorator stack
  * cached_methods  : every @cache_if_frozen / @cache method with the attributes of `self` it reads
  * impure_sites    : every syntactic source of process-level input in the generator
  * mutable_globals : module-/class-level mutable containers, `global` statements, mutable defaults
Everything not recognised raises vlib.Broken (fail closed).  The remaining control skeletons
(the whole of `frozen`, `conditional_cache`, `cached_property.__get__`, Node.__post_freeze__ ...)
are pinned by AST digests in coq/ref/skeletons_memo.json.
"""
from __future__ import annotations

import ast
import os
from typing import Dict, List, Optional, Tuple

from translate import skeleton_digest
from vlib import REPO, Broken

COMPILER = "compiler/bitproto"
LAST_TABLES: Dict[str, list] = {}


def _read(rel: str) -> Tuple[str, ast.Module]:
    path = os.path.join(REPO, rel)
    try:
        src = open(path).read()
    except OSError as e:
        raise Broken(f"translator(memo): cannot read {rel}", str(e))
    try:
        return src, ast.parse(src)
    except SyntaxError as e:
        raise Broken(f"translator(memo): {rel} does not parse", str(e))


def _find(scope: List[ast.stmt], name: str, what: str) -> ast.FunctionDef:
    found = [n for n in scope if isinstance(n, ast.FunctionDef) and n.name == name
             and not any(ast.unparse(d) == "overload" for d in n.decorator_list)]
    if len(found) == 1:
        return found[0]
    raise Broken(f"translator(memo): function {what} not found exactly once ({len(found)})")


def _cls(tree: ast.Module, name: str) -> ast.ClassDef:
    for n in tree.body:
        if isinstance(n, ast.ClassDef) and n.name == name:
            return n
    raise Broken(f"translator(memo): class {name} not found")


def _nodoc(body: List[ast.stmt]) -> List[ast.stmt]:
    return [s for s in body if not (isinstance(s, ast.Expr) and isinstance(s.value, ast.Constant)
                                    and isinstance(s.value.value, str))]


class BoolTr:
    """Symbolic execution of a straight-line decision function into a Gallina bool.
    `atoms` maps ast.unparse(expr) -> Gallina boolean variable; `aliases` are local names
    bound to recognised expressions; `leaf(stmt)` turns a terminal statement into a term."""

    def __init__(self, fname: str, atoms: Dict[str, str]):
        self.fname = fname
        self.atoms = dict(atoms)

    def fail(self, node: ast.AST, why: str = "") -> None:
        raise Broken(f"translator(memo): {self.fname}: unsupported construct {why}", ast.dump(node)[:300])

    def b(self, e: ast.expr) -> str:
        key = ast.unparse(e)
        if key in self.atoms:
            return self.atoms[key]
        if isinstance(e, ast.Constant) and isinstance(e.value, bool):
            return "true" if e.value else "false"
        if isinstance(e, ast.UnaryOp) and isinstance(e.op, ast.Not):
            return f"(negb {self.b(e.operand)})"
        if isinstance(e, ast.BoolOp):
            op = " && " if isinstance(e.op, ast.And) else " || "
            return "(" + op.join(self.b(v) for v in e.values) + ")"
        self.fail(e, "(boolean position)")
        return ""

    def body(self, stmts: List[ast.stmt], leaf, fall: Optional[str] = None) -> str:
        stmts = _nodoc(stmts)
        if not stmts:
            if fall is None:
                raise Broken(f"translator(memo): {self.fname}: a path falls off the end")
            return fall
        s, rest = stmts[0], stmts[1:]
        if isinstance(s, ast.If):
            return (f"(if {self.b(s.test)} then {self.body(s.body + rest, leaf, fall)} "
                    f"else {self.body(s.orelse + rest, leaf, fall)})")
        t = leaf(s, rest)
        if t is not None:
            return t
        self.fail(s)
        return ""


# --------------------------------------------------------------------------------------
# purity scan
# --------------------------------------------------------------------------------------

IMPURE_ATTR_PREFIX = (
    "os.getcwd", "os.getcwdb", "os.environ", "os.getenv", "os.getpid", "os.getppid", "os.listdir",
    "os.scandir", "os.walk", "os.urandom", "os.path.abspath", "os.path.realpath", "os.path.expanduser",
    "os.path.getmtime", "os.path.getctime", "os.path.getsize", "os.path.isfile", "os.path.isdir",
    "os.path.exists", "os.path.lexists", "os.path.islink", "os.path.samefile", "os.access", "os.readlink",
    "os.lstat", "os.stat", "os.uname", "pathlib.", "os.getlogin", "sys.argv", "sys.flags", "sys.hash_info",
    "sys.path", "sys.platform", "sys.executable", "time.", "datetime.", "random.", "uuid.", "socket.",
    "platform.", "locale.", "glob.", "tempfile.", "getpass.", "threading.", "secrets.", "gc.",
)
IMPURE_CALLS = ("id", "hash", "set", "frozenset", "globals", "locals", "vars", "dir", "input", "open",
                "__import__", "eval", "exec")
IMPURE_IMPORTS = ("time", "datetime", "random", "uuid", "socket", "platform", "locale", "glob", "tempfile",
                  "getpass", "threading", "secrets", "gc", "subprocess", "multiprocessing", "weakref",
                  "atexit", "pickle", "shelve", "sqlite3")
GENERATOR_FILES_FIXED = ("_ast.py", "utils.py", "options.py")
FRONTEND_FILES = ("parser.py", "lexer.py", "linter.py", "errors.py", "_main.py", "grammars.py", "__init__.py")


def _py_files_under(rel: str) -> List[str]:
    out = []
    base = os.path.join(REPO, rel)
    for d, _dirs, files in sorted(os.walk(base)):
        for f in sorted(files):
            if f.endswith(".py"):
                out.append(os.path.relpath(os.path.join(d, f), os.path.join(REPO, COMPILER)))
    return sorted(out)


class _Scan(ast.NodeVisitor):
    def __init__(self, rel: str):
        self.rel = rel
        self.stack: List[str] = []
        self.sites: List[Tuple[str, str]] = []
        self.mut: List[Tuple[str, str]] = []

    def where(self) -> str:
        return self.rel + ":" + (".".join(self.stack) if self.stack else "<module>")

    def add(self, what: str) -> None:
        item = (self.where(), what)
        if item not in self.sites:
            self.sites.append(item)

    def addm(self, what: str) -> None:
        item = (self.where(), what)
        if item not in self.mut:
            self.mut.append(item)

    # ---- structure ----
    def visit_ClassDef(self, n: ast.ClassDef) -> None:
        self.stack.append(n.name)
        for s in n.body:
            self._container_assign(s, "class")
        self.generic_visit(n)
        self.stack.pop()

    def _func(self, n) -> None:
        for d in list(n.args.defaults) + [k for k in n.args.kw_defaults if k is not None]:
            if _is_mutable_display(d):
                self.stack.append(n.name)
                self.addm("mutable default argument")
                self.stack.pop()
        self.stack.append(n.name)
        self.generic_visit(n)
        self.stack.pop()

    visit_FunctionDef = _func
    visit_AsyncFunctionDef = _func

    def visit_Module(self, n: ast.Module) -> None:
        local_classes = {c.name for c in n.body if isinstance(c, ast.ClassDef)}
        for s in n.body:
            self._container_assign(s, "module")
            # a module-level INSTANCE of a class of this module is an object shared by all compilations
            tgt = val = None
            if isinstance(s, ast.Assign) and len(s.targets) == 1 and isinstance(s.targets[0], ast.Name):
                tgt, val = s.targets[0].id, s.value
            elif isinstance(s, ast.AnnAssign) and isinstance(s.target, ast.Name) and s.value is not None:
                tgt, val = s.target.id, s.value
            if tgt and isinstance(val, ast.Call) and isinstance(val.func, ast.Name) and val.func.id in local_classes:
                self.addm(f"module-level instance {tgt} = {val.func.id}(...)")
        self.generic_visit(n)

    def _container_assign(self, s: ast.stmt, level: str) -> None:
        tgt = None
        val = None
        if isinstance(s, ast.Assign) and len(s.targets) == 1 and isinstance(s.targets[0], ast.Name):
            tgt, val = s.targets[0].id, s.value
        elif isinstance(s, ast.AnnAssign) and isinstance(s.target, ast.Name) and s.value is not None:
            tgt, val = s.target.id, s.value
        if tgt is not None and _is_mutable_display(val):
            self.addm(f"{level}-level mutable container {tgt}")

    def visit_Global(self, n: ast.Global) -> None:
        self.addm("global " + ",".join(n.names))

    def visit_Nonlocal(self, n: ast.Nonlocal) -> None:
        self.addm("nonlocal " + ",".join(n.names))

    # ---- impure inputs ----
    def visit_Import(self, n: ast.Import) -> None:
        for a in n.names:
            if a.name.split(".")[0] in IMPURE_IMPORTS:
                self.add("import " + a.name)

    def visit_ImportFrom(self, n: ast.ImportFrom) -> None:
        if (n.module or "").split(".")[0] in IMPURE_IMPORTS:
            self.add("import " + (n.module or ""))

    def visit_Attribute(self, n: ast.Attribute) -> None:
        try:
            key = ast.unparse(n)
        except Exception:
            key = ""
        hit = False
        for p in IMPURE_ATTR_PREFIX:
            if key == p or (p.endswith(".") and key.startswith(p)) or key.startswith(p + "."):
                self.add(key)
                hit = True
                break
        if not hit and n.attr == "filepath" and isinstance(n.ctx, ast.Load):
            self.add("read .filepath")
        if not hit:
            self.generic_visit(n)

    def visit_Call(self, n: ast.Call) -> None:
        if isinstance(n.func, ast.Name) and n.func.id in IMPURE_CALLS:
            if n.func.id == "open":
                # writing the output is the compiler's job; READING a file is an input
                mode = None
                if len(n.args) >= 2 and isinstance(n.args[1], ast.Constant):
                    mode = n.args[1].value
                for k in n.keywords:
                    if k.arg == "mode" and isinstance(k.value, ast.Constant):
                        mode = k.value.value
                self.add("open(w)" if mode in ("w", "wb") else "open(read)")
            else:
                self.add(n.func.id + "()")
        self.generic_visit(n)

    def visit_Compare(self, n: ast.Compare) -> None:
        self.visit(n.left)
        for o, c in zip(n.ops, n.comparators):
            if isinstance(o, (ast.In, ast.NotIn)) and isinstance(c, ast.Set):
                for e in c.elts:            # membership test in a literal set: order never observed
                    self.visit(e)
            else:
                self.visit(c)

    def visit_Set(self, n: ast.Set) -> None:
        self.add("set display")
        self.generic_visit(n)

    def visit_SetComp(self, n: ast.SetComp) -> None:
        self.add("set comprehension")
        self.generic_visit(n)


def _is_mutable_display(v: Optional[ast.expr]) -> bool:
    if v is None:
        return False
    if isinstance(v, (ast.List, ast.Dict, ast.Set, ast.ListComp, ast.DictComp, ast.SetComp)):
        return True
    if isinstance(v, ast.Call) and isinstance(v.func, ast.Name) and v.func.id in (
            "list", "dict", "set", "dict_", "OrderedDict", "defaultdict", "deque", "bytearray", "Counter"):
        return True
    return False



def _direct_reads(m: ast.FunctionDef) -> set:
    """Attributes of `self` read in the body of m: 'a' for self.a, and 'a.b' for self.a.b /
    'a[]' for self.a[...] (a dereference of what the attribute points to)."""
    reads = set()
    selfname = m.args.args[0].arg if m.args.args else ""
    if not selfname:
        return reads

    def is_self_attr(x: ast.AST) -> Optional[str]:
        if isinstance(x, ast.Attribute) and isinstance(x.value, ast.Name) and x.value.id == selfname:
            return x.attr
        return None

    for x in ast.walk(m):
        a = is_self_attr(x)
        if a is not None:
            reads.add(a)
        if isinstance(x, ast.Attribute):
            a2 = is_self_attr(x.value)
            if a2 is not None:
                reads.add(a2 + "." + x.attr)
        if isinstance(x, ast.Subscript):
            a2 = is_self_attr(x.value)
            if a2 is not None:
                reads.add(a2 + "[]")
        if isinstance(x, (ast.For, ast.comprehension)):
            a2 = is_self_attr(x.iter)
            if a2 is not None:
                reads.add(a2 + "[]")
        if isinstance(x, ast.Call) and isinstance(x.func, ast.Name) and x.func.id == "getattr" \
                and len(x.args) >= 2 and isinstance(x.args[0], ast.Name) and x.args[0].id == selfname:
            if isinstance(x.args[1], ast.Constant) and isinstance(x.args[1].value, str):
                reads.add(x.args[1].value)
            else:
                reads.add("<dynamic getattr>")
        if isinstance(x, ast.Call) and isinstance(x.func, ast.Name) and x.func.id in ("vars", "dir"):
            reads.add("<dynamic getattr>")
        if isinstance(x, ast.Attribute) and x.attr == "__dict__":
            reads.add("<dynamic getattr>")
    return reads


def _closure_reads(astm: ast.Module, m: ast.FunctionDef) -> set:
    """Reads of m, closed under calls/uses of methods and properties of _ast.py classes through
    `self` (resolved by NAME over all classes: an over-approximation)."""
    by_name: Dict[str, List[ast.FunctionDef]] = {}
    for c in astm.body:
        if isinstance(c, ast.ClassDef):
            for f in c.body:
                if isinstance(f, ast.FunctionDef):
                    by_name.setdefault(f.name, []).append(f)
    seen = set()
    todo = [m]
    reads = set()
    while todo:
        f = todo.pop()
        if id(f) in seen:
            continue
        seen.add(id(f))
        r = _direct_reads(f)
        reads |= r
        for a in r:
            for g in by_name.get(a.split(".")[0].rstrip("[]"), []):
                todo.append(g)
    return reads


def _cstr(s: str) -> str:
    return '"' + s.replace('"', '""') + '"'


def _pairs(items: List[Tuple[str, str]]) -> str:
    if not items:
        return "[]"
    return "[\n  " + ";\n  ".join(f"({_cstr(a)}, {_cstr(b)})" for a, b in items) + "\n]"


# --------------------------------------------------------------------------------------
# the generator
# --------------------------------------------------------------------------------------

def gen_memo() -> Tuple[str, Dict[str, str]]:
    skel: Dict[str, str] = {}
    out = ["(* GENERATED by tools/translate_memo.py from compiler/bitproto/{utils,_ast}.py and a scan of",
           "   compiler/bitproto — do not edit *)",
           "From Coq Require Import Bool List String ZArith.", "Import ListNotations.",
           "Open Scope string_scope.", ""]

    _usrc, utils = _read(f"{COMPILER}/utils.py")
    _asrc, astm = _read(f"{COMPILER}/_ast.py")

    # ---- _ENABLE_CACHE_ON_AST_FROZEN -------------------------------------------------
    flag = None
    for n in astm.body:
        if isinstance(n, ast.Assign) and len(n.targets) == 1 and isinstance(n.targets[0], ast.Name) \
                and n.targets[0].id == "_ENABLE_CACHE_ON_AST_FROZEN":
            if flag is not None or not (isinstance(n.value, ast.Constant) and isinstance(n.value.value, bool)):
                raise Broken("translator(memo): _ENABLE_CACHE_ON_AST_FROZEN is not one boolean literal")
            flag = n.value.value
    for n in ast.walk(astm):
        if isinstance(n, (ast.Global,)) and "_ENABLE_CACHE_ON_AST_FROZEN" in n.names:
            raise Broken("translator(memo): _ENABLE_CACHE_ON_AST_FROZEN is rebound at run time (global)")
    if flag is None:
        raise Broken("translator(memo): _ENABLE_CACHE_ON_AST_FROZEN not found")
    out.append(f"Definition enable_cache_on_ast_frozen : bool := {'true' if flag else 'false'}.")

    # ---- cache_if_frozen_condition ----------------------------------------------------
    fn = _find(astm.body, "cache_if_frozen_condition", "_ast.cache_if_frozen_condition")
    params = [a.arg for a in fn.args.args]
    if params != ["func", "args", "kwargs"] or fn.args.vararg or fn.args.kwarg:
        raise Broken("translator(memo): cache_if_frozen_condition: unexpected parameters", str(params))
    tr = BoolTr("cache_if_frozen_condition", {
        "_ENABLE_CACHE_ON_AST_FROZEN": "enable", "args": "args_nonempty",
    })

    def leaf_cond(s: ast.stmt, rest: List[ast.stmt]) -> Optional[str]:
        if isinstance(s, ast.Return) and s.value is not None:
            return tr.b(s.value)
        if isinstance(s, ast.Assign) and len(s.targets) == 1 and isinstance(s.targets[0], ast.Name) \
                and s.targets[0].id == "self" and ast.unparse(s.value) == "args[0]":
            # from here on `self` is the first positional argument
            tr.atoms.update({
                "self": "self_truthy", "isinstance(self, Node)": "self_is_node",
                "getattr(self, '__frozen__', False)": "self_frozen", "self.__frozen__": "self_frozen",
                "self.is_frozen()": "self_frozen",
            })
            return tr.body(rest, leaf_cond)
        return None

    cond = tr.body(fn.body, leaf_cond)
    out.append("Definition cache_if_frozen_condition (enable args_nonempty self_truthy self_is_node self_frozen : bool)"
               f" : bool :=\n  {cond}.")

    # cache_if_frozen = conditional_cache(cache_if_frozen_condition)
    ok = False
    for n in astm.body:
        if isinstance(n, ast.Assign) and len(n.targets) == 1 and isinstance(n.targets[0], ast.Name) \
                and n.targets[0].id == "cache_if_frozen":
            if ast.unparse(n.value) != "conditional_cache(cache_if_frozen_condition)":
                raise Broken("translator(memo): cache_if_frozen is not conditional_cache(cache_if_frozen_condition)",
                             ast.unparse(n.value))
            ok = True
    if not ok:
        raise Broken("translator(memo): cache_if_frozen not found")

    # ---- conditional_cache ------------------------------------------------------------------
    cc = _find(utils.body, "conditional_cache", "utils.conditional_cache")
    if [a.arg for a in cc.args.args] != ["condition"]:
        raise Broken("translator(memo): conditional_cache: unexpected parameters")
    dec = _find(cc.body, "decorator", "conditional_cache.decorator")
    if [a.arg for a in dec.args.args] != ["user_function"]:
        raise Broken("translator(memo): conditional_cache.decorator: unexpected parameters")
    # the memoised function is created once, in `decorator`, not per call
    created = [s for s in _nodoc(dec.body) if isinstance(s, ast.Assign) and len(s.targets) == 1
               and isinstance(s.targets[0], ast.Name) and s.targets[0].id == "cache_decorated_function"]
    if len(created) != 1 or ast.unparse(created[0].value) not in ("cast(F, cache(user_function))",
                                                                  "cache(user_function)"):
        raise Broken("translator(memo): conditional_cache.decorator: `cache_decorated_function = cache(user_function)` "
                     "not found exactly once at decorator level")
    inner = _find(dec.body, "decorated", "conditional_cache.decorator.decorated")
    if inner.args.args or not inner.args.vararg or inner.args.vararg.arg != "args" or not inner.args.kwarg \
            or inner.args.kwarg.arg != "kwargs":
        raise Broken("translator(memo): conditional_cache...decorated: signature is not (*args, **kwargs)")
    for n in ast.walk(inner):
        if isinstance(n, ast.Name) and n.id == "cache" or (isinstance(n, ast.Name) and n.id == "lru_cache"):
            raise Broken("translator(memo): conditional_cache...decorated creates a cache per call")
    tr2 = BoolTr("conditional_cache.decorated", {"condition(user_function, args, kwargs)": "cond_holds"})
    key_holds_object = [True]

    def leaf_cc(s: ast.stmt, rest: List[ast.stmt]) -> Optional[str]:
        if isinstance(s, ast.Return) and s.value is not None:
            u = ast.unparse(s.value)
            if u == "user_function(*args, **kwargs)":
                return "false"
            if u == "cache_decorated_function(*args, **kwargs)":
                return "true"
            if isinstance(s.value, ast.Call) and ast.unparse(s.value.func) == "cache_decorated_function":
                key_holds_object[0] = False      # some other key construction: not recognised
                tr2.fail(s, "(memoised function is not called with *args, **kwargs)")
        return None

    uses = tr2.body(inner.body, leaf_cc)
    out.append(f"Definition conditional_cache_uses_cache (cond_holds : bool) : bool :=\n  {uses}.")
    out.append("(* the memoised function receives the unchanged `*args, **kwargs`: the key of functools.cache holds\n"
               "   the node OBJECT (a strong reference), not a number derived from it *)")
    out.append(f"Definition cache_key_holds_object : bool := {'true' if key_holds_object[0] else 'false'}.")
    # `cache` is functools.cache / lru_cache(maxsize=None)-like: pinned by digest of the import block
    cache_defs = [n for n in utils.body if isinstance(n, ast.If) and "cache" in ast.unparse(n)
                  and "TYPE_CHECKING" in ast.unparse(n.test)]
    if len(cache_defs) != 1:
        raise Broken("translator(memo): utils.py: the `cache` import block (TYPE_CHECKING ... functools.cache) not found")
    skel["utils.py:cache-import-block"] = ast.dump(cache_defs[0])
    skel["utils.py:conditional_cache"] = skeleton_digest(cc)

    # ---- frozen --------------------------------------------------------------------------------
    fr = _find(utils.body, "frozen", "utils.frozen")
    wrap = _find(fr.body, "wrap", "frozen.wrap")
    fz = _find(wrap.body, "freeze", "frozen.wrap.freeze")
    sa = _find(wrap.body, "__setattr__", "frozen.wrap.__setattr__")
    da = _find(wrap.body, "__delattr__", "frozen.wrap.__delattr__")

    def raises_tree(fn_: ast.FunctionDef, selfname: str, allowed_tail) -> str:
        t = BoolTr(f"frozen.{fn_.name}", {f"getattr({selfname}, '__frozen__', False)": "is_frozen"})

        def leaf(s: ast.stmt, rest: List[ast.stmt]) -> Optional[str]:
            if isinstance(s, ast.Raise):
                if s.exc is None or not ast.unparse(s.exc).startswith("AttributeError("):
                    t.fail(s, "(raise of something else than AttributeError)")
                return "true"
            if allowed_tail(s):
                return t.body(rest, leaf, fall="false")
            return None

        return t.body(fn_.body, leaf, fall="false")

    def tail_freeze(s: ast.stmt) -> bool:
        u = ast.unparse(s)
        return u == "setattr(class_self, '__frozen__', True)" or u.startswith("if hasattr(class_self, '__post_freeze__')")

    # freeze: the If on __post_freeze__ is an effect, not a decision about raising: handle it as a tail stmt
    def freeze_tree() -> str:
        t = BoolTr("frozen.freeze", {"getattr(class_self, '__frozen__', False)": "is_frozen"})
        body = _nodoc(fz.body)
        if len(body) != 3:
            t.fail(fz, "(freeze is not [guard; set flag; post_freeze hook])")
        g, setf, hook = body
        if not (isinstance(g, ast.If) and not g.orelse and len(g.body) == 1 and isinstance(g.body[0], ast.Raise)
                and ast.unparse(g.body[0].exc).startswith("AttributeError(")):
            t.fail(g, "(freeze guard)")
        if ast.unparse(setf) != "setattr(class_self, '__frozen__', True)":
            t.fail(setf, "(freeze does not set __frozen__ = True)")
        if not ast.unparse(hook).startswith("if hasattr(class_self, '__post_freeze__')"):
            t.fail(hook, "(freeze post hook)")
        return f"(if {t.b(g.test)} then true else false)"

    out.append(f"Definition frozen_freeze_raises (is_frozen : bool) : bool :=\n  {freeze_tree()}.")

    def tail_setattr(s: ast.stmt) -> bool:
        return ast.unparse(s) == "object.__setattr__(self, name, value)"

    def tail_delattr(s: ast.stmt) -> bool:
        return ast.unparse(s) == "object.__delattr__(self, name)"

    out.append(f"Definition frozen_setattr_raises (is_frozen : bool) : bool :=\n  {raises_tree(sa, 'self', tail_setattr)}.")
    out.append(f"Definition frozen_delattr_raises (is_frozen : bool) : bool :=\n  {raises_tree(da, 'self', tail_delattr)}.")
    # the class gets these installed: setattr(class_, "__setattr__", __setattr__) etc.
    installs = {ast.unparse(s) for s in _nodoc(wrap.body) if isinstance(s, ast.Expr)}
    for need in ("setattr(class_, '__frozen__', False)", "setattr(class_, 'freeze', freeze)",
                 "setattr(class_, '__setattr__', __setattr__)", "setattr(class_, '__delattr__', __delattr__)"):
        if need not in installs:
            raise Broken(f"translator(memo): frozen.wrap does not install: {need}")
    skel["utils.py:frozen"] = skeleton_digest(fr)

    # ---- safe_hash -----------------------------------------------------------------------------
    sh = _find(utils.body, "safe_hash", "utils.safe_hash")
    hh = _find(sh.body, "__hash__", "safe_hash.__hash__")
    hb = _nodoc(hh.body)
    if len(hb) != 1 or not isinstance(hb[0], ast.Return) or \
            ast.unparse(hb[0].value) != "hash('__safe_hash__id__{0}'.format(id(self)))":
        raise Broken("translator(memo): safe_hash.__hash__ is not hash('__safe_hash__id__{0}'.format(id(self)))",
                     ast.unparse(hh))
    out.append("(* safe_hash.__hash__ = hash(\"__safe_hash__id__{0}\".format(id(self))): str.format of an int is\n"
               "   injective; the key of a node in a memo table is its identity *)")
    out.append("Definition safe_hash_key (id : Z) : Z := id.")
    skel["utils.py:safe_hash"] = skeleton_digest(sh)
    skel["utils.py:cached_property.__get__"] = skeleton_digest(_find(_cls(utils, "cached_property").body, "__get__",
                                                                    "cached_property.__get__"))

    # ---- Scope.push_member guard, Node.is_frozen, Node.__post_freeze__ --------------------------------
    scope = _cls(astm, "Scope")
    pm = _find(scope.body, "push_member", "Scope.push_member")
    pmb = _nodoc(pm.body)
    g = pmb[0] if pmb else None
    if not (isinstance(g, ast.If) and ast.unparse(g.test) == "self.is_frozen()" and not g.orelse
            and len(g.body) == 1 and isinstance(g.body[0], ast.Raise)):
        raise Broken("translator(memo): Scope.push_member does not start with `if self.is_frozen(): raise ...`")
    if ast.unparse(pmb[-1]) != "self.members[name] = member":
        raise Broken("translator(memo): Scope.push_member does not end with self.members[name] = member")
    out.append("Definition push_member_raises (is_frozen : bool) : bool :=\n  (if is_frozen then true else false).")
    skel["_ast.py:Scope.push_member"] = skeleton_digest(pm)
    node = _cls(astm, "Node")
    isf = _nodoc(_find(node.body, "is_frozen", "Node.is_frozen").body)
    if len(isf) != 1 or ast.unparse(isf[0]) != "return self.__frozen__":
        raise Broken("translator(memo): Node.is_frozen is not `return self.__frozen__`")
    skel["_ast.py:Node.__post_freeze__"] = skeleton_digest(_find(node.body, "__post_freeze__", "Node.__post_freeze__"))


    # ---- import resolution: which directory a relative import is resolved against ---------------------
    _psrc, parser_t = _read(f"{COMPILER}/parser.py")
    pcls = _cls(parser_t, "Parser")
    gcf = _find(pcls.body, "_get_child_filepath", "Parser._get_child_filepath")
    if [a.arg for a in gcf.args.args] != ["self", "importing_path"]:
        raise Broken("translator(memo): Parser._get_child_filepath: unexpected parameters")

    def sym(e: ast.expr, env: Dict[str, str]) -> str:
        u = ast.unparse(e)
        if isinstance(e, ast.Name) and e.id in env:
            return env[e.id]
        if u == "self.current_filepath()":
            return "FILE"
        if u == "os.getcwd()":
            return "CWD"
        if isinstance(e, ast.Call) and ast.unparse(e.func) == "os.path.dirname" and len(e.args) == 1 \
                and sym(e.args[0], env) == "FILE":
            return "DIR_OF_FILE"
        raise Broken("translator(memo): Parser._get_child_filepath: import resolution uses something else than the import path, "
                     "the importing file's directory, or the cwd when a string is parsed", u)

    def ret_code(e: ast.expr, env: Dict[str, str]) -> str:
        if isinstance(e, ast.Name) and env.get(e.id) == "PATH":
            return "0%Z"
        if isinstance(e, ast.Call) and ast.unparse(e.func) == "os.path.join" and len(e.args) == 2 \
                and isinstance(e.args[1], ast.Name) and env.get(e.args[1].id) == "PATH":
            base = sym(e.args[0], env)
            if base == "DIR_OF_FILE":
                return "1%Z"
            if base == "CWD":
                return "2%Z"
        raise Broken("translator(memo): Parser._get_child_filepath: unsupported return value", ast.unparse(e))

    def cond(e: ast.expr, env: Dict[str, str]) -> str:
        u = ast.unparse(e)
        if u == "os.path.isabs(importing_path)":
            return "is_abs"
        if isinstance(e, ast.Name) and env.get(e.id) == "FILE":
            return "parsing_a_file"
        if isinstance(e, ast.UnaryOp) and isinstance(e.op, ast.Not):
            return f"(negb {cond(e.operand, env)})"
        raise Broken("translator(memo): Parser._get_child_filepath: unsupported condition "
                     "(only isabs(importing_path) and the truth of the current file path may decide)", u)

    def walk_gcf(stmts: List[ast.stmt], env: Dict[str, str]) -> str:
        stmts = _nodoc(stmts)
        if not stmts:
            raise Broken("translator(memo): Parser._get_child_filepath: a path falls off the end")
        st, rest = stmts[0], stmts[1:]
        if isinstance(st, ast.Return) and st.value is not None:
            return ret_code(st.value, env)
        if isinstance(st, (ast.Assign, ast.AnnAssign)):
            tgt = st.targets[0] if isinstance(st, ast.Assign) else st.target
            if isinstance(tgt, ast.Name) and st.value is not None:
                env2 = dict(env)
                env2[tgt.id] = sym(st.value, env)
                return walk_gcf(rest, env2)
        if isinstance(st, ast.If):
            return (f"(if {cond(st.test, env)} then {walk_gcf(st.body + rest, env)} "
                    f"else {walk_gcf(st.orelse + rest, env)})")
        raise Broken("translator(memo): Parser._get_child_filepath: unsupported statement", ast.dump(st)[:300])

    out.append("(* Parser._get_child_filepath: 0 = the import path as written (absolute), 1 = relative to the directory of\n"
               "   the importing file, 2 = relative to the working directory *)")
    out.append("Definition import_base (is_abs parsing_a_file : bool) : Z :=\n  "
               + walk_gcf(gcf.body, {"importing_path": "PATH"}) + ".")
    for nm in ("p_import", "parse", "parse_child", "parse_string", "_check_parsing_file", "current_filepath",
               "maintain_filepath", "push_filepath", "pop_filepath"):
        skel[f"parser.py:Parser.{nm}"] = skeleton_digest(_find(pcls.body, nm, f"Parser.{nm}"))

    # ---- Renderer.render: the output file is (re)written unconditionally -------------------------------
    _rsrc, rend_t = _read(f"{COMPILER}/renderer/renderer.py")
    rcls = _cls(rend_t, "Renderer")
    rr = _find(rcls.body, "render", "Renderer.render")
    got = [ast.unparse(x) for x in _nodoc(rr.body)]
    want = ["content = self.render_string()",
            "with open(self.out_filepath, 'w') as f:\n    f.write(content)",
            "return self.out_filepath"]
    if got != want:
        raise Broken("translator(memo): Renderer.render is not [content = render_string(); open(out, 'w').write(content); "
                     "return out_filepath]: what is left in the output directory may depend on what was there", "\n".join(got))
    out.append("(* Renderer.render = render_string(), then open(out_filepath, \"w\").write(content): nothing of the\n"
               "   output directory is read *)")
    out.append("Definition render_writes_unconditionally : bool := true.")
    for nm in ("__init__", "get_outdir_default", "get_out_filename", "render_string"):
        skel[f"renderer/renderer.py:Renderer.{nm}"] = skeleton_digest(_find(rcls.body, nm, f"Renderer.{nm}"))
    _r2, rinit = _read(f"{COMPILER}/renderer/__init__.py")
    skel["renderer/__init__.py:render"] = skeleton_digest(_find(rinit.body, "render", "renderer.render"))

    # ---- class table and cached-method table ------------------------------------------------------------
    classes: List[Tuple[str, List[str], List[str]]] = []
    cached: List[Tuple[str, str, str, List[str]]] = []
    for n in astm.body:
        if not isinstance(n, ast.ClassDef):
            continue
        decs = [ast.unparse(d) for d in n.decorator_list]
        bases = [ast.unparse(b) for b in n.bases]
        classes.append((n.name, decs, bases))
        for m in n.body:
            if not isinstance(m, ast.FunctionDef):
                continue
            mdecs = [ast.unparse(d) for d in m.decorator_list]
            kind = None
            for d in mdecs:
                if d in ("cache_if_frozen", "cache"):
                    if kind is not None:
                        raise Broken(f"translator(memo): {n.name}.{m.name} has two cache decorators")
                    kind = d
                elif "cache" in d:
                    raise Broken(f"translator(memo): {n.name}.{m.name}: unrecognised cache decorator {d}")
            if kind is None:
                continue
            reads = _closure_reads(astm, m)
            cached.append((n.name, m.name, kind, sorted(reads)))
            skel[f"_ast.py:{n.name}.{m.name}"] = skeleton_digest(m)
    # a function outside classes using the decorators would not be in the table: refuse
    for n in astm.body:
        if isinstance(n, ast.FunctionDef):
            for d in n.decorator_list:
                if "cache" in ast.unparse(d):
                    raise Broken(f"translator(memo): module-level function {n.name} is cached: not modelled")
    LAST_TABLES["cached_methods"] = [(c, m, k) for c, m, k, _r in cached]
    out.append("(* (class, decorator stack outermost first, bases) *)")
    out.append("Definition ast_classes : list (string * list string * list string) := [\n  " + ";\n  ".join(
        f"({_cstr(c)}, [{'; '.join(_cstr(d) for d in ds)}], [{'; '.join(_cstr(b) for b in bs)}])"
        for c, ds, bs in classes) + "\n].")
    out.append("(* (class, method, decorator, attributes of self read in the body) *)")
    out.append("Definition cached_methods : list (string * string * string * list string) := [\n  " + ";\n  ".join(
        f"({_cstr(c)}, {_cstr(m)}, {_cstr(k)}, [{'; '.join(_cstr(r) for r in rs)}])" for c, m, k, rs in cached) + "\n].")

    # users of the decorators elsewhere in the compiler (must be none except cached_property on Blocks)
    others: List[Tuple[str, str]] = []
    gen_files = list(GENERATOR_FILES_FIXED) + _py_files_under(f"{COMPILER}/renderer")
    all_files = sorted(set(gen_files) | set(FRONTEND_FILES))
    seen_files = sorted(f for f in _py_files_under(COMPILER))
    unknown = [f for f in seen_files if f not in all_files]
    if unknown:
        raise Broken("translator(memo): compiler files the purity scan does not classify: " + ", ".join(unknown))
    sites: List[Tuple[str, str]] = []
    fsites: List[Tuple[str, str]] = []
    muts: List[Tuple[str, str]] = []
    for rel in all_files:
        p = os.path.join(REPO, COMPILER, rel)
        if not os.path.exists(p):
            if rel in FRONTEND_FILES or rel in GENERATOR_FILES_FIXED:
                raise Broken(f"translator(memo): {rel} is missing")
            continue
        _s, t = _read(f"{COMPILER}/{rel}")
        sc = _Scan(rel)
        sc.visit(t)
        if rel in gen_files:
            sites.extend(sc.sites)
        else:
            # the front end legitimately carries the source path around (messages, import resolution):
            # everything else it reads from the process is listed
            fsites.extend(x for x in sc.sites if x[1] != "read .filepath")
        muts.extend(sc.mut)
        if rel != "_ast.py":
            for x in ast.walk(t):
                if isinstance(x, (ast.FunctionDef, ast.ClassDef)):
                    for d in x.decorator_list:
                        u = ast.unparse(d)
                        if u in ("cache", "cache_if_frozen", "lru_cache") or u.startswith(("conditional_cache", "lru_cache(",
                                                                                          "functools.")):
                            others.append((rel + ":" + x.name, u))
    out.append("(* process-level inputs read anywhere in the generator (_ast, utils, options, renderer) *)")
    out.append(f"Definition impure_sites : list (string * string) := {_pairs(sites)}.")
    out.append("(* process-level inputs read by the front end (parser, lexer, linter, errors, _main), source path aside *)")
    out.append(f"Definition frontend_sites : list (string * string) := {_pairs(fsites)}.")
    out.append("(* mutable state that outlives one compilation, in the whole compiler *)")
    out.append(f"Definition mutable_globals : list (string * string) := {_pairs(muts)}.")
    out.append("(* memoising decorators used outside _ast.py *)")
    out.append(f"Definition other_cache_users : list (string * string) := {_pairs(others)}.")
    return "\n".join(out) + "\n", skel


def tables() -> Dict[str, list]:
    """The tables of the current source (for the T2 audit): {"cached_methods": [(class, method, kind)]}."""
    gen_memo()
    return dict(LAST_TABLES)


GENERATORS = {"GenMemo.v": gen_memo}
