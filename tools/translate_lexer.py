"""translate_lexer — tie T0 for the TEXT LEVEL of the front end (C08/C09/C20 lexer stage):
regenerate coq/gen/GenLexer.v from /repo's current compiler/bitproto/lexer.py (+ the cap
validators of _ast.py) and from the ply that the implementation's interpreter imports.

What is generated (fail closed: anything not recognised raises vlib.Broken):
  * every token rule: its regex (docstring of a function rule / value of a string rule) parsed
    by CPython's own regex parser under ply's flags into an `LexBase.rx` term over code points;
  * the ORDER of the rules in ply's master regular expression, computed here the way
    ply.lex.LexerReflect.get_rules / lex() compute it (function rules by first line, then string
    rules by decreasing regex length, stable over dir() order) and CROSS-CHECKED against the master
    pattern the real `Lexer()` object holds (probe in a subprocess, IMPL_ENV);
  * t_ignore, literals, keywords, tokens, escaping_chars;
  * every rule body, statement by statement, as an action descriptor (lineno increment, type
    assignment, value conversion, keyword re-typing) — statements are matched literally against
    the templates below, so any edit of a rule body is either translated or refused;
  * the escape loop of t_STRING_LITERAL (through translate_c09's statement translator, retargeted
    to code points), the cap validators of _ast.Uint/_ast.Int, the interpreter's int digit limit;
  * t_error: class raised and which attributes it cites;
  * the non-ASCII word characters of the interpreter (`\\w` on str patterns) as a range table.
Pinned by digest (hand-modelled in coq/theories/Lex.v): ply.lex.Lexer.token / input / __init__,
_form_master_re, LexerReflect.get_rules, lex(); bitproto Lexer.token / input / __init__.
"""
from __future__ import annotations

import ast
import json
import os
import re
import subprocess
import warnings
from typing import Any, Dict, List, Optional, Tuple

import translate_c09 as t09
from translate import find_func, skeleton_digest, strip_doc
from vlib import IMPL_ENV, PY, REPO, Broken

try:  # CPython >= 3.11
    import re._parser as sre_parse  # type: ignore
    import re._constants as sre_c  # type: ignore
except ImportError:  # pragma: no cover
    import sre_parse  # type: ignore
    import sre_constants as sre_c  # type: ignore

W = "translator(lexer)"


def cps(s: str) -> str:
    return "[" + "; ".join(str(ord(c)) for c in s) + "]"


def cmt(s: str) -> str:
    return t09.ccomment(repr(s))


# --------------------------------------------------------------------------------------
# regexes -> LexBase.rx
# --------------------------------------------------------------------------------------

def _seq(ts: List[str]) -> str:
    if not ts:
        return "XEps"
    out = ts[-1]
    for t in reversed(ts[:-1]):
        out = f"(XSeq {t} {out})"
    return out


def rx_items(items, what: str) -> str:
    ts: List[str] = []
    for (op, av) in list(items):
        name = str(op)
        if name == "LITERAL":
            ts.append(f"(XChar {av})")
        elif name == "NOT_LITERAL":
            ts.append(f"(XNotChar {av})")
        elif name == "ANY":
            ts.append("XAny")
        elif name == "IN":
            neg = False
            rs = []
            for (o2, a2) in av:
                n2 = str(o2)
                if n2 == "NEGATE":
                    neg = True
                elif n2 == "LITERAL":
                    rs.append(f"({a2}, {a2})")
                elif n2 == "RANGE":
                    rs.append(f"({a2[0]}, {a2[1]})")
                else:
                    raise Broken(f"{W}: {what}: unsupported set item {n2} (e.g. \\w, \\d, \\s inside a class)")
            ts.append(f"(XIn {'true' if neg else 'false'} [{'; '.join(rs)}])")
        elif name == "SUBPATTERN":
            group, add_flags, del_flags, p = av
            if add_flags or del_flags:
                raise Broken(f"{W}: {what}: inline flags are not supported")
            ts.append(rx_items(p, what))
        elif name == "BRANCH":
            _, alts = av
            xs = [rx_items(a, what) for a in alts]
            out = xs[-1]
            for t in reversed(xs[:-1]):
                out = f"(XAlt {t} {out})"
            ts.append(out)
        elif name in ("MAX_REPEAT", "MIN_REPEAT"):
            lo, hi, p = av
            if hi != sre_c.MAXREPEAT or lo not in (0, 1):
                raise Broken(f"{W}: {what}: bounded repeat {{{lo},{hi}}} is not supported")
            if p.getwidth()[0] == 0:
                raise Broken(f"{W}: {what}: the body of a repeat can match the empty string (sre's empty-iteration "
                             "rules are not modelled)")
            body = rx_items(p, what)
            g = "true" if name == "MAX_REPEAT" else "false"
            ts.append(f"(XStar {g} {body})" if lo == 0 else f"(XPlus {g} {body})")
        elif name == "AT" and str(av) == "AT_BOUNDARY":
            ts.append("XBound")
        else:
            raise Broken(f"{W}: {what}: unsupported regex construct {name} {av!r}"[:300])
    return _seq(ts)


def rx_term(pattern: str, flags: int, what: str) -> str:
    with warnings.catch_warnings():
        warnings.simplefilter("ignore")
        try:
            p = sre_parse.parse(pattern, flags)
        except Exception as e:  # noqa
            raise Broken(f"{W}: {what}: regex does not parse", str(e))
    if p.state.flags & ~(flags | re.UNICODE):
        raise Broken(f"{W}: {what}: the pattern switches regex flags on", str(p.state.flags))
    return rx_items(p, what)


# --------------------------------------------------------------------------------------
# probe of the real lexer object (subprocess, IMPL_ENV)
# --------------------------------------------------------------------------------------

PROBE = r'''
import json, re, sys
import bitproto, ply.lex
from bitproto.lexer import Lexer
assert bitproto.__file__.startswith(sys.argv[1] + "/"), bitproto.__file__
L = Lexer(); l = L.lexer
l.input("")
names = []
for (rex, idx) in l.lexre:
    for i, e in enumerate(idx):
        if e is not None and e != (None, None):
            names.append([e[0].__name__ if e[0] else None, e[1]])
rng = []; lo = None
for c in range(128, 0x110000):
    w = re.match(r"\w", chr(c)) is not None
    if w and lo is None: lo = c
    if not w and lo is not None: rng.append([lo, c - 1]); lo = None
if lo is not None: rng.append([lo, 0x10ffff])
asc = "".join(chr(c) for c in range(128) if re.match(r"\w", chr(c)))
print(json.dumps({
  "patterns": [r.pattern for (r, _) in l.lexre], "flags": [r.flags for (r, _) in l.lexre],
  "retext": l.lexretext, "reflags": l.lexreflags, "ignore": l.lexignore, "literals": l.lexliterals,
  "names": names, "states": l.lexstateinfo, "state": l.lexstate, "eof": l.lexeoff is not None,
  "errorf": l.lexerrorf.__name__ if l.lexerrorf else None, "optimize": bool(l.lexoptimize),
  "lineno0": l.lineno, "lexpos0": l.lexpos, "tokens_all": sorted(l.lextokens_all),
  "ply_file": ply.lex.__file__, "ply_version": ply.lex.__version__,
  "uni_word": rng, "ascii_word": asc, "maxdigits": sys.get_int_max_str_digits(),
  "group_last": [re.compile("(?P<a>x(y|(z)))").match("xz").lastindex],
}))
'''


def probe() -> Dict[str, Any]:
    try:
        p = subprocess.run([PY, "-c", PROBE, REPO], env=IMPL_ENV, capture_output=True, text=True, timeout=120)
    except Exception as e:  # noqa
        raise Broken(f"{W}: cannot run the lexer probe", str(e))
    if p.returncode != 0:
        raise Broken(f"{W}: the real Lexer() cannot be built (ply refuses the rules?)", (p.stdout + p.stderr)[-2000:])
    try:
        return json.loads(p.stdout)
    except Exception as e:  # noqa
        raise Broken(f"{W}: unreadable probe output", p.stdout[-500:] + str(e))


# --------------------------------------------------------------------------------------
# rule bodies
# --------------------------------------------------------------------------------------

FILEPATH = "filepath=self.current_filepath()"
RE_NODE = re.compile(r"^t\.value = ([A-Z][A-Za-z]*)\(token=t\.value, lineno=t\.lineno, " + re.escape(FILEPATH) + r"\)$")
RE_CAPNODE = re.compile(r"^t\.value = ([A-Z][A-Za-z]*)\(cap=cap, token=t\.value, lineno=t\.lineno, "
                        + re.escape(FILEPATH) + r"\)$")
RE_CAP = re.compile(r"^cap: int = int\(t\.value\[(\d+):\]\)$")
RE_LINE = re.compile(r"^t\.lexer\.lineno \+= (\d+)$")
RE_TYPE = re.compile(r"^t\.type = '([A-Z_]+)'$")
RE_INT = re.compile(r"^t\.value = int\(t\.value(?:, (\d+))?\)$")
RE_KW = "if t.value in self.keywords:\n    t.type = t.value.upper()\n    return t"


def node_class_plain(t_ast: ast.Module, cls: str) -> None:
    """Cls(token=.., lineno=.., filepath=..) must not validate anything: no class on the chain up
    to Node overrides validate_post_freeze / __post_init__ / __post_freeze__."""
    classes = {n.name: n for n in t_ast.body if isinstance(n, ast.ClassDef)}
    cur = cls
    seen = 0
    while cur != "Node":
        seen += 1
        c = classes.get(cur)
        if c is None or len(c.bases) != 1 or seen > 10:
            raise Broken(f"{W}: _ast.{cls}: class chain to Node not understood at {cur}")
        for n in c.body:
            if isinstance(n, ast.FunctionDef) and n.name in ("validate_post_freeze", "__post_init__",
                                                             "__post_freeze__", "__init__", "__new__"):
                raise Broken(f"{W}: _ast.{cur} defines {n.name}: building it in a token rule may raise")
        cur = ast.unparse(c.bases[0])


def rule_action(fn: ast.FunctionDef, t_ast: ast.Module, parser_errors) -> Tuple[str, List[str], Optional[str]]:
    """-> (Coq action term, extra definitions, final type name if assigned)"""
    body = strip_doc(fn)
    name = fn.name
    if fn.decorator_list:
        raise Broken(f"{W}: {name} is decorated (ply orders function rules by co_firstlineno)")
    if [a.arg for a in fn.args.args] != ["self", "t"]:
        raise Broken(f"{W}: {name}: parameters are not (self, t)")
    if not body or ast.unparse(body[-1]) != "return t":
        raise Broken(f"{W}: {name} does not end in `return t` (a rule returning None drops the token)",
                     ast.unparse(fn)[:400])
    extra: List[str] = []
    lineinc, settype, conv, kw = 0, None, "CvKeep", False
    stmts = body[:-1]
    if name == "t_STRING_LITERAL" or any(isinstance(s, ast.While) for s in stmts):
        lines, _ = t09.gen_escape_loop(fn, parser_errors)     # validates the whole shape of the body
        txt = "\n".join(lines)
        txt = re.sub(r"Ascii\.eqb c \(ascii_of_nat (\d+)\)", r"N.eqb c \1%N", txt)
        txt = txt.replace("list ascii", "list N").replace("table_mem", "ntable_mem").replace("py_dict_get", "npy_dict_get")
        if "ascii" in txt.lower().replace("(* lexer.py", ""):
            raise Broken(f"{W}: {name}: the escape loop uses a construct that is not retargeted to code points", txt)
        extra.append(txt)
        return "(mkAct 0%Z None CvUnescape false)", extra, None
    i = 0
    while i < len(stmts):
        s = stmts[i]
        u = ast.unparse(s)
        m = RE_LINE.match(u)
        if m:
            lineinc += int(m.group(1))
            i += 1
            continue
        m = RE_TYPE.match(u)
        if m and settype is None and not kw:
            settype = m.group(1)
            i += 1
            continue
        if conv == "CvKeep" and not kw:
            m = RE_NODE.match(u)
            if m:
                node_class_plain(t_ast, m.group(1))
                conv = f'(CvNode "{m.group(1)}"%string)'
                i += 1
                continue
            m = RE_CAP.match(u)
            if m and i + 1 < len(stmts):
                m2 = RE_CAPNODE.match(ast.unparse(stmts[i + 1]))
                if m2 and m2.group(1) in ("Uint", "Int"):
                    conv = f'(CvCapNode "{m2.group(1)}"%string {int(m.group(1))}%nat)'
                    i += 2
                    continue
            m = RE_INT.match(u)
            if m:
                conv = f"(CvInt {int(m.group(1) or 10)}%Z)"
                i += 1
                continue
            if (isinstance(s, ast.Assign) and ast.unparse(s.targets[0]) == "t.value" and isinstance(s.value, ast.Compare)
                    and ast.unparse(s.value.left) == "t.value" and len(s.value.ops) == 1
                    and isinstance(s.value.ops[0], ast.In) and isinstance(s.value.comparators[0], ast.Tuple)
                    and all(isinstance(e, ast.Constant) and isinstance(e.value, str) for e in s.value.comparators[0].elts)):
                words = [e.value for e in s.value.comparators[0].elts]
                conv = "(CvBoolIn [" + "; ".join(cps(w) for w in words) + "])"
                i += 1
                continue
        if u == RE_KW and conv == "CvKeep" and i == len(stmts) - 1:
            kw = True
            i += 1
            continue
        raise Broken(f"{W}: {name}: statement not recognised (rule bodies are translated literally)", u[:300])
    st = f"(Some {cps(settype)})" if settype is not None else "None"
    return (f"(mkAct {lineinc}%Z {st} {conv} {'true' if kw else 'false'})", extra, settype)


# --------------------------------------------------------------------------------------
# driver
# --------------------------------------------------------------------------------------

def class_const(cls: ast.ClassDef, name: str) -> Optional[ast.expr]:
    found = None
    for n in cls.body:
        tgt = n.target if isinstance(n, ast.AnnAssign) else (
            n.targets[0] if isinstance(n, ast.Assign) and len(n.targets) == 1 else None)
        if tgt is not None and isinstance(tgt, ast.Name) and tgt.id == name:
            if found is not None:
                raise Broken(f"{W}: Lexer.{name} is assigned twice")
            found = n.value
    return found


def str_const(e: Optional[ast.expr], what: str) -> str:
    if not (isinstance(e, ast.Constant) and isinstance(e.value, str)):
        raise Broken(f"{W}: {what} is not a string literal")
    return e.value


def gen_lexer() -> Tuple[str, Dict[str, str]]:
    _, t_lex = t09._src("compiler/bitproto/lexer.py")
    _, t_ast = t09._src("compiler/bitproto/_ast.py")
    _, t_err = t09._src("compiler/bitproto/errors.py")
    _, h = t09.gen_hierarchy(t_err)
    parser_errors = t09.subclasses_of(h, "ParserError")
    skel: Dict[str, str] = {}
    cls = [n for n in t_lex.body if isinstance(n, ast.ClassDef) and n.name == "Lexer"]
    if len(cls) != 1:
        raise Broken(f"{W}: class Lexer not found")
    cls = cls[0]
    if cls.bases or cls.decorator_list:
        raise Broken(f"{W}: class Lexer has bases/decorators (rules could be inherited)")

    pr = probe()

    # ---- how the lexer object is built and driven
    init = find_func(t_lex, "__init__", "Lexer")
    calls = [n for n in ast.walk(init) if isinstance(n, ast.Call) and ast.unparse(n.func) == "lex.lex"]
    if len(calls) != 1 or ast.unparse(calls[0]) != "lex.lex(object=self)":
        raise Broken(f"{W}: Lexer.__init__ no longer calls lex.lex(object=self)")
    for fname, want in (("token", "return self.lexer.token()"), ("input", "self.lexer.input(s)")):
        got = [ast.unparse(s) for s in strip_doc(find_func(t_lex, fname, "Lexer"))]
        if got != [want]:
            raise Broken(f"{W}: Lexer.{fname} is no longer the plain delegation `{want}`", "\n".join(got))
    flags = int(re.VERBOSE)
    if pr["reflags"] != flags or any(f != (flags | re.UNICODE) for f in pr["flags"]):
        raise Broken(f"{W}: the master regex is not compiled with re.VERBOSE (+UNICODE for str)", str(pr["flags"]))
    if pr["states"] != {"INITIAL": "inclusive"} or pr["state"] != "INITIAL" or pr["eof"] or pr["optimize"]:
        raise Broken(f"{W}: lexer states / t_eof / optimize are not modelled", json.dumps(pr["states"]))
    if pr["lineno0"] != 1 or pr["lexpos0"] != 0:
        raise Broken(f"{W}: a fresh lexer does not start at lineno 1, lexpos 0")
    if pr["group_last"] != [1]:
        raise Broken(f"{W}: Match.lastindex is not the outermost group of the matched branch")

    # ---- ply itself (third party, but the token loop is hand-modelled after it)
    try:
        ply_tree = ast.parse(open(pr["ply_file"]).read())
    except Exception as e:  # noqa
        raise Broken(f"{W}: cannot read ply/lex.py", str(e))
    for key, fn_name, owner in (("ply.lex.Lexer.token", "token", "Lexer"), ("ply.lex.Lexer.input", "input", "Lexer"),
                                ("ply.lex.Lexer.__init__", "__init__", "Lexer"),
                                ("ply.lex._form_master_re", "_form_master_re", None),
                                ("ply.lex.LexerReflect.get_rules", "get_rules", "LexerReflect"),
                                ("ply.lex.lex", "lex", None)):
        skel[key] = skeleton_digest(find_func(ply_tree, fn_name, owner), [])
    skel["ply.lex.__version__"] = pr["ply_version"]

    # ---- tables
    ignore = str_const(class_const(cls, "t_ignore"), "Lexer.t_ignore")
    literals = str_const(class_const(cls, "literals"), "Lexer.literals")
    kwe = class_const(cls, "keywords")
    if not (isinstance(kwe, ast.Tuple) and all(isinstance(e, ast.Constant) and isinstance(e.value, str) for e in kwe.elts)):
        raise Broken(f"{W}: Lexer.keywords is not a tuple of string literals")
    keywords = [e.value for e in kwe.elts]
    if not all(k.isascii() and k for k in keywords):
        raise Broken(f"{W}: a keyword is empty or not ASCII (str.upper is modelled on ASCII)")
    kt = class_const(cls, "keywords_tokens")
    if kt is None or ast.unparse(kt) != "tuple(map(lambda k: k.upper(), keywords))":
        raise Broken(f"{W}: Lexer.keywords_tokens is no longer tuple(map(lambda k: k.upper(), keywords))")
    te = class_const(cls, "tokens")
    if not (isinstance(te, ast.BinOp) and isinstance(te.op, ast.Add) and isinstance(te.left, ast.Tuple)
            and ast.unparse(te.right) == "keywords_tokens"
            and all(isinstance(e, ast.Constant) and isinstance(e.value, str) for e in te.left.elts)):
        raise Broken(f"{W}: Lexer.tokens is not (<string literals>) + keywords_tokens")
    tokens = [e.value for e in te.left.elts] + [k.upper() for k in keywords]
    if ignore != pr["ignore"] or literals != pr["literals"]:
        raise Broken(f"{W}: t_ignore / literals of the real lexer object differ from the source",
                     repr((pr["ignore"], pr["literals"])))
    if sorted(set(tokens) | set(literals)) != pr["tokens_all"]:
        raise Broken(f"{W}: the token set of the real lexer object differs from the source")
    for nm in ("states",):
        if class_const(cls, nm) is not None:
            raise Broken(f"{W}: Lexer.{nm} is defined (lexer states are not modelled)")

    # ---- rules in ply's order
    func_rules: List[ast.FunctionDef] = []
    str_rules: List[Tuple[str, str]] = []
    for n in cls.body:
        if isinstance(n, ast.FunctionDef) and n.name.startswith("t_"):
            if n.name in ("t_eof", "t_ignore") or "_ignore_" in n.name:
                raise Broken(f"{W}: {n.name} as a function is not modelled")
            if n.name != "t_error":
                func_rules.append(n)
        elif isinstance(n, (ast.Assign, ast.AnnAssign)):
            tgt = n.target if isinstance(n, ast.AnnAssign) else n.targets[0]
            if isinstance(tgt, ast.Name) and tgt.id.startswith("t_") and tgt.id != "t_ignore":
                if tgt.id.startswith("t_ignore_") or tgt.id in ("t_error", "t_eof"):
                    raise Broken(f"{W}: {tgt.id} as a string is not modelled")
                str_rules.append((tgt.id, str_const(n.value, f"Lexer.{tgt.id}")))
    func_rules.sort(key=lambda f: f.lineno)                           # co_firstlineno (no decorators)
    str_rules = sorted(str_rules, key=lambda x: x[0])                 # dir(object) order
    str_rules.sort(key=lambda x: len(x[1]), reverse=True)             # ply: by decreasing regex length, stable
    names = [f.name for f in func_rules] + [n for n, _ in str_rules]
    if len(set(names)) != len(names):
        raise Broken(f"{W}: a rule name is defined twice")
    docs: Dict[str, str] = {}
    for f in func_rules:
        d = ast.get_docstring(f, clean=False)
        if d is None:
            raise Broken(f"{W}: {f.name} has no regex docstring")
        docs[f.name] = d
    for n, r in str_rules:
        docs[n] = r
    master = "|".join(f"(?P<{n}>{docs[n]})" for n in names)
    if pr["retext"] != [master] or pr["patterns"] != [master]:
        raise Broken(f"{W}: the master regex of the real lexer object is not the one derived from the source "
                     "(rule order / splitting differs from the model of ply.lex.lex)",
                     "derived: " + master + "\nreal:    " + " || ".join(pr["patterns"]))
    want_names = [[f.name, f.name[2:]] for f in func_rules] + [[None, n[2:]] for n, _ in str_rules]
    if pr["names"] != want_names:
        raise Broken(f"{W}: rule functions / token names of the real lexer object differ", json.dumps(pr["names"]))
    if pr["errorf"] != "t_error":
        raise Broken(f"{W}: the lexer has no t_error")

    out = ["(* GENERATED by tools/translate_lexer.py from compiler/bitproto/lexer.py, _ast.py and the lexer object "
           "ply builds from them — do not edit *)",
           "From Coq Require Import String NArith ZArith List Bool.",
           "From BP Require Import TotalBase LexBase.",
           "Import ListNotations.", "Open Scope N_scope.", ""]
    out.append(f"(* ply {pr['ply_version']}; master regex (re.VERBOSE): {t09.ccomment(master)} *)")
    out.append(f"Definition lex_ignore : list N := {cps(ignore)}.   (* {cmt(ignore)} *)")
    out.append(f"Definition lex_literals : list N := {cps(literals)}.   (* {cmt(literals)} *)")
    out.append("Definition lex_keywords : list (list N) :=\n  [" + ";\n   ".join(f"{cps(k)} (* {k} *)" for k in keywords) + "].")
    out.append("Definition lex_tokens : list (list N) :=\n  [" + "; ".join(cps(k) for k in tokens) + "].")
    for tname in sorted(set(tokens) | {n[2:] for n in names}):
        if not re.match(r"^[A-Za-z_][A-Za-z0-9_]*$", tname):
            raise Broken(f"{W}: token name {tname!r} is not an identifier")
        out.append(f"Definition T_{tname} : list N := {cps(tname)}.")
    out.append("")

    # escaping_chars
    table = class_const(cls, "escaping_chars")
    if not isinstance(table, ast.Dict):
        raise Broken(f"{W}: Lexer.escaping_chars is not a dict literal")
    rows = []
    for k, v in zip(table.keys, table.values):
        if not (isinstance(k, ast.Constant) and isinstance(k.value, str) and len(k.value) == 1
                and isinstance(v, ast.Constant) and isinstance(v.value, str)):
            raise Broken(f"{W}: Lexer.escaping_chars has a non single-character key or non-string value")
        rows.append(f"({ord(k.value)}, {cps(v.value)})")
    out.append(f"(* lexer.py:{table.lineno}-{table.end_lineno}  Lexer.escaping_chars *)")
    out.append("Definition escaping_chars : list (N * list N) :=\n  [" + "; ".join(rows) + "].")
    out.append(f"(* sys.get_int_max_str_digits() of {PY} *)")
    out.append(f"Definition py_int_max_str_digits : Z := {int(pr['maxdigits'])}%Z.")
    out.append("Open Scope Z_scope.")
    out.extend(t09.gen_cap_validators(t_ast, parser_errors))
    out.append('Definition node_cap_check (cls : string) (cap : Z) : outcome Z :=\n'
               '  if String.eqb cls "Uint"%string then uint_cap_check cap else if String.eqb cls "Int"%string then int_cap_check cap '
               'else Ok cap.')

    # rules
    rule_terms = []
    extras: List[str] = []
    acts: Dict[str, str] = {}
    for f in func_rules:
        act, extra, settype = rule_action(f, t_ast, parser_errors)
        extras.extend(extra)
        acts[f.name] = act
        final = settype or f.name[2:]
        if final not in tokens:
            raise Broken(f"{W}: {f.name} yields the token type {final!r} which is not in Lexer.tokens "
                         "(ply raises LexError on it)")
    for n, _ in str_rules:
        if n[2:] not in tokens:
            raise Broken(f"{W}: string rule {n} names a token that is not in Lexer.tokens")
    if not extras:
        raise Broken(f"{W}: no rule carries the escape loop")
    if len(extras) != 1:
        raise Broken(f"{W}: more than one rule carries a loop")
    out.extend(extras)
    out.append("Close Scope Z_scope.")
    out.append("")
    for n in names:
        what = f"lexer.py {n}"
        out.append(f"(* {n}: " + t09.ccomment(f"r{docs[n]!r}") + " *)")
        out.append(f"Definition rx_{n} : rx := {rx_term(docs[n], flags, what)}.")
        a = f"(Some {acts[n]})" if n in acts else "None"
        rule_terms.append(f"mkRule T_{n[2:]} rx_{n} {a}")
    out.append("(* the alternatives of ply's master regular expression, in order *)")
    out.append("Definition lex_rules : list rule :=\n  [ " + ";\n    ".join(rule_terms) + " ].")

    # t_error
    te_fn = find_func(t_lex, "t_error", "Lexer")
    got = [ast.unparse(s) for s in strip_doc(te_fn)]
    m = re.match(r"^raise ([A-Za-z]+)\(message='[^']*', filepath=self\.current_filepath\(\), token=t\.value\[0\], "
                 r"lineno=t\.lineno\)$", got[0]) if len(got) == 1 else None
    if not m or m.group(1) not in parser_errors:
        raise Broken(f"{W}: t_error is no longer `raise <ParserError>(.., token=t.value[0], lineno=t.lineno)`",
                     "\n".join(got))
    out.append(f"(* lexer.py:{te_fn.lineno}  t_error raises this class citing the offending character and t.lineno *)")
    out.append(f'Definition t_error_class : string := "{m.group(1)}"%string.')
    out.append("Definition lexer_initial_lineno : Z := 1%Z.")

    # word characters
    if pr["ascii_word"] != "0123456789ABCDEFGHIJKLMNOPQRSTUVWXYZ_abcdefghijklmnopqrstuvwxyz":
        raise Broken(f"{W}: the ASCII word characters of the interpreter are not [0-9A-Za-z_]")
    rng = pr["uni_word"]
    out.append(f"(* non-ASCII code points c with re.match(r'\\w', chr(c)) in {PY}: {len(rng)} ranges *)")
    lines = []
    for i in range(0, len(rng), 8):
        lines.append("; ".join(f"({a}, {b})" for a, b in rng[i:i + 8]))
    out.append("Definition uni_word_table : list (N * N) :=\n  [" + ";\n   ".join(lines) + "].")
    out.append("Definition uni_word (c : N) : bool := in_table uni_word_table c.")
    return "\n".join(out) + "\n", skel


GENERATORS = {"GenLexer.v": gen_lexer}


if __name__ == "__main__":
    import sys
    text, sk = gen_lexer()
    sys.stdout.write(text)
