"""translate_front — tie T0 for the front-end model (C08 / C11 / C12).

Re-reads compiler/bitproto/{_ast,options,parser,grammars,lexer}.py of the tree under test and
emits coq/gen/GenFront.v:

* the RAISE CONDITIONS of the numeric validators (uint/int cap, array cap, field number,
  enum value sign and bit_length test, 65535-bit test, max_bytes test) as boolean functions;
* the size arithmetic (Type.nbytes, Array.nbits, Message.nbits incl. the +16 of extensible
  types, ahead_nbits, Bool/Byte widths);
* the option tables of options.py (name, default => type, validator) per scope.

Everything whose control structure is modelled by hand in coq/theories/Front.v (push_member,
get_member, the parser actions, the grammar, the lexer's token rules) is pinned by an AST
digest (coq/ref/skeletons_front.json).  Fail closed: any shape not recognised raises Broken.
"""
from __future__ import annotations

import ast
import os
from typing import Dict, List, Optional, Sequence, Tuple

import vlib
from translate import Tr, find_func, skeleton_digest, strip_doc
from vlib import Broken


class TrF(Tr):
    """Tr + (a) whole sub-expressions mapped by their source text (self.nbits() -> nbits),
    (b) names of boolean type."""

    def __init__(self, fname: str, text_map: Dict[str, str], bools: Dict[str, str] = None):
        super().__init__(fname)
        self.text_map = text_map
        self.bools = bools or {}

    def z(self, e, env):
        key = ast.unparse(e)
        if key in self.text_map and key not in self.bools:
            return self.text_map[key]
        return super().z(e, env)

    def b(self, e, env):
        key = ast.unparse(e)
        if key in self.bools:
            return self.bools[key]
        return super().b(e, env)


def _cls(tree: ast.AST, name: str) -> ast.ClassDef:
    for n in tree.body:  # type: ignore
        if isinstance(n, ast.ClassDef) and n.name == name:
            return n
    raise Broken(f"translator(front): class {name} not found")


def _raised_class(r: ast.Raise) -> str:
    e = r.exc
    if isinstance(e, ast.Call):
        f = e.func
        if isinstance(f, ast.Attribute) and f.attr == "from_token" and isinstance(f.value, ast.Name):
            return f.value.id
        if isinstance(f, ast.Name):
            return f.id
    raise Broken("translator(front): unrecognised raise", ast.dump(r)[:300])


def raise_conditions(fn: ast.FunctionDef) -> List[Tuple[ast.expr, str]]:
    """[(test, error class)] for every top-level `if test: [assignments] raise X`."""
    out = []
    for s in strip_doc(fn):
        if isinstance(s, ast.If) and not s.orelse and s.body and isinstance(s.body[-1], ast.Raise) \
                and all(isinstance(x, ast.Assign) for x in s.body[:-1]):
            out.append((s.test, _raised_class(s.body[-1])))
    return out


def _one_raise(tree, cls: str, meth: str, err: str, text_map: Dict[str, str], coq: str, params: str,
               allow_other: Sequence[str] = ()) -> str:
    fn = find_func(tree, meth, cls)
    conds = raise_conditions(fn)
    others = [s for s in strip_doc(fn) if not (isinstance(s, ast.If) and isinstance(s.body[-1], ast.Raise))]
    for s in others:
        if ast.unparse(s) not in allow_other:
            raise Broken(f"translator(front): {cls}.{meth}: unexpected statement", ast.unparse(s)[:200])
    if len(conds) != 1 or conds[0][1] != err:
        raise Broken(f"translator(front): {cls}.{meth}: expected exactly one `raise {err}`",
                     str([(ast.unparse(t), e) for t, e in conds]))
    tr = TrF(f"{cls}.{meth}", text_map)
    return f"Definition {coq} ({params} : Z) : bool := {tr.b(conds[0][0], {})}."


def _const_return(tree, cls: str, meth: str) -> int:
    fn = find_func(tree, meth, cls)
    body = strip_doc(fn)
    if len(body) == 1 and isinstance(body[0], ast.Return) and isinstance(body[0].value, ast.Constant) \
            and isinstance(body[0].value.value, int):
        return body[0].value.value
    raise Broken(f"translator(front): {cls}.{meth} is not `return <int>`", ast.unparse(fn)[:200])


def _return_text(tree, cls: str, meth: str, expect: str) -> None:
    fn = find_func(tree, meth, cls)
    body = strip_doc(fn)
    if not (len(body) == 1 and isinstance(body[0], ast.Return) and ast.unparse(body[0].value) == expect):
        raise Broken(f"translator(front): {cls}.{meth} is not `return {expect}`", ast.unparse(fn)[:200])


def _ext_nbits(tree, cls: str, n_expr: str, coq: str, params: str, n_coq: str) -> str:
    """n = <n_expr>; if not self.extensible: return n; return self.ahead_nbits() + n"""
    fn = find_func(tree, "nbits", cls)
    body = strip_doc(fn)
    if not (body and isinstance(body[0], ast.Assign) and ast.unparse(body[0].targets[0]) == "n"
            and ast.unparse(body[0].value) == n_expr):
        raise Broken(f"translator(front): {cls}.nbits does not start with `n = {n_expr}`",
                     ast.unparse(fn)[:300])
    ahead = _const_return(tree, cls, "ahead_nbits")
    tr = TrF(f"{cls}.nbits", {"self.ahead_nbits()": str(ahead)}, {"self.extensible": "extensible"})
    e = tr.body(body[1:], {"n": n_coq})
    return f"Definition {coq} ({params} : Z) (extensible : bool) : Z := {e}."


def _options(tree, var: str) -> str:
    node = None
    for n in tree.body:
        if isinstance(n, ast.AnnAssign) and isinstance(n.target, ast.Name) and n.target.id == var:
            node = n.value
        if isinstance(n, ast.Assign) and isinstance(n.targets[0], ast.Name) and n.targets[0].id == var:
            node = n.value
    if not isinstance(node, ast.Tuple):
        raise Broken(f"translator(front): options.{var} is not a tuple literal")
    items = []
    for c in node.elts:
        if not (isinstance(c, ast.Call) and isinstance(c.func, ast.Name) and c.func.id == "OptionDescriptor"
                and not c.keywords and 2 <= len(c.args) <= 4):
            raise Broken(f"translator(front): options.{var}: unrecognised descriptor", ast.unparse(c)[:200])
        name, default = c.args[0], c.args[1]
        validator = c.args[2] if len(c.args) > 2 else ast.Constant(value=None)
        if not (isinstance(name, ast.Constant) and isinstance(name.value, str) and '"' not in name.value):
            raise Broken(f"translator(front): options.{var}: option name is not a plain string")
        if not isinstance(default, ast.Constant):
            raise Broken(f"translator(front): options.{var}: default is not a literal")
        dv = default.value
        if dv is True or dv is False:
            d = f"(CVBool {'true' if dv else 'false'})"
        elif isinstance(dv, int):
            d = f"(CVInt {vlib.cz(dv)})"
        elif isinstance(dv, str) and '"' not in dv:
            d = f'(CVStr "{dv}"%string)'
        else:
            raise Broken(f"translator(front): options.{var}: default of {name.value}")
        if isinstance(validator, ast.Constant) and validator.value is None:
            v = "None"
        elif isinstance(validator, ast.Lambda) and len(validator.args.args) == 1 and isinstance(dv, int) \
                and not isinstance(dv, bool):
            a = validator.args.args[0].arg
            tr = TrF(f"options.{var}.{name.value}", {})
            v = f"(Some (fun {a} : Z => {tr.b(validator.body, {a: a})}))"
        else:
            raise Broken(f"translator(front): options.{var}: validator of {name.value} "
                         "(only lambdas over integer options are understood)")
        items.append(f'mkodesc "{name.value}"%string {d} {v}')
    return f"Definition {var.lower()} : list odesc := [" + "; ".join(items) + "]."


# functions whose control structure is modelled by hand in Front.v
AST_SKELETONS = [
    ("push_member", "Scope"), ("get_member", "Scope"), ("filter", "Scope"),
    ("validate_member_on_push", "ScopeWithOptions"), ("validate_option_on_push", "ScopeWithOptions"),
    ("options", "ScopeWithOptions"), ("options_as_dict", "ScopeWithOptions"), ("option", "ScopeWithOptions"),
    ("get_option_or_raise", "ScopeWithOptions"), ("get_option_value_or_raise", "ScopeWithOptions"),
    ("get_option_as_int_or_raise", "ScopeWithOptions"),
    ("reflect_subclass_by_value", "Option"), ("from_value", "Option"), ("wraps", "OptionDescriptor_"),
    ("reflect_subclass_by_value", "Constant"), ("from_value", "Constant"), ("unwrap", "Constant"),
    ("validate_post_freeze", "Array"), ("validate_array_element_type", "Array"),
    ("element_type_constraints", "Array"),
    ("validate_type", "Alias"), ("validate_post_freeze", "Alias"),
    ("validate_member_on_push", "Enum"), ("validate_enum_field_on_push", "Enum"),
    ("fields", "Enum"), ("value_to_names", "Enum"),
    ("validate_member_on_push", "Message"), ("validate_message_field_on_push", "Message"),
    ("fields", "Message"), ("sorted_fields", "Message"), ("number_to_field", "Message"),
    ("validate_post_freeze", "Message"),
    ("set_name", "Proto"), ("__post_freeze__", "Node"),
]
PARSER_SKELETONS = [
    "__init__", "push_scope", "pop_scope", "current_scope", "current_proto", "current_scope_stack",
    "scope_stack_in_current_proto", "parse_string", "parse", "parse_child", "maintain_filepath",
    "p_open_global_scope", "p_close_global_scope", "p_proto", "_get_child_filepath", "_check_parsing_file",
    "p_import", "p_option", "p_option_value", "p_alias", "p_const", "p_const_value",
    "p_calculation_expression", "p_calculation_expression_plus", "p_calculation_expression_minus",
    "p_calculation_expression_times", "p_calculation_expression_divide", "p_calculation_expression_group",
    "p_constant_reference_for_calculation", "_lookup_referenced_member", "p_constant_reference",
    "p_type", "p_single_type", "p_base_type", "p_type_reference", "p_optional_extensible_flag",
    "p_array_type", "p_array_capacity", "p_constant_reference_for_array_capacity",
    "p_enum", "p_open_enum_scope", "p_close_enum_scope", "p_enum_item_unsupported", "p_enum_field",
    "p_message", "p_open_message_scope", "p_close_message_scope", "p_message_item_unsupported",
    "p_message_field", "p_message_field_name", "p_dotted_identifier", "p_error", "copy_p_tracking",
    "p_integer_literal", "p_boolean_literal", "p_string_literal",
]
LEXER_SKELETONS = ["t_newline", "t_COMMENT", "t_BOOL_TYPE", "t_UINT_TYPE", "t_INT_TYPE", "t_BYTE_TYPE",
                   "t_HEX_LITERAL", "t_INT_LITERAL", "t_BOOL_LITERAL", "t_IDENTIFIER", "t_STRING_LITERAL",
                   "t_error"]


def gen_front() -> Tuple[str, Dict[str, str]]:
    base = os.path.join(vlib.REPO, "compiler/bitproto")
    tree = ast.parse(open(os.path.join(base, "_ast.py")).read())
    otree = ast.parse(open(os.path.join(base, "options.py")).read())
    ptree = ast.parse(open(os.path.join(base, "parser.py")).read())
    gsrc = open(os.path.join(base, "grammars.py")).read()
    ltree = ast.parse(open(os.path.join(base, "lexer.py")).read())
    mtree = ast.parse(open(os.path.join(base, "_main.py")).read())
    utree = ast.parse(open(os.path.join(base, "utils.py")).read())
    skel: Dict[str, str] = {}
    out = ["(* GENERATED by tools/translate_front.py from compiler/bitproto/{_ast,options}.py — do not edit *)",
           "From Coq Require Import ZArith List Bool String.", "From BP Require Import FrontBase.",
           "Import ListNotations.", "Open Scope Z_scope.", ""]

    missing = ("if self._is_missing:\n    return",)
    out.append("(* raise conditions of the validators (true = the error is raised) *)")
    out.append(_one_raise(tree, "Uint", "validate_post_freeze", "InvalidUintCap", {"self.cap": "cap"},
                          "uint_cap_raises", "cap", missing))
    out.append(_one_raise(tree, "Int", "validate_post_freeze", "InvalidIntCap", {"self.cap": "cap"},
                          "int_cap_raises", "cap", missing))
    out.append(_one_raise(tree, "Array", "validate_array_cap", "InvalidArrayCap", {"self.cap": "cap"},
                          "array_cap_raises", "cap"))
    out.append(_one_raise(tree, "MessageField", "validate_post_freeze", "InvalidMessageFieldNumber",
                          {"self.number": "number"}, "field_number_raises", "number"))
    out.append(_one_raise(tree, "EnumField", "validate_post_freeze", "InvalidEnumFieldValue",
                          {"self.value": "value"}, "enum_value_raises", "value"))

    # Enum.validate_enum_field_on_push: overflow test (translated) then duplicate test (structural)
    fn = find_func(tree, "validate_enum_field_on_push", "Enum")
    conds = raise_conditions(fn)
    if [e for _, e in conds] != ["EnumFieldValueOverflow", "DuplicatedEnumFieldValue"] \
            or ast.unparse(conds[1][0]) != "field.value in self.value_to_names()":
        raise Broken("translator(front): Enum.validate_enum_field_on_push: expected the overflow test followed "
                     "by `field.value in self.value_to_names()`", str([(ast.unparse(t), e) for t, e in conds]))
    tr = TrF("Enum.validate_enum_field_on_push", {"field.value": "value", "self.nbits()": "nbits"})
    out.append(f"Definition enum_value_overflows (value nbits : Z) : bool := {tr.b(conds[0][0], {})}.")

    # Message.validate_post_freeze
    fn = find_func(tree, "validate_post_freeze", "Message")
    conds = raise_conditions(fn)
    others = [ast.unparse(s) for s in strip_doc(fn) if not isinstance(s, ast.If)]
    if [e for _, e in conds] != ["MessageSizeOverflows", "MessageSizeOverflows"] \
            or others != ["max_bytes = self.get_option_as_int_or_raise('max_bytes')"]:
        raise Broken("translator(front): Message.validate_post_freeze: unexpected shape",
                     str([(ast.unparse(t), e) for t, e in conds]) + str(others))
    tr = TrF("Message.validate_post_freeze", {"self.nbits()": "nbits", "self.nbytes()": "nbytes",
                                              "max_bytes": "max_bytes"})
    out.append(f"Definition message_size_raises (nbits : Z) : bool := {tr.b(conds[0][0], {})}.")
    out.append(f"Definition message_max_bytes_raises (max_bytes nbytes : Z) : bool := {tr.b(conds[1][0], {})}.")
    out.append('Definition max_bytes_option_name : string := "max_bytes"%string.')

    fn = find_func(tree, "validate_message_field_on_push", "Message")
    conds = raise_conditions(fn)
    if [(ast.unparse(t), e) for t, e in conds] != [("field.number in self.number_to_field()",
                                                    "DuplicatedMessageFieldNumber")]:
        raise Broken("translator(front): Message.validate_message_field_on_push: unexpected shape")

    out.append("")
    out.append("(* sizes *)")
    fn = find_func(tree, "nbytes", "Type")
    body = strip_doc(fn)
    if not (isinstance(body[0], ast.Assign) and ast.unparse(body[0]) == "nbits = self.nbits()"):
        raise Broken("translator(front): Type.nbytes does not start with `nbits = self.nbits()`")
    out.append(f"Definition nbytes (nbits : Z) : Z := {Tr('Type.nbytes').body(body[1:], {'nbits': 'nbits'})}.")
    out.append(f"Definition bool_nbits : Z := {_const_return(tree, 'Bool', 'nbits')}.")
    out.append(f"Definition byte_nbits : Z := {_const_return(tree, 'Byte', 'nbits')}.")
    _return_text(tree, "Uint", "nbits", "self.cap")
    _return_text(tree, "Int", "nbits", "self.cap")
    _return_text(tree, "Enum", "nbits", "self.type.nbits()")
    _return_text(tree, "Alias", "nbits", "self.type.nbits()")
    out.append(_ext_nbits(tree, "Array", "self.cap * self.element_type.nbits()", "array_nbits", "cap elem_nbits",
                          "(cap * elem_nbits)"))
    out.append(_ext_nbits(tree, "Message", "sum((field.type.nbits() for field in self.fields()))",
                          "message_nbits", "fields_nbits", "fields_nbits"))

    out.append("")
    out.append("(* options.py *)")
    out.append(_options(otree, "MESSAGE_OPTIONS"))
    out.append(_options(otree, "PROTO_OPTTIONS"))
    # which table a scope uses
    for cname, var in (("Message", "MESSAGE_OPTIONS"), ("Proto", "PROTO_OPTTIONS")):
        c = _cls(tree, cname)
        ok = any(isinstance(n, ast.AnnAssign) and ast.unparse(n.target) == "__option_descriptors__"
                 and ast.unparse(n.value) == var for n in c.body)
        if not ok:
            raise Broken(f"translator(front): {cname}.__option_descriptors__ is not {var}")

    # ---- hand-modelled control: AST digests ----
    masks = {("validate_post_freeze", "Message"): [t for t, _ in raise_conditions(find_func(tree, "validate_post_freeze", "Message"))],
             ("validate_enum_field_on_push", "Enum"): [raise_conditions(find_func(tree, "validate_enum_field_on_push", "Enum"))[0][0]]}
    for meth, cls in AST_SKELETONS:
        # expressions that are TRANSLATED (and proved about) are masked out of the structural digest
        skel[f"_ast.py:{cls}.{meth}"] = skeleton_digest(find_func(tree, meth, cls), masks.get((meth, cls), ()))
    for cname in ("Uint", "Int", "Bool", "Byte", "Array", "Alias", "EnumField", "Enum", "MessageField", "Message",
                  "Proto", "IntegerConstant", "BooleanConstant", "StringConstant", "IntegerOption",
                  "BooleanOption", "StringOption", "Scope", "ScopeWithOptions", "BoundScope"):
        c = _cls(tree, cname)
        skel[f"_ast.py:class {cname}"] = "|".join([ast.unparse(b) for b in c.bases] +
                                                  [ast.unparse(d) for d in c.decorator_list])
    for meth in PARSER_SKELETONS:
        skel[f"parser.py:Parser.{meth}"] = skeleton_digest(find_func(ptree, meth, "Parser"))
    pc = _cls(ptree, "Parser")
    for n in pc.body:
        if isinstance(n, ast.AnnAssign) and ast.unparse(n.target) == "precedence":
            skel["parser.py:Parser.precedence"] = ast.dump(n.value)
    skel["parser.py:parse"] = skeleton_digest(find_func(ptree, "parse"))
    for meth in LEXER_SKELETONS:
        skel[f"lexer.py:Lexer.{meth}"] = skeleton_digest(find_func(ltree, meth, "Lexer"))
    lc = _cls(ltree, "Lexer")
    for n in lc.body:
        if isinstance(n, (ast.AnnAssign, ast.Assign)):
            tgt = n.target if isinstance(n, ast.AnnAssign) else n.targets[0]
            if ast.unparse(tgt) in ("t_ignore", "literals", "keywords", "tokens", "t_PLUS", "t_MINUS", "t_TIMES",
                                    "t_DIVIDE", "escaping_chars", "keywords_tokens"):
                skel[f"lexer.py:Lexer.{ast.unparse(tgt)}"] = ast.dump(n.value)
    skel["grammars.py"] = vlib.sha256("\n".join(l.rstrip() for l in gsrc.split("\n") if not l.startswith("#")))
    skel["_main.py:main"] = skeleton_digest(find_func(mtree, "main"))
    skel["utils.py:fatal"] = skeleton_digest(find_func(utree, "fatal"))
    skel["utils.py:frozen"] = skeleton_digest(find_func(utree, "frozen"))
    return "\n".join(out) + "\n", skel


GENERATORS = {"GenFront.v": gen_front}
