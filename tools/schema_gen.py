"""schema_gen — one generator of resolved schema trees, rendered to .bitproto text.

A schema is generated as a *resolved tree* first (the `ty` of coq/theories/Schema.v, plus
names and placements), then printed to one or more .bitproto files (imports, nested
definitions, aliases).  The same object yields:
  * the .bitproto files,
  * the Gallina term of the resolved type (declaration order preserved),
  * random / boundary values and their Gallina terms,
  * instructions for the implementation runners (how to reach each field).
Every random choice comes from the rng that is passed in.
"""
from __future__ import annotations

import keyword
from dataclasses import dataclass, field
from typing import Any, Dict, List, Optional, Tuple

from vlib import cbool, clist, cnat, cz

RESERVED = set(keyword.kwlist) | set(keyword.softkwlist) | {
    # bitproto
    "proto", "import", "option", "type", "const", "enum", "message", "typedef", "bool", "byte",
    "true", "false", "yes", "no",
    # C / C++
    "auto", "break", "case", "char", "const", "continue", "default", "do", "double", "else", "enum",
    "extern", "float", "for", "goto", "if", "inline", "int", "long", "register", "restrict", "return",
    "short", "signed", "sizeof", "static", "struct", "switch", "typedef", "union", "unsigned", "void",
    "volatile", "while", "class", "new", "delete", "this", "template", "namespace", "private", "public",
    "protected", "virtual", "friend", "operator", "try", "catch", "throw", "using", "bool", "true",
    "false", "and", "or", "not", "xor", "asm", "export", "typename", "mutable", "explicit",
    # Go
    "chan", "defer", "fallthrough", "func", "go", "interface", "map", "package", "range", "select",
    "type", "var", "string", "byte", "error", "len", "cap", "nil", "iota", "uint", "uintptr", "rune",
    # python-ish names the generated code uses
    "self", "field", "json", "bp", "encode", "decode", "di", "b", "s", "ctx", "List", "Dict", "Union",
    "ClassVar", "dataclass", "unique", "IntEnum", "size", "Size", "Encode", "Decode", "String",
    "to_json", "to_dict", "dict_factory", "bp_processor", "id", "abs", "all", "any", "bin", "dir",
    "hex", "max", "min", "oct", "ord", "pow", "set", "str", "sum", "zip", "list", "dict", "main",
}


def _letters(i: int) -> str:
    s = ""
    i += 1
    while i > 0:
        i, r = divmod(i - 1, 26)
        s = chr(97 + r) + s
    return s


@dataclass
class T:
    kind: str                       # bool byte uint int enum alias arr msg
    n: int = 0                      # width (uint/int/enum)
    members: List[Tuple[str, int]] = field(default_factory=list)   # enum, declaration order
    t: Optional["T"] = None         # alias target / array element
    ext: bool = False
    cap: int = 0
    fields: List[Tuple[int, str, "T"]] = field(default_factory=list)  # msg, DECLARATION order
    name: str = ""                  # named types
    file: int = 0                   # index of the file that defines it
    parent: Optional["T"] = None    # enclosing message when nested
    nested: List["T"] = field(default_factory=list)   # definitions nested in this message

    # ---- sizes -------------------------------------------------------------------------
    def nbits(self) -> int:
        k = self.kind
        if k == "bool":
            return 1
        if k == "byte":
            return 8
        if k in ("uint", "int", "enum"):
            return self.n
        if k == "alias":
            return self.t.nbits()
        if k == "arr":
            return (16 if self.ext else 0) + self.cap * self.t.nbits()
        return (16 if self.ext else 0) + sum(ft.nbits() for _, _, ft in self.fields)

    def nleaves(self) -> int:
        k = self.kind
        if k == "alias":
            return self.t.nleaves()
        if k == "arr":
            return self.cap * self.t.nleaves()
        if k == "msg":
            return sum(ft.nleaves() for _, _, ft in self.fields)
        return 1

    def has_ext(self) -> bool:
        if self.kind in ("alias",):
            return self.t.has_ext()
        if self.kind == "arr":
            return self.ext or self.t.has_ext()
        if self.kind == "msg":
            return self.ext or any(ft.has_ext() for _, _, ft in self.fields)
        return False

    # ---- Gallina -----------------------------------------------------------------------
    def coq(self) -> str:
        k = self.kind
        if k == "bool":
            return "TBool"
        if k == "byte":
            return "TByte"
        if k == "uint":
            return f"(TUint {self.n})"
        if k == "int":
            return f"(TInt {self.n})"
        if k == "enum":
            return f"(TEnum {self.n} {clist(cz(v) for _, v in self.members)})"
        if k == "alias":
            return f"(TAlias {self.t.coq()})"
        if k == "arr":
            return f"(TArr {cbool(self.ext)} {cnat(self.cap)} {self.t.coq()})"
        return f"(TMsg {cbool(self.ext)} {clist(f'({n}, {ft.coq()})' for n, _, ft in self.fields)})"

    def describe(self) -> Any:
        k = self.kind
        if k in ("bool", "byte"):
            return k
        if k in ("uint", "int"):
            return f"{k}{self.n}"
        if k == "enum":
            return f"enum{self.n}:{[v for _, v in self.members]}"
        if k == "alias":
            return {"alias": self.t.describe()}
        if k == "arr":
            return {("arr'" if self.ext else "arr") + str(self.cap): self.t.describe()}
        return {("msg'" if self.ext else "msg"): {str(n): ft.describe() for n, _, ft in self.fields}}


# ---- values ---------------------------------------------------------------------------------

def gen_value(t: T, rng, mode: str) -> Any:
    """Python-side value tree: bool | int | list | dict{number: value}."""
    k = t.kind
    if k == "bool":
        return {"zero": False, "max": True, "min": False, "ones": True}.get(mode, rng.random() < 0.5)
    if k == "byte":
        lo, hi = 0, 255
    elif k == "uint":
        lo, hi = 0, (1 << t.n) - 1
    elif k == "int":
        lo, hi = -(1 << (t.n - 1)), (1 << (t.n - 1)) - 1
    elif k == "enum":
        vals = [v for _, v in t.members]
        if mode == "zero":
            return vals[0]
        if mode == "max":
            return max(vals)
        if mode == "min":
            return min(vals)
        return rng.choice(vals)
    elif k == "alias":
        return gen_value(t.t, rng, mode)
    elif k == "arr":
        return [gen_value(t.t, rng, mode) for _ in range(t.cap)]
    else:
        return {n: gen_value(ft, rng, mode) for n, _, ft in t.fields}
    if mode == "zero":
        return 0
    if mode == "max":
        return hi
    if mode == "min":
        return lo
    if mode == "ones":
        return -1 if lo < 0 else hi
    r = rng.random()
    if r < 0.15:
        return rng.choice([lo, hi, 0, lo + 1 if lo + 1 <= hi else lo, hi - 1 if hi - 1 >= lo else hi])
    if r < 0.30:
        w = max(1, hi.bit_length())
        v = 1 << rng.randrange(w)
        if lo < 0 and rng.random() < 0.5:
            v = -v
        return min(max(v, lo), hi)
    return rng.randint(lo, hi)


def coq_val(t: T, v: Any) -> str:
    k = t.kind
    if k == "bool":
        return f"(VB {cbool(bool(v))})"
    if k in ("byte", "uint", "int", "enum"):
        return f"(VZ {cz(int(v))})"
    if k == "alias":
        return coq_val(t.t, v)
    if k == "arr":
        return f"(VL {clist(coq_val(t.t, x) for x in v)})"
    return f"(VM {clist(f'({n}, {coq_val(ft, v[n])})' for n, _, ft in t.fields)})"


def coq_val_raw(v: Any) -> str:
    """Gallina term of a value tree read back from an implementation (no schema)."""
    if isinstance(v, bool):
        return f"(VB {cbool(v)})"
    if isinstance(v, int):
        return f"(VZ {cz(v)})"
    if isinstance(v, list):
        return f"(VL {clist(coq_val_raw(x) for x in v)})"
    if isinstance(v, dict):
        return f"(VM {clist(f'({int(n)}, {coq_val_raw(x)})' for n, x in v.items())})"
    raise TypeError(v)


# ---- schema: files + tree ---------------------------------------------------------------------

@dataclass
class SFile:
    idx: int
    base: str                       # file base name (without .bitproto)
    proto: str                      # proto name
    imports: List[Tuple[int, Optional[str]]] = field(default_factory=list)  # (file idx, as-name)
    defs: List[T] = field(default_factory=list)    # top-level definitions, in emission order
    options: List[str] = field(default_factory=list)


@dataclass
class Schema:
    files: List[SFile]
    top: T
    texts: Dict[str, str] = field(default_factory=dict)

    @property
    def main(self) -> str:
        return self.files[0].base + ".bitproto"

    def coq_ty(self) -> str:
        return self.top.coq()


class Params:
    def __init__(self, **kw):
        self.max_depth = 3
        self.max_fields = 6
        self.max_bits = 3000
        self.max_leaves = 400
        self.allow_ext = True
        self.allow_import = True
        self.allow_nested = True
        self.allow_enum = True
        self.allow_alias = True
        self.allow_signed = True
        self.big_prob = 0.05
        self.pascal_fields = False
        self.enum_nonzero_first = 0.0   # probability that an enum's first member is not 0 (C02 finding enum-default)
        self.cross_nested = False   # reference Outer.Inner of an imported file (C10 finding py-nested-import)
        for k, v in kw.items():
            if not hasattr(self, k):
                raise KeyError(k)
            setattr(self, k, v)


WIDTHS = [1, 2, 3, 5, 7, 8, 9, 12, 13, 15, 16, 17, 24, 31, 32, 33, 40, 48, 56, 63, 64]


class Gen:
    def __init__(self, rng, params: Optional[Params] = None):
        self.rng = rng
        self.p = params or Params()
        self.counter = 0
        self.files: List[SFile] = [SFile(0, "main" + _letters(rng.randrange(26)), "")]
        self.files[0].proto = self.files[0].base
        self.bits_left = self.p.max_bits
        self.leaves_left = self.p.max_leaves
        self.named: List[T] = []       # completed named types (for reuse)

    # ---- names -------------------------------------------------------------------------
    def _fresh(self, style: str) -> str:
        while True:
            s = _letters(self.counter)
            self.counter += 1
            if style == "pascal":
                name = "T" + s
            elif style == "upper":
                name = "K" + s.upper()
            else:
                name = "f" + s
            if name.lower() not in RESERVED and name not in RESERVED:
                return name

    def width(self) -> int:
        r = self.rng.random()
        if r < 0.7:
            return self.rng.choice(WIDTHS)
        return self.rng.randint(1, 64)

    # ---- visibility ------------------------------------------------------------------
    def _ref(self, t: T, ctx_file: int, chain: List[T]) -> Optional[str]:
        """How to refer to the named type t from a position in file ctx_file inside the
        message chain `chain` (outermost first); None when not visible."""
        path = []
        x = t
        while x is not None:
            path.append(x)
            x = x.parent
        path.reverse()                      # outermost message ... t
        root = path[0]
        # innermost enclosing message that is on our chain
        common = 0
        for a, b in zip(path[:-1], chain):
            if a is b:
                common += 1
            else:
                break
        if common > 0:
            return ".".join(x.name for x in path[common:])
        if len(path) > 1 and not any(root is n for n in self.named):
            return None                      # enclosing message not completed yet
        if root.file == ctx_file:
            return ".".join(x.name for x in path)
        for (fi, as_name) in self.files[ctx_file].imports:
            if fi == root.file:
                if len(path) > 1 and not self.p.cross_nested:
                    return None
                pre = as_name or self.files[fi].proto
                return pre + "." + ".".join(x.name for x in path)
        return None

    def _visible(self, ctx_file: int, chain: List[T], kinds) -> List[T]:
        out = []
        for t in self.named:
            if t.kind in kinds and self._ref(t, ctx_file, chain) is not None:
                # a message on our own chain cannot be used (recursive)
                if t in chain:
                    continue
                out.append(t)
        return out

    # ---- generation ------------------------------------------------------------------
    def _place(self, t: T, ctx_file: int, chain: List[T], can_nest: bool) -> Tuple[int, List[T]]:
        """Choose where the new named type lives; returns (file, chain for its inside)."""
        r = self.rng.random()
        if can_nest and chain and self.p.allow_nested and r < 0.35:
            t.parent = chain[-1]
            t.file = ctx_file
            return ctx_file, chain
        if self.p.allow_import and r > 0.8 and len(self.files) < 4:
            # a (possibly new) file imported by ctx_file
            cands = [fi for fi, _ in self.files[ctx_file].imports]
            if not cands or self.rng.random() < 0.5:
                nf = SFile(len(self.files), "lib" + _letters(len(self.files) * 20 + self.rng.randrange(20)), "")
                nf.proto = nf.base
                self.files.append(nf)
                as_name = None
                if self.rng.random() >= 0.5:
                    used = {a for f in self.files for _, a in f.imports if a}
                    while True:
                        as_name = "im" + _letters(self.rng.randrange(500))
                        if as_name not in used and as_name not in RESERVED:
                            break
                self.files[ctx_file].imports.append((nf.idx, as_name))
                fi = nf.idx
            else:
                fi = self.rng.choice(cands)
            t.file = fi
            t.parent = None
            return fi, []
        t.file = ctx_file
        t.parent = None
        return ctx_file, []

    def _finish(self, t: T) -> None:
        if t.parent is not None:
            t.parent.nested.append(t)
        else:
            self.files[t.file].defs.append(t)
        self.named.append(t)

    def gen_enum(self, ctx_file: int, chain: List[T]) -> T:
        n = self.width()
        t = T("enum", n=n, name=self._fresh("pascal"))
        self._place(t, ctx_file, chain, True)
        cnt = self.rng.randint(1, min(5, 1 << n))
        vals = set()
        if self.rng.random() < 0.8:
            vals.add(0)
        while len(vals) < cnt:
            r = self.rng.random()
            if r < 0.3:
                vals.add((1 << n) - 1)
            elif r < 0.6:
                vals.add(self.rng.randrange(min(1 << n, 16)))
            else:
                vals.add(self.rng.randrange(1 << n))
        vals = list(vals)
        self.rng.shuffle(vals)
        if self.rng.random() < self.p.enum_nonzero_first and len(vals) > 1 or (1 << n) == 1:
            if vals[0] == 0 and len(vals) > 1:
                vals[0], vals[1] = vals[1], vals[0]
        else:                                           # zero member first (usual style)
            if 0 in vals:
                vals.remove(0)
            vals.insert(0, 0)
        t.members = [(self._fresh("upper"), v) for v in vals]
        self._finish(t)
        return t

    def gen_base(self) -> T:
        r = self.rng.random()
        if r < 0.15:
            return T("bool")
        if r < 0.25:
            return T("byte")
        if r < 0.65 or not self.p.allow_signed:
            return T("uint", n=self.width())
        return T("int", n=self.width())

    def gen_array(self, ctx_file: int, chain: List[T], depth: int, elem: Optional[T] = None, num: int = 0) -> T:
        if elem is None:
            r = self.rng.random()
            if r < 0.55:
                elem = self.gen_base()
            elif r < 0.65 and self.p.allow_enum:
                elem = self.pick_enum(ctx_file, chain)
            elif r < 0.8 and self.p.allow_alias:
                elem = self.pick_alias(ctx_file, chain, depth + 1)
            elif depth < self.p.max_depth:
                elem = self.pick_msg(ctx_file, chain, depth + 1, hint_num=num)
            else:
                elem = self.gen_base()
        eb = max(1, elem.nbits())
        el = max(1, elem.nleaves())
        maxcap = max(1, min(self.bits_left // eb, self.leaves_left // el, 65535))
        if self.rng.random() < self.p.big_prob:
            cap = self.rng.randint(1, maxcap)
        else:
            cap = self.rng.randint(1, min(maxcap, 6))
        ext = self.p.allow_ext and self.rng.random() < 0.3
        return T("arr", ext=ext, cap=cap, t=elem)

    def pick_enum(self, ctx_file, chain) -> T:
        vis = self._visible(ctx_file, chain, ("enum",))
        if vis and self.rng.random() < 0.4:
            return self.rng.choice(vis)
        return self.gen_enum(ctx_file, chain)

    def pick_alias(self, ctx_file, chain, depth) -> T:
        vis = self._visible(ctx_file, chain, ("alias",))
        if vis and self.rng.random() < 0.4:
            return self.rng.choice(vis)
        t = T("alias", name=self._fresh("pascal"))
        fi, ch = self._place(t, ctx_file, chain, False)
        if self.rng.random() < 0.5:
            t.t = self.gen_base()
        else:
            t.t = self.gen_array(fi, ch, depth)
        self._finish(t)
        return t

    def pick_msg(self, ctx_file, chain, depth, hint_num: int = 0) -> T:
        vis = self._visible(ctx_file, chain, ("msg",))
        if vis and self.rng.random() < 0.35 and not hint_num:
            return self.rng.choice(vis)
        return self.gen_msg(ctx_file, chain, depth, hint_num=hint_num)

    def gen_type(self, ctx_file: int, chain: List[T], depth: int, num: int = 0, force_array: bool = False) -> T:
        r = self.rng.random()
        if force_array:
            return self.gen_array(ctx_file, chain, depth, num=num)
        if r < 0.45:
            return self.gen_base()
        if r < 0.55 and self.p.allow_enum:
            return self.pick_enum(ctx_file, chain)
        if r < 0.68 and self.p.allow_alias:
            return self.pick_alias(ctx_file, chain, depth)
        if r < 0.85:
            return self.gen_array(ctx_file, chain, depth, num=num)
        if depth < self.p.max_depth:
            return self.pick_msg(ctx_file, chain, depth + 1, hint_num=num)
        return self.gen_base()

    def gen_msg(self, ctx_file: int, chain: List[T], depth: int, top: bool = False, hint_num: int = 0) -> T:
        m = T("msg", name=self._fresh("pascal"))
        if top:
            m.file, m.parent = 0, None
            fi, ch = 0, []
        else:
            fi, ch = self._place(m, ctx_file, chain, True)
        m.ext = self.p.allow_ext and self.rng.random() < 0.35
        nf = self.rng.choice([0, 1, 1, 2, 2, 3, 3, 4, 5, self.p.max_fields]) if not top else \
            self.rng.randint(1, self.p.max_fields)
        nums = set()
        while len(nums) < nf:
            nums.add(self.rng.randint(1, 255) if self.rng.random() < 0.3 else self.rng.randint(1, 12))
        # a nested message often re-uses the number of the field that contains it (two data
        # indexers with the same field number at different depths)
        reuse = hint_num if (hint_num and self.rng.random() < 0.6) else 0
        if reuse:
            nums.add(reuse)
        nums = list(nums)
        if self.rng.random() < 0.5:
            nums.sort()
        else:
            self.rng.shuffle(nums)
        inner = ch + [m]
        for num in nums:
            if self.bits_left <= 0 or self.leaves_left <= 0:
                break
            ft = self.gen_type(fi, inner, depth, num=num,
                               force_array=(num == reuse and self.rng.random() < 0.7))
            nb, nl = ft.nbits(), ft.nleaves()
            if nb > self.bits_left or nl > self.leaves_left:
                ft = T("bool")
                nb, nl = 1, 1
            self.bits_left -= nb
            self.leaves_left -= nl
            m.fields.append((num, self._fresh("snake"), ft))
        self._finish(m)
        return m

    def schema(self) -> Schema:
        top = self.gen_msg(0, [], 0, top=True)
        s = Schema(self.files, top)
        s.texts = render_files(self, s)
        return s


# ---- printing ----------------------------------------------------------------------------------

def type_text(g: Gen, t: T, ctx_file: int, chain: List[T]) -> str:
    k = t.kind
    if k in ("bool", "byte"):
        return k
    if k in ("uint", "int"):
        return f"{k}{t.n}"
    if k == "arr":
        return f"{type_text(g, t.t, ctx_file, chain)}[{t.cap}]" + ("'" if t.ext else "")
    ref = g._ref(t, ctx_file, chain)
    if ref is None:
        raise RuntimeError(f"generator bug: {t.name} not visible from file {ctx_file}")
    return ref


def render_def(g: Gen, t: T, chain: List[T], ind: int, out: List[str]) -> None:
    pad = " " * ind
    if t.kind == "enum":
        out.append(f"{pad}enum {t.name} : uint{t.n} {{")
        for nm, v in t.members:
            out.append(f"{pad}    {nm} = {v}")
        out.append(f"{pad}}}")
    elif t.kind == "alias":
        out.append(f"{pad}type {t.name} = {type_text(g, t.t, t.file, chain)}")
    else:
        out.append(f"{pad}message {t.name}" + ("'" if t.ext else "") + " {")
        inner = chain + [t]
        for d in t.nested:
            render_def(g, d, inner, ind + 4, out)
        for num, nm, ft in t.fields:
            out.append(f"{pad}    {type_text(g, ft, t.file, inner)} {nm} = {num}")
        out.append(f"{pad}}}")


def render_files(g: Gen, s: Schema) -> Dict[str, str]:
    texts = {}
    for f in s.files:
        out = [f"proto {f.proto}", ""]
        for fi, as_name in f.imports:
            tgt = s.files[fi].base + ".bitproto"
            out.append(f'import {as_name + " " if as_name else ""}"{tgt}"')
        out.extend(f.options)
        out.append("")
        for d in f.defs:
            render_def(g, d, [], 0, out)
            out.append("")
        texts[f.base + ".bitproto"] = "\n".join(out)
    return texts


# ---- language-side access paths -------------------------------------------------------------

def py_type_name(s: Schema, t: T, from_file: int) -> str:
    """Python expression naming the class of named type t as seen from module of file 0
    (only used by runners, which import the main module)."""
    parts = []
    x = t
    while x is not None:
        parts.append(x.name)
        x = x.parent
    return "_".join(reversed(parts))


def runner_tree(t: T) -> Any:
    """JSON-able description of the tree for the implementation runners."""
    k = t.kind
    if k in ("bool", "byte"):
        return [k]
    if k in ("uint", "int"):
        return [k, t.n]
    if k == "enum":
        return ["enum", t.n]
    if k == "alias":
        return ["alias", runner_tree(t.t)]
    if k == "arr":
        return ["arr", t.cap, runner_tree(t.t)]
    return ["msg", [[n, nm, runner_tree(ft)] for n, nm, ft in t.fields]]


# ---- (de)serialisation for the corpus and replays --------------------------------------------

def t_to_json(t: T) -> Any:
    k = t.kind
    d: Dict[str, Any] = {"k": k}
    if k in ("uint", "int"):
        d["n"] = t.n
    elif k == "enum":
        d["n"] = t.n
        d["members"] = [[nm, v] for nm, v in t.members]
    elif k == "alias":
        d["t"] = t_to_json(t.t)
    elif k == "arr":
        d.update(ext=t.ext, cap=t.cap, t=t_to_json(t.t))
    elif k == "msg":
        d.update(ext=t.ext, fields=[[n, nm, t_to_json(ft)] for n, nm, ft in t.fields])
    if t.name:
        d["name"] = t.name
        d["pyname"] = py_type_name(None, t, 0)
    return d


class _FlatT(T):
    pyname: str = ""


def t_from_json(d: Any) -> T:
    k = d["k"]
    t = T(k)
    if k in ("uint", "int"):
        t.n = d["n"]
    elif k == "enum":
        t.n = d["n"]
        t.members = [(nm, v) for nm, v in d["members"]]
    elif k == "alias":
        t.t = t_from_json(d["t"])
    elif k == "arr":
        t.ext, t.cap, t.t = d["ext"], d["cap"], t_from_json(d["t"])
    elif k == "msg":
        t.ext = d["ext"]
        t.fields = [(n, nm, t_from_json(ft)) for n, nm, ft in d["fields"]]
    t.name = d.get("pyname", d.get("name", ""))     # flat: name already joined, no parent
    return t


def schema_to_json(s: Schema) -> Any:
    return {"texts": s.texts, "main_base": s.files[0].base, "top": t_to_json(s.top)}


def schema_from_json(j: Any) -> Schema:
    f = SFile(0, j["main_base"], j["main_base"])
    s = Schema([f], t_from_json(j["top"]))
    s.texts = dict(j["texts"])
    return s


def value_to_json(t: T, v: Any) -> Any:
    k = t.kind
    if k == "alias":
        return value_to_json(t.t, v)
    if k == "arr":
        return [value_to_json(t.t, x) for x in v]
    if k == "msg":
        return {str(n): value_to_json(ft, v[n] if n in v else v[str(n)]) for n, _, ft in t.fields}
    return v


def value_from_json(t: T, v: Any) -> Any:
    k = t.kind
    if k == "alias":
        return value_from_json(t.t, v)
    if k == "arr":
        return [value_from_json(t.t, x) for x in v]
    if k == "msg":
        return {n: value_from_json(ft, v[str(n)]) for n, _, ft in t.fields}
    return v


def distribution(schemas: List[Schema]) -> Dict[str, Any]:
    from collections import Counter
    kinds: Counter = Counter()
    widths: Counter = Counter()
    depth: Counter = Counter()
    nfiles: Counter = Counter()
    nb: Counter = Counter()

    def walk(t: T, d: int) -> int:
        kinds[t.kind + ("'" if t.ext else "")] += 1
        if t.kind in ("uint", "int", "enum"):
            widths[t.n] += 1
        if t.kind in ("alias", "arr"):
            return walk(t.t, d)
        if t.kind == "msg":
            return max([d] + [walk(ft, d + 1) for _, _, ft in t.fields])
        return d

    for s in schemas:
        depth[walk(s.top, 0)] += 1
        nfiles[len(s.texts)] += 1
        b = s.top.nbits()
        nb["<=64" if b <= 64 else "<=512" if b <= 512 else "<=4096" if b <= 4096 else ">4096"] += 1
    return {"kinds": dict(kinds), "widths": {str(k): v for k, v in sorted(widths.items())},
            "message_depth": {str(k): v for k, v in sorted(depth.items())},
            "files_per_schema": {str(k): v for k, v in sorted(nfiles.items())}, "nbits": dict(nb)}
