"""t1_c — tie T1 for generated C (standard mode): parse the descriptors the compiler EMITTED
(BpMessageFieldDescriptor tables, BpArrayDescriptor / BpAliasDescriptor / BpMessageDescriptor
initialisers, sizeof expressions resolved through the emitted typedefs) into the [desc] tree of
coq/theories/CRt.v; Coq then compares it with what the renderer model [render (norm t)]
predicts.  Fail closed: anything not recognised raises T1Error.
"""
from __future__ import annotations

import re
from typing import Any, Dict, List, Optional, Tuple


class T1Error(Exception):
    pass


SCALAR_SIZE = {"bool": 1, "unsigned char": 1, "uint8_t": 1, "int8_t": 1, "uint16_t": 2, "int16_t": 2,
               "uint32_t": 4, "int32_t": 4, "uint64_t": 8, "int64_t": 8}


def split_args(s: str) -> List[str]:
    out, depth, cur = [], 0, ""
    for ch in s:
        if ch == "(":
            depth += 1
        elif ch == ")":
            depth -= 1
        if ch == "," and depth == 0:
            out.append(cur.strip())
            cur = ""
        else:
            cur += ch
    if cur.strip():
        out.append(cur.strip())
    return out


def call(s: str) -> Tuple[str, List[str]]:
    m = re.fullmatch(r"\s*(\w+)\((.*)\)\s*", s, flags=re.S)
    if not m:
        raise T1Error(f"not a call: {s[:80]}")
    return m.group(1), split_args(m.group(2))


class CT1:
    def __init__(self, generated: Dict[str, str]):
        self.typedefs: Dict[str, Tuple[str, Optional[int]]] = {}     # name -> (base type text, array length)
        self.funcs: Dict[str, str] = {}
        for name, text in generated.items():
            if name.endswith(".h"):
                for m in re.finditer(r"^typedef\s+(.+?)\s+(\w+)(?:\[(\d+)\])?;", text, flags=re.M):
                    self.typedefs[m.group(2)] = (m.group(1).strip(), int(m.group(3)) if m.group(3) else None)
            if name.endswith(".c"):
                for m in re.finditer(r"^void (\w+)\(([^)]*)\) \{\n(.*?)^\}", text, flags=re.M | re.S):
                    self.funcs[m.group(1)] = m.group(3)

    # ---- sizeof ---------------------------------------------------------------------------
    def sizeof_type(self, ty: str) -> int:
        ty = ty.strip()
        if ty in SCALAR_SIZE:
            return SCALAR_SIZE[ty]
        if ty.startswith("struct "):
            return 0                     # struct sizes are gcc's business (not in the model)
        if ty in self.typedefs:
            base, n = self.typedefs[ty]
            return self.sizeof_type(base) * (n if n is not None else 1)
        raise T1Error(f"sizeof of unknown type {ty}")

    def size_expr(self, e: str) -> int:
        m = re.fullmatch(r"sizeof\((.+)\)", e.strip())
        if m:
            return self.sizeof_type(m.group(1))
        m = re.fullmatch(r"(\d+) \* sizeof\((.+)\)", e.strip())
        if m:
            return int(m.group(1)) * self.sizeof_type(m.group(2))
        raise T1Error(f"unrecognised size expression {e}")

    # ---- BpType ---------------------------------------------------------------------------
    def bptype(self, s: str, fieldnums: Optional[Dict[str, Dict[str, int]]] = None) -> str:
        fn, a = call(s)
        if fn == "BpBool" and a == []:
            return "(DBase BP_TYPE_BOOL BpBool_nbits 1)"
        if fn == "BpByte" and a == []:
            return "(DBase BP_TYPE_BYTE BpByte_nbits 1)"
        if fn in ("BpUint", "BpInt", "BpEnum") and len(a) == 2:
            flag = {"BpUint": "BP_TYPE_UINT", "BpInt": "BP_TYPE_INT", "BpEnum": "BP_TYPE_ENUM"}[fn]
            return f"(DBase {flag} {int(a[0])} {self.size_expr(a[1])})"
        if fn == "BpAlias" and len(a) == 5:
            if not re.fullmatch(r"BP_TYPE_\w+", a[4]):
                raise T1Error(f"alias to_flag {a[4]}")
            return f"(DAlias {int(a[0])} {self.size_expr(a[1])} {a[4]} {self.alias_proc(a[2])})"
        if fn == "BpArray" and len(a) == 4:
            ext, cap, elem = self.array_proc(a[2])
            return f"(DArray {int(a[0])} {self.size_expr(a[1])} {ext} {cap} {elem})"
        if fn == "BpMessage" and len(a) == 4:
            self.size_expr(a[1])
            return self.message_proc(a[2], int(a[0]))
        raise T1Error(f"unrecognised BpType constructor {s[:80]}")

    def body(self, fname: str) -> str:
        if fname not in self.funcs:
            raise T1Error(f"processor function {fname} not emitted")
        return self.funcs[fname]

    def alias_proc(self, fname: str) -> str:
        b = self.body(fname)
        m = re.fullmatch(r"\s*struct BpAliasDescriptor descriptor = BpAliasDescriptor\((.*)\);\n"
                         r"\s*BpEndecodeAlias\(&descriptor, ctx, data\);\n", b, flags=re.S)
        if not m:
            raise T1Error(f"{fname}: not the alias processor shape")
        return self.bptype(m.group(1))

    def array_proc(self, fname: str) -> Tuple[str, int, str]:
        b = self.body(fname)
        m = re.fullmatch(r"\s*struct BpArrayDescriptor descriptor = BpArrayDescriptor\((true|false), (\d+), (.*)\);\n"
                         r"\s*BpEndecodeArray\(&descriptor, ctx, data\);\n", b, flags=re.S)
        if not m:
            raise T1Error(f"{fname}: not the array processor shape")
        return m.group(1), int(m.group(2)), self.bptype(m.group(3))

    def message_proc(self, fname: str, nbits: int) -> str:
        b = self.body(fname)
        m = re.fullmatch(r"\s*struct (\w+) \*m = \(struct (\w+) \*\)\(data\);\n"
                         r"\s*struct BpMessageFieldDescriptor field_descriptors\[(\d+)\];\n"
                         r"\s*(\w+)\(m, field_descriptors\);\n"
                         r"\s*struct BpMessageDescriptor descriptor = BpMessageDescriptor\((true|false), (\d+), (\d+), field_descriptors\);\n"
                         r"\s*BpEndecodeMessage\(&descriptor, ctx, data\);\n", b, flags=re.S)
        if not m or m.group(1) != m.group(2):
            raise T1Error(f"{fname}: not the message processor shape")
        cname, arrlen, initer, ext, nf, dn = m.group(1), int(m.group(3)), m.group(4), m.group(5), int(m.group(6)), int(m.group(7))
        if arrlen != nf:
            raise T1Error(f"{fname}: field_descriptors[{arrlen}] but nfields {nf}")
        ib = self.body(initer)
        fds = []
        k = 0
        for line in [ln for ln in ib.strip().split("\n") if ln.strip()]:
            mm = re.fullmatch(r"\s*fds\[(\d+)\] = BpMessageFieldDescriptor\(\(void \*\)&\(m->(\w+)\), (.*), \"(\w+)\"\);", line)
            if not mm or int(mm.group(1)) != k or mm.group(2) != mm.group(4):
                raise T1Error(f"{initer}: unrecognised field descriptor line {line[:100]}")
            num = self.fieldnums.get(cname, {}).get(mm.group(2))
            if num is None:
                raise T1Error(f"{initer}: field {mm.group(2)} of struct {cname} is not a field of the schema")
            fds.append(f"({num}, {self.bptype(mm.group(3))})")
            k += 1
        return f"(DMsg {dn if nbits is None else nbits} {ext} {nf} {dn} [" + "; ".join(fds) + "])"

    def top(self, cname: str, nbits: Optional[int], fieldnums: Dict[str, Dict[str, int]], prefix: str = "BpXXXProcess") -> str:
        """desc of the top message struct `cname`; fieldnums: struct name -> {member name: field number}"""
        self.fieldnums = fieldnums
        return self.message_proc(prefix + cname, nbits)
