"""run_opmode — worker for C04: compile schemas with the /repo compiler in optimization mode
(C with --endian little / big / both, Go), build the C outputs with gcc into shared objects
(under the job directory, inside build/) and drive Encode<Msg> / Decode<Msg> through ctypes on
raw struct memory.  The struct layout comes from a gcc sizeof/offsetof probe generated here and
compiled into the same shared object.

stdin : JSON list of jobs {id, dir, files{name:text}, top_norm (normalised struct name), nbytes,
        leaves:[C member designator], values:[[pattern per leaf]], rand_bufs:[[byte]], run_c: bool}
stdout: JSON list of results {id, c:{endian:{file:text}}, go:{file:text}, layout:{size, leaves:[[off,size]]},
        runs:{config:[{enc:[..], dec:[..], dirty:[..], oob:bool}]}, rand:{config:[[..]]}}
Never trusted: everything reported is re-checked in Coq against the model and Spec.
"""
import ctypes
import json
import os
import re
import signal
import subprocess
import sys
import traceback

SLACK = 4096      # guard zone behind the buffer and behind the struct (a too long copy must be SEEN, not crash)
DIRTY = 0xA5
CONFIGS = [("little", "little", False), ("big", "big", False), ("both", "both", False), ("both_be", "both", True)]


def _alarm(_s, _f):
    raise TimeoutError("implementation did not return within the time limit")


signal.signal(signal.SIGALRM, _alarm)


def norm(s):
    return s.replace("_", "").lower()


def compile_all(job):
    from bitproto.parser import parse
    from bitproto.renderer import render
    d = job["dir"]
    os.makedirs(d, exist_ok=True)
    for name, text in job["files"].items():
        with open(os.path.join(d, name), "w") as f:
            f.write(text)
    outs = {"c": {}, "go": {}}
    for endian in ("little", "big", "both"):
        od = os.path.join(d, "c_" + endian)
        os.makedirs(od, exist_ok=True)
        got = {}
        for name in job["files"]:
            proto = parse(os.path.join(d, name), traditional_mode=True)
            for p in render(proto, "c", outdir=od, optimization_mode=True, optimization_mode_endian=endian):
                got[os.path.basename(p)] = open(p).read()
        outs["c"][endian] = got
    od = os.path.join(d, "go")
    os.makedirs(od, exist_ok=True)
    for name in job["files"]:
        proto = parse(os.path.join(d, name), traditional_mode=True)
        for p in render(proto, "go", outdir=od, optimization_mode=True):
            outs["go"][os.path.basename(p)] = open(p).read()
    return outs


def build(job, outs, cfg, endian, macro):
    od = os.path.join(job["dir"], "c_" + endian)
    hdrs = sorted(n for n in outs["c"][endian] if n.endswith(".h"))
    struct = None
    for n in hdrs:
        for m in re.finditer(r"(?m)^struct (\w+) \{", outs["c"][endian][n]):
            if norm(m.group(1)) == job["top_norm"]:
                struct = m.group(1)
    if struct is None:
        raise RuntimeError("top-level struct not found in the emitted headers")
    probe = ["#include <stddef.h>"] + [f'#include "{n}"' for n in hdrs]
    items = [f"sizeof(struct {struct})"]
    for des in job["leaves"]:
        items.append(f"offsetof(struct {struct}, {des})")
        items.append(f"sizeof(((struct {struct} *)0)->{des})")
    probe.append("unsigned long long bp_probe[] = {" + ", ".join(items) + "};")
    probe.append(f"int bp_probe_encode(void *m, unsigned char *s) {{ return Encode{struct}((struct {struct} *)m, s); }}")
    probe.append(f"int bp_probe_decode(void *m, unsigned char *s) {{ return Decode{struct}((struct {struct} *)m, s); }}")
    ppath = os.path.join(od, f"probe_{cfg}.c")
    with open(ppath, "w") as f:
        f.write("\n".join(probe) + "\n")
    so = os.path.join(od, f"lib_{cfg}.so")
    srcs = [os.path.join(od, n) for n in sorted(outs["c"][endian]) if n.endswith(".c")]
    cc = job.get("cc") or ["gcc", "-O1"]
    cmd = [cc[0], "-shared", "-fPIC", "-w"] + cc[1:] + (["-DBP_BIG_ENDIAN"] if macro else []) + \
          ["-I", od, "-o", so, ppath] + srcs
    p = subprocess.run(cmd, capture_output=True, text=True, timeout=240)
    if p.returncode != 0:
        raise RuntimeError(cc[0] + " failed: " + p.stderr[-800:])
    return so


def run_config(job, so):
    lib = ctypes.CDLL(so)
    n = len(job["leaves"])
    arr = (ctypes.c_ulonglong * (1 + 2 * n)).in_dll(lib, "bp_probe")
    size = int(arr[0])
    lay = [(int(arr[1 + 2 * k]), int(arr[2 + 2 * k])) for k in range(n)]
    enc = lib.bp_probe_encode
    dec = lib.bp_probe_decode
    enc.argtypes = dec.argtypes = [ctypes.c_void_p, ctypes.c_void_p]
    nb = job["nbytes"]

    def read_leaves(mem):
        return [int.from_bytes(bytes(mem[o:o + z]), "little") for o, z in lay]

    def decode_into(fill, data):
        m = (ctypes.c_ubyte * (size + SLACK))(*([fill] * size + [0x5C] * SLACK))
        s = (ctypes.c_ubyte * (nb + SLACK))(*(list(data) + [0x5C] * SLACK))
        dec(ctypes.addressof(m), ctypes.addressof(s))
        oob = any(x != 0x5C for x in m[size:]) or list(s[:nb]) != list(data) or any(x != 0x5C for x in s[nb:])
        return read_leaves(m), oob

    runs = []
    for pats in job["values"]:
        r = {}
        signal.alarm(20)
        try:
            m = (ctypes.c_ubyte * (size + SLACK))()
            for (o, z), p in zip(lay, pats):
                m[o:o + z] = list(int(p % (1 << (8 * z))).to_bytes(z, "little"))
            before = bytes(m)
            s = (ctypes.c_ubyte * (nb + SLACK))(*([0] * nb + [0x5C] * SLACK))
            enc(ctypes.addressof(m), ctypes.addressof(s))
            r["enc"] = list(s[:nb])
            oob = any(x != 0x5C for x in s[nb:]) or bytes(m) != before
            r["dec"], o2 = decode_into(0, r["enc"])
            r["dirty"], o3 = decode_into(DIRTY, r["enc"])
            r["oob"] = bool(oob or o2 or o3)
        finally:
            signal.alarm(0)
        runs.append(r)
    rand = []
    for data in job.get("rand_bufs", []):
        signal.alarm(20)
        try:
            got, o = decode_into(0, data)
            rand.append({"dec": got, "oob": bool(o)})
        finally:
            signal.alarm(0)
    return {"size": size, "leaves": lay}, runs, rand


def do_job(job):
    res = {"id": job["id"]}
    try:
        signal.alarm(120)
        outs = compile_all(job)
        res["c"] = outs["c"]
        res["go"] = outs["go"]
    except BaseException as e:  # noqa
        res["compile_error"] = f"{type(e).__name__}: {e}"
        res["trace"] = traceback.format_exc()[-1500:]
        return res
    finally:
        signal.alarm(0)
    if not job.get("run_c", True):
        return res
    res["runs"], res["rand"], res["layout"] = {}, {}, {}
    for cfg, endian, macro in CONFIGS:
        try:
            so = build(job, outs, cfg, endian, macro)
            res["layout"][cfg], res["runs"][cfg], res["rand"][cfg] = run_config(job, so)
        except BaseException as e:  # noqa
            res.setdefault("build_error", {})[cfg] = f"{type(e).__name__}: {e}"[-1000:]
    return res


def main():
    jobs = json.load(sys.stdin)
    import bitproto
    repo = os.environ.get("VERIF_REPO", "/repo")
    assert bitproto.__file__.startswith(repo + "/"), bitproto.__file__
    out = []
    real_stdout = sys.stdout
    sys.stdout = sys.stderr
    for job in jobs:
        try:
            out.append(do_job(job))
        except BaseException as e:  # noqa
            out.append({"id": job.get("id"), "worker_error": f"{type(e).__name__}: {e}"})
    sys.stdout = real_stdout
    json.dump(out, sys.stdout)


if __name__ == "__main__":
    main()
