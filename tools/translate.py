"""translate — tie T0: regenerate coq/gen/*.v from /repo's current source on every run.

Fail-closed: only the constructs listed in tools/TRANSLATOR_RULES.md are accepted; anything
else raises Broken (a broken obligation).  Straight-line helpers are symbolically executed
into one expression / decision tree, so temporaries, statement order and early returns do
not matter.  Loop skeletons are not translated: their AST (with the translated expressions
masked out) is compared with a recorded reference, see SKELETONS.
"""
from __future__ import annotations

import ast
import hashlib
import json
import os
import re
from typing import Any, Callable, Dict, List, Optional, Sequence, Tuple

from vlib import COQ, REPO, VERIF, Broken, sha256, write_if_changed

# --------------------------------------------------------------------------------------
# Python expression -> Gallina (Z / bool)
# --------------------------------------------------------------------------------------

BINOPS = {
    ast.Add: "({a} + {b})", ast.Sub: "({a} - {b})", ast.Mult: "({a} * {b})",
    ast.FloorDiv: "({a} / {b})", ast.Mod: "({a} mod {b})",
    ast.LShift: "(Z.shiftl {a} {b})", ast.RShift: "(Z.shiftr {a} {b})",
    ast.BitAnd: "(Z.land {a} {b})", ast.BitOr: "(Z.lor {a} {b})", ast.BitXor: "(Z.lxor {a} {b})",
}
CMPOPS = {ast.Lt: "<?", ast.Gt: ">?", ast.LtE: "<=?", ast.GtE: ">=?", ast.Eq: "=?"}


class Tr:
    """Translate Python expressions under an environment of symbolic values."""

    def __init__(self, fname: str, attr_map: Optional[Dict[str, str]] = None,
                 funcs: Sequence[str] = ()):
        self.fname = fname
        self.attr_map = attr_map or {}
        self.funcs = set(funcs)

    def fail(self, node: ast.AST, why: str = "") -> None:
        raise Broken(f"translator: {self.fname}: unsupported construct {why}",
                     ast.dump(node)[:300])

    def z(self, e: ast.expr, env: Dict[str, str]) -> str:
        if isinstance(e, ast.Constant) and isinstance(e.value, int) and not isinstance(e.value, bool):
            return str(e.value) if e.value >= 0 else f"({e.value})"
        if isinstance(e, ast.Name):
            if e.id in env:
                return env[e.id]
            self.fail(e, f"unbound name {e.id}")
        if isinstance(e, ast.Attribute):
            key = ast.unparse(e)
            if key in self.attr_map:
                return self.attr_map[key]
            self.fail(e, f"attribute {key}")
        if isinstance(e, ast.UnaryOp) and isinstance(e.op, ast.USub):
            return f"(- {self.z(e.operand, env)})"
        if isinstance(e, ast.UnaryOp) and isinstance(e.op, ast.Invert):
            return f"(Z.lnot {self.z(e.operand, env)})"
        if isinstance(e, ast.BinOp) and type(e.op) in BINOPS:
            return BINOPS[type(e.op)].format(a=self.z(e.left, env), b=self.z(e.right, env))
        if isinstance(e, ast.IfExp):
            return f"(if {self.b(e.test, env)} then {self.z(e.body, env)} else {self.z(e.orelse, env)})"
        if isinstance(e, ast.Call) and isinstance(e.func, ast.Name):
            fn = e.func.id
            if fn == "min" and len(e.args) >= 2 and not e.keywords:
                acc = self.z(e.args[0], env)
                for a in e.args[1:]:
                    acc = f"(Z.min {acc} {self.z(a, env)})"
                return acc
            if fn == "max" and len(e.args) >= 2 and not e.keywords:
                acc = self.z(e.args[0], env)
                for a in e.args[1:]:
                    acc = f"(Z.max {acc} {self.z(a, env)})"
                return acc
            if fn == "int" and len(e.args) == 1 and isinstance(e.args[0], ast.BinOp) \
                    and isinstance(e.args[0].op, ast.Div):
                # int(a / b): float division then truncation = floor division for 0 <= a < 2^53, b > 0
                d = e.args[0]
                return f"({self.z(d.left, env)} / {self.z(d.right, env)})"
            if fn in ("int", "byte") and len(e.args) == 1:
                return self.z(e.args[0], env)
            if fn in self.funcs and not e.keywords:
                return "(" + " ".join([fn] + [self.z(a, env) for a in e.args]) + ")"
        if isinstance(e, ast.Call) and isinstance(e.func, ast.Attribute) and e.func.attr == "bit_length" \
                and not e.args:
            return f"(Z.log2_up ({self.z(e.func.value, env)} + 1))"
        self.fail(e)
        return ""

    def b(self, e: ast.expr, env: Dict[str, str]) -> str:
        if isinstance(e, ast.Compare) and len(e.ops) == 1 and type(e.ops[0]) in CMPOPS:
            return f"({self.z(e.left, env)} {CMPOPS[type(e.ops[0])]} {self.z(e.comparators[0], env)})"
        if isinstance(e, ast.Compare) and len(e.ops) == 1 and isinstance(e.ops[0], ast.NotEq):
            return f"(negb ({self.z(e.left, env)} =? {self.z(e.comparators[0], env)}))"
        if isinstance(e, ast.Compare) and len(e.ops) == 2 and all(type(o) in CMPOPS for o in e.ops):
            a, m, c = e.left, e.comparators[0], e.comparators[1]
            return (f"(({self.z(a, env)} {CMPOPS[type(e.ops[0])]} {self.z(m, env)}) && "
                    f"({self.z(m, env)} {CMPOPS[type(e.ops[1])]} {self.z(c, env)}))")
        if isinstance(e, ast.Compare) and len(e.ops) == 1 and isinstance(e.ops[0], (ast.In, ast.NotIn)) \
                and isinstance(e.comparators[0], (ast.Tuple, ast.List, ast.Set)) and e.comparators[0].elts:
            # x in (a, b, c)  ->  (x =? a) || (x =? b) || (x =? c)
            x = self.z(e.left, env)
            alts = " || ".join(f"({x} =? {self.z(a, env)})" for a in e.comparators[0].elts)
            return f"({alts})" if isinstance(e.ops[0], ast.In) else f"(negb ({alts}))"
        if isinstance(e, ast.BoolOp):
            op = " && " if isinstance(e.op, ast.And) else " || "
            return "(" + op.join(self.b(v, env) for v in e.values) + ")"
        if isinstance(e, ast.UnaryOp) and isinstance(e.op, ast.Not):
            return f"(negb {self.b(e.operand, env)})"
        if isinstance(e, ast.Constant) and isinstance(e.value, bool):
            return "true" if e.value else "false"
        self.fail(e, "(boolean position)")
        return ""

    # ---- symbolic execution of a straight-line body with if/elif/else and returns -------
    def body(self, stmts: List[ast.stmt], env: Dict[str, str], ret: str = "z") -> str:
        stmts = [s for s in stmts if not (isinstance(s, ast.Expr) and isinstance(s.value, ast.Constant))]
        if not stmts:
            raise Broken(f"translator: {self.fname}: a path falls off the end without return")
        s, rest = stmts[0], stmts[1:]
        if isinstance(s, ast.Return) and s.value is not None:
            return self.z(s.value, env) if ret == "z" else self.b(s.value, env)
        if isinstance(s, (ast.Assign, ast.AnnAssign)):
            tgt = s.targets[0] if isinstance(s, ast.Assign) else s.target
            if isinstance(tgt, ast.Name) and s.value is not None:
                env2 = dict(env)
                env2[tgt.id] = self.z(s.value, env)
                return self.body(rest, env2, ret)
        if isinstance(s, ast.If):
            return (f"(if {self.b(s.test, env)} then {self.body(s.body + rest, env, ret)} "
                    f"else {self.body(s.orelse + rest, env, ret)})")
        self.fail(s)
        return ""


def find_func(tree: ast.AST, name: str, cls: Optional[str] = None) -> ast.FunctionDef:
    scope = tree.body  # type: ignore
    if cls is not None:
        for n in scope:
            if isinstance(n, ast.ClassDef) and n.name == cls:
                scope = n.body
                break
        else:
            raise Broken(f"translator: class {cls} not found")
    for n in scope:
        if isinstance(n, ast.FunctionDef) and n.name == name:
            return n
    raise Broken(f"translator: function {cls + '.' if cls else ''}{name} not found")


def strip_doc(fn: ast.FunctionDef) -> List[ast.stmt]:
    return [s for s in fn.body if not (isinstance(s, ast.Expr) and isinstance(s.value, ast.Constant))]


def pure_def(tree, name: str, params: List[str], funcs: Sequence[str] = (), ret: str = "z",
             cls: Optional[str] = None, coq_name: Optional[str] = None,
             attr_map: Optional[Dict[str, str]] = None) -> str:
    fn = find_func(tree, name, cls)
    got = [a.arg for a in fn.args.args if a.arg not in ("self", "Self")]
    if got != params:
        raise Broken(f"translator: {name}: parameters {got} != expected {params}")
    tr = Tr(name, funcs=funcs, attr_map=attr_map)
    env = {p: p for p in params}
    e = tr.body(fn.body, env, ret)
    ty = "Z" if ret == "z" else "bool"
    ps = " ".join(params)
    return f"Definition {coq_name or name} ({ps} : Z) : {ty} := {e}."


# --------------------------------------------------------------------------------------
# skeleton checks: the AST of loop-carrying functions, with translated expressions masked
# --------------------------------------------------------------------------------------

def skeleton_digest(fn: ast.FunctionDef, mask: Sequence[ast.AST] = ()) -> str:
    fn2 = ast.parse(ast.unparse(fn)).body[0]
    masked = {ast.dump(m) for m in mask}

    class M(ast.NodeTransformer):
        def generic_visit(self, node):
            if isinstance(node, ast.expr) and ast.dump(node) in masked:
                return ast.copy_location(ast.Name(id="__MASKED__", ctx=ast.Load()), node)
            return super().generic_visit(node)

    fn2 = M().visit(fn2)
    fn2.body = strip_doc(fn2)
    fn2.returns = None
    for a in fn2.args.args:
        a.annotation = None
    for n in ast.walk(fn2):
        if isinstance(n, ast.AnnAssign):
            n.annotation = ast.Name(id="_", ctx=ast.Load())
    return ast.dump(fn2)


def load_skeletons() -> Dict[str, str]:
    """All recorded skeleton digests: coq/ref/skeletons*.json merged."""
    import glob
    out: Dict[str, str] = {}
    for p in sorted(glob.glob(os.path.join(COQ, "ref", "skeletons*.json"))):
        out.update(json.load(open(p)))
    return out


def check_skeleton(key: str, digest: str, found: Dict[str, str]) -> None:
    found[key] = digest


# --------------------------------------------------------------------------------------
# bp.py
# --------------------------------------------------------------------------------------

def gen_py() -> Tuple[str, Dict[str, str]]:
    path = os.path.join(REPO, "lib/py/bitprotolib/bp.py")
    src = open(path).read()
    tree = ast.parse(src)
    skel: Dict[str, str] = {}
    out = ["(* GENERATED by tools/translate.py from lib/py/bitprotolib/bp.py — do not edit *)",
           "From Coq Require Import ZArith.", "Open Scope Z_scope.", ""]
    for nm in ("int8", "int16", "int32", "int64"):
        out.append(pure_def(tree, nm, ["i"]))
    out.append(pure_def(tree, "smart_shift", ["n", "k"]))
    out.append(pure_def(tree, "get_mask", ["k", "c"]))
    out.append(pure_def(tree, "get_nbits_to_copy", ["i", "j", "n"]))

    helpers = ("smart_shift", "get_mask", "get_nbits_to_copy")
    amap = {"ctx.i": "ci"}

    # encode_single_byte: temporaries, b = accessor.bp_get_byte(di, R), ctx.s[I] |= D
    fn = find_func(tree, "encode_single_byte")
    tr = Tr("encode_single_byte", attr_map=amap, funcs=helpers)
    env = {"j": "j", "c": "c"}
    seen = []
    for s in strip_doc(fn):
        if isinstance(s, ast.Assign) and isinstance(s.targets[0], ast.Name):
            v = s.value
            if (isinstance(v, ast.Call) and isinstance(v.func, ast.Attribute) and v.func.attr == "bp_get_byte"
                    and ast.unparse(v.func.value) == "accessor" and len(v.args) == 2
                    and ast.unparse(v.args[0]) == "di"):
                out.append(f"Definition enc_rshift (j : Z) : Z := {tr.z(v.args[1], env)}.")
                env[s.targets[0].id] = "b"
                seen.append("get")
            else:
                env[s.targets[0].id] = tr.z(v, env)
        elif (isinstance(s, ast.AugAssign) and isinstance(s.op, ast.BitOr) and isinstance(s.target, ast.Subscript)
              and ast.unparse(s.target.value) == "ctx.s"):
            out.append(f"Definition enc_index (ci : Z) : Z := {tr.z(s.target.slice, env)}.")
            out.append(f"Definition enc_d (b ci j c : Z) : Z := {tr.z(s.value, env)}.")
            seen.append("store")
        else:
            tr.fail(s)
    if seen != ["get", "store"]:
        raise Broken("translator: encode_single_byte: effects are not [bp_get_byte, ctx.s[..] |= ..]", str(seen))

    # decode_single_byte: b = ctx.s[I]; temporaries; accessor.bp_set_byte(di, L, D)
    fn = find_func(tree, "decode_single_byte")
    tr = Tr("decode_single_byte", attr_map=amap, funcs=helpers)
    env = {"j": "j", "c": "c"}
    seen = []
    for s in strip_doc(fn):
        if isinstance(s, ast.Assign) and isinstance(s.targets[0], ast.Name):
            v = s.value
            if isinstance(v, ast.Subscript) and ast.unparse(v.value) == "ctx.s":
                out.append(f"Definition dec_index (ci : Z) : Z := {tr.z(v.slice, env)}.")
                env[s.targets[0].id] = "b"
                seen.append("load")
            else:
                env[s.targets[0].id] = tr.z(v, env)
        elif (isinstance(s, ast.Expr) and isinstance(s.value, ast.Call) and isinstance(s.value.func, ast.Attribute)
              and s.value.func.attr == "bp_set_byte" and ast.unparse(s.value.func.value) == "accessor"
              and len(s.value.args) == 3 and ast.unparse(s.value.args[0]) == "di"):
            out.append(f"Definition dec_lshift (j : Z) : Z := {tr.z(s.value.args[1], env)}.")
            out.append(f"Definition dec_d (b ci j c : Z) : Z := {tr.z(s.value.args[2], env)}.")
            seen.append("set")
        else:
            tr.fail(s)
    if seen != ["load", "set"]:
        raise Broken("translator: decode_single_byte: effects are not [ctx.s[..], bp_set_byte]", str(seen))

    # skip formulas inside Array.process / MessageProcessor.process
    def ito_of(cls: str, coq_name: str, params: List[str], amap2: Dict[str, str]) -> None:
        fn = find_func(tree, "process", cls)
        itos = [n for n in ast.walk(fn) if isinstance(n, ast.Assign) and isinstance(n.targets[0], ast.Name)
                and n.targets[0].id == "ito"]
        tests = [n for n in ast.walk(fn) if isinstance(n, ast.If) and "ito" in ast.unparse(n.test)]
        if len(itos) != 1 or len(tests) != 1:
            raise Broken(f"translator: {cls}.process: expected exactly one `ito = ...` and one test on ito")
        tr = Tr(f"{cls}.process", attr_map=amap2)
        env = {"i": "i", "ahead": "ahead"}
        out.append(f"Definition {coq_name} ({' '.join(params)} : Z) : Z := {tr.z(itos[0].value, env)}.")
        trb = Tr(f"{cls}.process", attr_map={"ctx.i": "ci"})
        tk = trb.b(tests[0].test, {"ito": "ito"})
        skel[f"bp.py:{cls}.process"] = skeleton_digest(fn, [itos[0].value, tests[0].test])
        return tk

    tk1 = ito_of("Array", "array_ito", ["i", "ahead", "cap", "ci"], {"self.capacity": "cap", "ctx.i": "ci"})
    tk2 = ito_of("MessageProcessor", "message_ito", ["i", "ahead"], {})
    if tk1 != tk2:
        raise Broken("translator: Array.process and MessageProcessor.process test `ito` differently", f"{tk1} / {tk2}")
    out.append(f"Definition ito_taken (ito ci : Z) : bool := {tk1}.")
    out.append(pure_def(tree, "is_valid", [], ret="b", cls="DataIndexer", coq_name="di_is_valid_",
                        attr_map={"self.field_number": "fn"}).replace("di_is_valid_ ( : Z)", "di_is_valid (fn : Z)"))

    # loop skeletons and dispatchers: structure recorded, compared with coq/ref/skeletons.json
    for name, cls in (("process_base_type", None), ("process_single_byte", None),
                      ("process", "Bool"), ("process", "Int"), ("process", "Uint"), ("process", "Byte"),
                      ("process", "EnumProcessor"), ("process", "AliasProcessor"),
                      ("process", "MessageFieldProcessor"),
                      ("encode_extensible_ahead", "Array"), ("decode_extensible_ahead", "Array"),
                      ("encode_extensible_ahead", "MessageProcessor"),
                      ("decode_extensible_ahead", "MessageProcessor"),
                      ("bp_set_byte", "IntAccessor"), ("bp_get_byte", "IntAccessor"),
                      ("i", "DataIndexer"), ("index_stack_up", "DataIndexer"),
                      ("index_stack_down", "DataIndexer"), ("index_stack_replace", "DataIndexer"),
                      ("index_stack_maintain", "DataIndexer"),
                      ("to_dict", "MessageBase"), ("to_json", "MessageBase")):
        fn = find_func(tree, name, cls)
        skel[f"bp.py:{(cls + '.') if cls else ''}{name}"] = skeleton_digest(fn)
    # module-level constants used by the model
    for n in tree.body:
        if isinstance(n, ast.Assign) and isinstance(n.targets[0], ast.Name) and n.targets[0].id == "NIL_DATA_INDEXER":
            skel["bp.py:NIL_DATA_INDEXER"] = ast.dump(n.value)
    return "\n".join(out) + "\n", skel


# --------------------------------------------------------------------------------------
# driver
# --------------------------------------------------------------------------------------

GENERATORS: Dict[str, Callable[[], Tuple[str, Dict[str, str]]]] = {
    "GenPy.v": gen_py,
}
GEN_OWNER: Dict[str, str] = {"GenPy.v": "core"}


def _load_plugins() -> None:
    """tools/translate_<name>.py may define GENERATORS = {"GenX.v": fn}; fn() returns
    (coq_text, {skeleton_key: digest})."""
    import glob
    import importlib
    for p in sorted(glob.glob(os.path.join(os.path.dirname(os.path.abspath(__file__)), "translate_*.py"))):
        name = os.path.basename(p)[:-3]
        mod = importlib.import_module(name)
        for fname, fn in getattr(mod, "GENERATORS", {}).items():
            GENERATORS[fname] = fn
            GEN_OWNER[fname] = name[len("translate_"):]


def ensure_gen_present() -> None:
    """Every generator's output must exist before the dependency closure of a property is computed
    (coqdep cannot see an import of a file that is not there yet): a missing coq/gen/<f> is seeded
    from the last accepted translation coq/ref/<f>, or generated on the spot."""
    import shutil
    _load_plugins()
    os.makedirs(os.path.join(COQ, "gen"), exist_ok=True)
    for fname, g in GENERATORS.items():
        p = os.path.join(COQ, "gen", fname)
        if os.path.exists(p):
            continue
        r = os.path.join(COQ, "ref", fname)
        if os.path.exists(r):
            shutil.copy(r, p)
        else:
            try:
                write_if_changed(p, g()[0])
            except Broken:
                pass


def regenerate_all(only: Optional[Sequence[str]] = None) -> List[Dict[str, str]]:
    """Rewrite coq/gen/*.v (only when content changed).  Raises Broken on failure."""
    _load_plugins()
    info = []
    ref = load_skeletons()
    found: Dict[str, str] = {}
    by_owner: Dict[str, Dict[str, str]] = {}
    errors: List[Broken] = []
    for fname, g in GENERATORS.items():
        if only and fname not in only:
            continue
        try:
            text, skel = g()
        except Broken as b:
            errors.append(b)
            continue
        found.update(skel)
        by_owner.setdefault(GEN_OWNER.get(fname, "core"), {}).update(skel)
        write_if_changed(os.path.join(COQ, "gen", fname), text)
        info.append({"file": f"coq/gen/{fname}", "sha256": sha256(text)})
    if errors:
        raise Broken("; ".join(e.what for e in errors), "\n".join(e.detail for e in errors))
    # each translator module owns its digests (two modules may pin the same function with
    # differently normalised digests): compare per owner
    changed = []
    for owner, sk in by_owner.items():
        fn = "skeletons.json" if owner == "core" else f"skeletons_{owner}.json"
        try:
            oref = json.load(open(os.path.join(COQ, "ref", fn)))
        except FileNotFoundError:
            oref = {}
        changed.extend(k for k, v in sk.items() if oref.get(k) != v)
    if os.environ.get("VERIF_RECORD_SKELETONS") == "1":
        for owner, sk in by_owner.items():
            fn = "skeletons.json" if owner == "core" else f"skeletons_{owner}.json"
            with open(os.path.join(COQ, "ref", fn), "w") as f:
                json.dump(sk, f, indent=0, sort_keys=True)
        import shutil
        for i in info:                       # last accepted translation = fallback model
            shutil.copy(os.path.join(VERIF, i["file"]), os.path.join(COQ, "ref", os.path.basename(i["file"])))
    elif changed:
        raise Broken("translator: hand-modelled control skeleton changed in the source: " + ", ".join(sorted(changed)),
                     "the loop/dispatch structure of these functions is modelled by hand in coq/theories; "
                     "their AST no longer matches coq/ref/skeletons*.json")
    return info


if __name__ == "__main__":
    import sys
    for i in regenerate_all():
        print(i)
