"""cparse — a small, fail-closed C front end for lib/c/bitproto.{c,h}.

tokenizer -> conditional-compilation evaluator (BP_BIG_ENDIAN only) -> statement/expression
parser for the subset bitproto.c uses -> typed translation of integer expressions to Gallina
with C's integer promotions / usual arithmetic conversions written out.

Anything outside the subset raises vlib.Broken.
"""
from __future__ import annotations

import hashlib
import re
from typing import Any, Dict, List, Optional, Sequence, Tuple

from vlib import Broken

TOKEN_RE = re.compile(r"""
    (?P<ws>\s+)
  | (?P<num>0[xX][0-9a-fA-F]+|\d+)
  | (?P<id>[A-Za-z_]\w*)
  | (?P<str>"(?:[^"\\]|\\.)*")
  | (?P<op>->|<<=|>>=|\+\+|--|<<|>>|<=|>=|==|!=|&&|\|\||\+=|-=|\|=|&=|\^=|\*=|/=|\.\.\.|[-+*/%&|^~!<>=?:;,.(){}\[\]])
""", re.X)

TYPE_WORDS = {"int", "unsigned", "char", "void", "bool", "uint8_t", "uint16_t", "uint32_t", "uint64_t",
              "int8_t", "int16_t", "int32_t", "int64_t", "struct", "static", "inline", "const", "va_list"}


def fail(msg: str, detail: str = "") -> None:
    raise Broken("translator(C): " + msg, detail)


def strip_comments(src: str) -> str:
    src = re.sub(r"/\*.*?\*/", lambda m: "\n" * m.group(0).count("\n"), src, flags=re.S)
    src = re.sub(r"//[^\n]*", "", src)
    return src


def preprocess(src: str, be: bool, detection_digest: Optional[str]) -> str:
    """Evaluate #ifdef/#ifndef BP_BIG_ENDIAN/#else/#endif.  The host-detection block
    `#if !defined(BP_BIG_ENDIAN) && (...)  #define BP_BIG_ENDIAN 1  #endif` is recognised by the
    digest of its normalised text and dropped (the build flag B stands for its outcome).
    Continuation lines are joined first.  Other directives: #include/#define are kept out of
    function bodies and ignored here."""
    src = strip_comments(src).replace("\\\n", " ")
    out: List[str] = []
    stack: List[Tuple[bool, bool]] = []      # (active, is_detection_block)
    for line in src.split("\n"):
        s = line.strip()
        if s.startswith("#"):
            d = re.sub(r"\s+", " ", s)
            if d in ("#ifdef BP_BIG_ENDIAN", "#ifndef BP_BIG_ENDIAN"):
                act = be if d.startswith("#ifdef") else not be
                stack.append((act, False))
            elif d.startswith("#if "):
                dig = hashlib.sha256(d.encode()).hexdigest()[:16]
                if detection_digest is not None and dig != detection_digest:
                    fail("unrecognised #if directive in bitproto.c (host endianness detection changed?)", d)
                stack.append((False, True))
            elif d == "#else":
                if not stack or stack[-1][1]:
                    fail("#else outside a BP_BIG_ENDIAN conditional", d)
                stack[-1] = (not stack[-1][0], False)
            elif d == "#endif":
                if not stack:
                    fail("unbalanced #endif")
                stack.pop()
            elif d.startswith(("#include", "#define", "#ifndef __", "#if defined(__cplusplus)")):
                pass
            else:
                fail("unsupported preprocessor directive", d)
            out.append("")
            continue
        out.append(line if all(a for a, _ in stack) else "")
    if stack:
        fail("unterminated conditional")
    return "\n".join(out)


def detection_digest_of(src: str) -> str:
    src = strip_comments(src).replace("\\\n", " ")
    for line in src.split("\n"):
        d = re.sub(r"\s+", " ", line.strip())
        if d.startswith("#if "):
            return hashlib.sha256(d.encode()).hexdigest()[:16]
    return ""


def tokenize(src: str) -> List[Tuple[str, str]]:
    toks = []
    pos = 0
    while pos < len(src):
        m = TOKEN_RE.match(src, pos)
        if not m:
            fail("cannot tokenize", src[pos:pos + 40])
        pos = m.end()
        k = m.lastgroup
        if k == "ws":
            continue
        toks.append((k, m.group(k)))
    return toks


def find_function(toks: List[Tuple[str, str]], name: str) -> Tuple[List[Tuple[str, str]], List[Tuple[str, str]]]:
    """(parameter tokens, body tokens without the outer braces) of the DEFINITION of `name`"""
    for i, (k, v) in enumerate(toks):
        if k == "id" and v == name and i + 1 < len(toks) and toks[i + 1][1] == "(":
            j = i + 1
            depth = 0
            while True:
                if toks[j][1] == "(":
                    depth += 1
                elif toks[j][1] == ")":
                    depth -= 1
                    if depth == 0:
                        break
                j += 1
            if j + 1 < len(toks) and toks[j + 1][1] == "{":
                params = toks[i + 2:j]
                k0 = j + 1
                depth = 0
                e = k0
                while True:
                    if toks[e][1] == "{":
                        depth += 1
                    elif toks[e][1] == "}":
                        depth -= 1
                        if depth == 0:
                            break
                    e += 1
                return params, toks[k0 + 1:e]
    fail(f"function {name} not found")
    return [], []


# --------------------------------------------------------------------------------------
# parser
# --------------------------------------------------------------------------------------

BINPREC = [("||",), ("&&",), ("|",), ("^",), ("&",), ("==", "!="), ("<", ">", "<=", ">="), ("<<", ">>"),
           ("+", "-"), ("*", "/", "%")]
ASSIGN_OPS = {"=", "+=", "-=", "|=", "&=", "^=", "<<=", ">>=", "*=", "/="}


class P:
    def __init__(self, toks: List[Tuple[str, str]], fname: str):
        self.t = toks
        self.i = 0
        self.fname = fname

    def peek(self, o: int = 0) -> str:
        return self.t[self.i + o][1] if self.i + o < len(self.t) else ""

    def kind(self, o: int = 0) -> str:
        return self.t[self.i + o][0] if self.i + o < len(self.t) else ""

    def eat(self, v: Optional[str] = None) -> str:
        if self.i >= len(self.t):
            fail(f"{self.fname}: unexpected end of function")
        k, x = self.t[self.i]
        if v is not None and x != v:
            fail(f"{self.fname}: expected `{v}` but found `{x}`", " ".join(t[1] for t in self.t[max(0, self.i - 8):self.i + 8]))
        self.i += 1
        return x

    # ---- types
    def at_type(self, o: int = 0) -> bool:
        return self.kind(o) == "id" and self.peek(o) in TYPE_WORDS

    def parse_type(self) -> str:
        parts = []
        while self.at_type():
            w = self.eat()
            parts.append(w)
            if w == "struct":
                parts.append(self.eat())
        while self.peek() == "*":
            self.eat()
            parts.append("*")
        if not parts:
            fail(f"{self.fname}: type expected")
        return " ".join(parts)

    # ---- expressions
    def expr(self) -> Any:
        return self.assign()

    def assign(self) -> Any:
        lhs = self.cond()
        if self.peek() in ASSIGN_OPS:
            op = self.eat()
            rhs = self.assign()
            return ("assign", op, lhs, rhs)
        return lhs

    def cond(self) -> Any:
        c = self.binary(0)
        if self.peek() == "?":
            self.eat()
            a = self.expr()
            self.eat(":")
            b = self.cond()
            return ("cond", c, a, b)
        return c

    def binary(self, lvl: int) -> Any:
        if lvl == len(BINPREC):
            return self.unary()
        a = self.binary(lvl + 1)
        while self.peek() in BINPREC[lvl] and not (self.peek() in ("&", "*", "+", "-") and False):
            op = self.eat()
            b = self.binary(lvl + 1)
            a = ("bin", op, a, b)
        return a

    def unary(self) -> Any:
        v = self.peek()
        if v in ("~", "!", "-", "+"):
            self.eat()
            return ("un", v, self.unary())
        if v == "*":
            self.eat()
            return ("deref", self.unary())
        if v == "&":
            self.eat()
            return ("addr", self.unary())
        if v in ("++", "--"):
            fail(f"{self.fname}: prefix {v} unsupported")
        if v == "(" and self.at_type(1):
            self.eat("(")
            ty = self.parse_type()
            self.eat(")")
            if self.peek() == "{":          # compound literal: not in function bodies we model
                fail(f"{self.fname}: compound literal unsupported")
            return ("cast", ty, self.unary())
        return self.postfix()

    def postfix(self) -> Any:
        k, v = self.kind(), self.peek()
        if v == "(":
            self.eat("(")
            e = self.expr()
            self.eat(")")
        elif k == "num":
            self.eat()
            e = ("num", int(v, 0))
        elif k == "id":
            self.eat()
            e = ("id", v)
        elif k == "str":
            self.eat()
            e = ("str", v)
        else:
            fail(f"{self.fname}: unexpected token `{v}` in expression")
        while True:
            v = self.peek()
            if v == "[":
                self.eat()
                ix = self.expr()
                self.eat("]")
                e = ("idx", e, ix)
            elif v == "(":
                self.eat()
                args = []
                if self.peek() != ")":
                    args.append(self.assign())
                    while self.peek() == ",":
                        self.eat()
                        args.append(self.assign())
                self.eat(")")
                e = ("call", e, args)
            elif v == "->":
                self.eat()
                e = ("arrow", e, self.eat())
            elif v == ".":
                self.eat()
                e = ("dot", e, self.eat())
            elif v in ("++", "--"):
                self.eat()
                e = ("post", v, e)
            else:
                return e

    # ---- statements
    def block(self) -> List[Any]:
        self.eat("{")
        out = []
        while self.peek() != "}":
            out.append(self.stmt())
        self.eat("}")
        return out

    def stmt_or_block(self) -> List[Any]:
        if self.peek() == "{":
            return self.block()
        return [self.stmt()]

    def stmt(self) -> Any:
        v = self.peek()
        if v == "{":
            return ("block", self.block())
        if v == "if":
            self.eat()
            self.eat("(")
            c = self.expr()
            self.eat(")")
            th = self.stmt_or_block()
            el: List[Any] = []
            if self.peek() == "else":
                self.eat()
                el = self.stmt_or_block()
            return ("if", c, th, el)
        if v == "while":
            self.eat()
            self.eat("(")
            c = self.expr()
            self.eat(")")
            return ("while", c, self.stmt_or_block())
        if v == "for":
            self.eat()
            self.eat("(")
            init = self.decl_or_expr()
            cnd = self.expr()
            self.eat(";")
            step = self.expr()
            self.eat(")")
            return ("for", init, cnd, step, self.stmt_or_block())
        if v == "switch":
            self.eat()
            self.eat("(")
            e = self.expr()
            self.eat(")")
            self.eat("{")
            cases: List[Tuple[List[Any], List[Any]]] = []
            while self.peek() != "}":
                labels = []
                while self.peek() in ("case", "default"):
                    if self.eat() == "case":
                        labels.append(self.cond())
                    else:
                        labels.append(("default",))
                    self.eat(":")
                body = []
                while self.peek() not in ("case", "default", "}"):
                    body.append(self.stmt())
                cases.append((labels, body))
            self.eat("}")
            return ("switch", e, cases)
        if v == "return":
            self.eat()
            e = None if self.peek() == ";" else self.expr()
            self.eat(";")
            return ("return", e)
        if v == "break":
            self.eat()
            self.eat(";")
            return ("break",)
        return self.decl_or_expr()

    def decl_or_expr(self) -> Any:
        if self.at_type():
            ty = self.parse_type()
            name = self.eat()
            if self.peek() == "[":
                self.eat()
                n = self.expr()
                self.eat("]")
                init = None
                if self.peek() == "=":
                    self.eat()
                    self.eat("{")
                    init = self.expr()
                    self.eat("}")
                self.eat(";")
                return ("declarr", ty, name, n, init)
            init = None
            if self.peek() == "=":
                self.eat()
                init = self.expr()
            self.eat(";")
            return ("decl", ty, name, init)
        e = self.expr()
        self.eat(";")
        return ("expr", e)


def parse_body(toks: List[Tuple[str, str]], fname: str) -> List[Any]:
    p = P([("op", "{")] + toks + [("op", "}")], fname)
    b = p.block()
    if p.i != len(p.t):
        fail(f"{fname}: trailing tokens")
    return b


def parse_params(toks: List[Tuple[str, str]], fname: str) -> List[Tuple[str, str]]:
    p = P(toks, fname)
    out = []
    while p.i < len(p.t):
        ty = p.parse_type()
        out.append((ty, p.eat()))
        if p.i < len(p.t):
            p.eat(",")
    return out


def dump(node: Any, masked: Sequence[int] = ()) -> str:
    """deterministic text of an AST with the nodes whose id() is in `masked` replaced"""
    if id(node) in masked:
        return "<X>"
    if isinstance(node, tuple):
        return "(" + " ".join(dump(x, masked) for x in node) + ")"
    if isinstance(node, list):
        return "[" + " ".join(dump(x, masked) for x in node) + "]"
    return str(node)


def digest(node: Any, masked: Sequence[int] = ()) -> str:
    return hashlib.sha256(dump(node, masked).encode()).hexdigest()[:24]


# --------------------------------------------------------------------------------------
# typed translation of integer expressions
# --------------------------------------------------------------------------------------

WIDTH = {"u8": 8, "u16": 16, "u32": 32, "u64": 64}
CTYPE = {"uint8_t": "u8", "uint16_t": "u16", "uint32_t": "u32", "uint64_t": "u64", "unsigned char": "u8",
         "int": "int", "bool": "bool"}


def mod_of(ty: str) -> str:
    return str(1 << WIDTH[ty])


def promote(ty: str) -> str:
    return "int" if ty in ("u8", "u16", "bool", "int") else ty


def join(a: str, b: str) -> str:
    a, b = promote(a), promote(b)
    if "u64" in (a, b):
        return "u64"
    if "u32" in (a, b):
        return "u32"
    return "int"


class Tx:
    """env: C identifier -> (gallina term, ctype).  loads: list of (pattern AST dump, term, ctype)
    recognising memory reads such as src[0] or *(uint8_t *)data.  funcs: callable helpers."""

    def __init__(self, fname: str, env: Dict[str, Tuple[str, str]], loads: Sequence[Tuple[str, str, str]] = (),
                 funcs: Dict[str, str] = (), consts: Dict[str, int] = ()):
        self.fname = fname
        self.env = dict(env)
        self.loads = list(loads)
        self.funcs = dict(funcs or {})
        self.consts = dict(consts or {})

    def wrap(self, term: str, ty: str) -> str:
        return f"({term} mod {mod_of(ty)})" if ty in WIDTH else term

    def z(self, e: Any) -> Tuple[str, str]:
        d = dump(e)
        for pat, term, ty in self.loads:
            if d == pat:
                return term, ty
        k = e[0]
        if k == "num":
            return str(e[1]), "int"
        if k == "id":
            if e[1] in self.env:
                return self.env[e[1]]
            if e[1] in self.consts:
                return e[1], "int"
            fail(f"{self.fname}: unbound identifier {e[1]}")
        if k == "cast":
            t, ty = self.z(e[2])
            cty = CTYPE.get(e[1])
            if cty is None:
                fail(f"{self.fname}: cast to {e[1]} unsupported in an integer expression")
            if cty in WIDTH:
                return f"({t} mod {mod_of(cty)})", cty
            return t, cty                       # (int)x for x of a narrower unsigned type: value preserved
        if k == "un":
            t, ty = self.z(e[2]) if e[1] != "!" else (None, None)
            if e[1] == "~":
                rt = promote(ty)
                return self.wrap(f"(Z.lnot {t})", rt), rt
            if e[1] == "-":
                rt = promote(ty)
                return self.wrap(f"(- {t})", rt), rt
            if e[1] == "!":
                return f"(Z.b2z {self.b(e)})", "int"
        if k == "bin":
            op = e[1]
            if op in ("==", "!=", "<", ">", "<=", ">=", "&&", "||"):
                return f"(Z.b2z {self.b(e)})", "int"
            a, ta = self.z(e[2])
            b, tb = self.z(e[3])
            if op in ("<<", ">>"):
                rt = promote(ta)
                if op == "<<":
                    return self.wrap(f"(Z.shiftl {a} {b})", rt), rt
                return f"(Z.shiftr {a} {b})", rt
            rt = join(ta, tb)
            if op == "&":
                return f"(Z.land {a} {b})", rt
            if op == "|":
                return f"(Z.lor {a} {b})", rt
            if op == "^":
                return f"(Z.lxor {a} {b})", rt
            if op == "+":
                return self.wrap(f"({a} + {b})", rt), rt
            if op == "-":
                return self.wrap(f"({a} - {b})", rt), rt
            if op == "*":
                return self.wrap(f"({a} * {b})", rt), rt
            if op == "/":
                return f"(Z.quot {a} {b})", rt
            if op == "%":
                return f"(Z.rem {a} {b})", rt
        if k == "cond":
            a, ta = self.z(e[2])
            b, tb = self.z(e[3])
            return f"(if {self.b(e[1])} then {a} else {b})", join(ta, tb)
        if k == "call" and e[1][0] == "id" and e[1][1] in self.funcs:
            args = [self.z(a)[0] for a in e[2]]
            return "(" + " ".join([self.funcs[e[1][1]]] + args) + ")", "int"
        fail(f"{self.fname}: unsupported integer expression", dump(e)[:300])
        return "", ""

    def b(self, e: Any) -> str:
        k = e[0]
        if k == "bin" and e[1] in ("==", "!=", "<", ">", "<=", ">="):
            a, _ = self.z(e[2])
            b, _ = self.z(e[3])
            op = {"==": "=?", "<": "<?", ">": ">?", "<=": "<=?", ">=": ">=?"}.get(e[1])
            if e[1] == "!=":
                return f"(negb ({a} =? {b}))"
            return f"({a} {op} {b})"
        if k == "bin" and e[1] in ("&&", "||"):
            return f"({self.b(e[2])} {e[1]} {self.b(e[3])})"
        if k == "un" and e[1] == "!":
            return f"(negb {self.b(e[2])})"
        if k == "call" and e[1][0] == "id" and e[1][1] in self.funcs and self.funcs[e[1][1]].startswith("?"):
            args = [self.z(a)[0] for a in e[2]]
            return "(" + " ".join([self.funcs[e[1][1]][1:]] + args) + ")"
        if k == "num":
            return "true" if e[1] != 0 else "false"
        t, _ = self.z(e)
        return f"(negb ({t} =? 0))"

    # straight-line body: if / return
    def body(self, stmts: List[Any], ret: str) -> str:
        if not stmts:
            fail(f"{self.fname}: a path falls off the end without return")
        s, rest = stmts[0], stmts[1:]
        if s[0] == "return" and s[1] is not None:
            return self.z(s[1])[0] if ret == "z" else self.b(s[1])
        if s[0] == "if":
            return f"(if {self.b(s[1])} then {self.body(s[2] + rest, ret)} else {self.body(s[3] + rest, ret)})"
        fail(f"{self.fname}: unsupported statement in a straight-line helper", dump(s)[:200])
        return ""
