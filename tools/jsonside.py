"""jsonside — the C16 harness: generated schemas x values through the real compiler, the real
Python runtime and the real C runtime (gcc), then one Coq evaluation per shard in which the
IMPLEMENTATION's JSON outputs, the MODEL (coq/theories/Json.v over gen/GenJson.v) and the
SPECIFICATION (Json.expected / print_compact) meet (JsonCheck.c16_code)."""
from __future__ import annotations

import json
import os
import random
from typing import Any, Dict, List, Optional, Tuple

import pyside
import schema_gen as sg
from pywire import load_corpus
from vlib import REPO, VERIF, Broken, Check, cbool, clist, cnat, cz, run_workers
from vlib import run as vrun

HEADER = """From Coq Require Import ZArith List Bool String.
From BP Require Import Schema JsonBase Json JsonCheck.
Import ListNotations.
Open Scope string_scope.
Open Scope Z_scope.
"""

PROXY_PREFIX = "_enum_field_proxy__"     # the documented prefix (Json.documented_proxy_prefix)

ASSUME = [
    "Coq 8.16.1 kernel and its vm_compute (witnesses, correspondence evaluation)",
    "tools/translate_json.py (T0): C tokenizer + statement recogniser for the five BpJsonFormat* functions and "
    "the Python-AST readers for the renderers; fail closed; control skeletons pinned by digest "
    "(coq/ref/skeletons_json.json)",
    "libc vsprintf implements %s %d %u %ld %lu %llu as modelled in Json.c_printf; in particular a conversion "
    "that reads 64 bits of a promoted 32-bit argument (\"%lu\" given a uint32_t) sees a zero upper half "
    "(x86-64 SysV / LP64 ABI behaviour, not ISO C) - exercised by T2 at every width 1..64",
    "LP64 little-endian host: sizeof/signedness table Json.ctype_info (stdint.h, stdbool.h), object "
    "representation of integers (two's complement, little-endian), default argument promotions",
    "C element addressing data_ptr + k * sizeof(element) is modelled as list indexing of the object tree; "
    "struct layout is not modelled (the generated descriptors take &m->field)",
    "CPython 3.12 dataclasses.asdict / dict comprehension / IntEnum / json.dumps (incl. its `default` hook being "
    "called exactly for the non-serializable bytearray objects) behave as modelled in Json.py_asdict / "
    "Json.py_dumps (validated by T2 on to_dict() and on the text of to_json())",
    "well-formedness: Json(Wf).wf_json is a hand-written recogniser of the RFC 8259 grammar restricted to "
    "texts without white space / fractions / exponents / escapes; C16_wf_json proves it accepts every "
    "print_compact output; that the recogniser itself is the JSON grammar is read, not proved (cross-checked by "
    "json.loads on every T2 output and by rejecting examples); Python's default to_json() text (', ' and ': ' "
    "separators) is validated by json.loads in T2 only",
    "field names are bitproto identifiers (letters, digits, underscore): no JSON escaping is needed or performed",
]


# ---- Gallina printers -------------------------------------------------------------------

def coq_string(s: str) -> str:
    if not all(32 <= ord(c) < 127 for c in s):
        raise Broken("harness: non-printable character in a string that goes into a Coq case file", repr(s)[:200])
    return '"' + s.replace('"', '""') + '"'


def nty(t: sg.T) -> str:
    k = t.kind
    if k == "bool":
        return "NBool"
    if k == "byte":
        return "NByte"
    if k == "uint":
        return f"(NUint {t.n})"
    if k == "int":
        return f"(NInt {t.n})"
    if k == "enum":
        return f"(NEnum {t.n} {clist(cz(v) for _, v in t.members)})"
    if k == "alias":
        return f"(NAlias {nty(t.t)})"
    if k == "arr":
        return f"(NArr {cbool(t.ext)} {cnat(t.cap)} {nty(t.t)})"
    return f"(NMsg {cbool(t.ext)} {clist(f'({n}, ({coq_string(nm)}, {nty(ft)}))' for n, nm, ft in t.fields)})"


def pyj_term(x: Any) -> str:
    tag, body = x
    if tag == "i":
        return f"(PJInt {cz(int(body))})"
    if tag == "b":
        return f"(PJBool {cbool(bool(body))})"
    if tag == "l":
        return f"(PJList {clist(pyj_term(e) for e in body)})"
    if tag == "y":
        return f"(PJBytes {clist(str(int(b)) for b in body)})"
    if tag == "d":
        return f"(PJDict {clist(f'({coq_string(k)}, {pyj_term(e)})' for k, e in body)})"
    # a Python object the model has no constructor for: can never equal a model value
    return "(PJBytes [-1])"


EXN = {"TypeError": "PyTypeError", "ValueError": "PyValueError"}


def pres_term(obs: Optional[Dict[str, Any]], conv) -> str:
    if obs is None:
        return "(PRaise PyOtherError)"
    if "ok" in obs:
        return f"(POk {conv(obs['ok'])})"
    return f"(PRaise {EXN.get(obs.get('exc', ''), 'PyOtherError')})"


def printable(txt: Any) -> bool:
    return isinstance(txt, str) and all(32 <= ord(c) < 127 for c in txt)


def ostr_term(obs: Optional[Dict[str, Any]]) -> str:
    """Observed C text as `option string`; a text with NUL / stale / non-ASCII bytes is no JSON
    text at all: None (never equal to a model or specified text), reported by the direct check."""
    if obs is None or "ok" not in obs or not printable(obs["ok"]):
        return "None"
    return f"(Some {coq_string(obs['ok'])})"


# ---- schema predicates (the guards of the theorems, for classification) ---------------------

def walk(t: sg.T):
    yield t
    if t.kind in ("alias", "arr"):
        yield from walk(t.t)
    elif t.kind == "msg":
        for _, _, ft in t.fields:
            yield from walk(ft)


def has_byte_array(t: sg.T) -> bool:
    return any(x.kind == "arr" and x.t.kind == "byte" for x in walk(t))


def has_proxy_name(t: sg.T) -> bool:
    return any(nm.startswith(PROXY_PREFIX) for x in walk(t) if x.kind == "msg" for _, nm, _ in x.fields)


def expected_pairs(t: sg.T, v: Any) -> Any:
    """The specified JSON value as Python data, objects as lists of pairs (order matters)."""
    k = t.kind
    if k == "alias":
        return expected_pairs(t.t, v)
    if k == "arr":
        return [expected_pairs(t.t, x) for x in v]
    if k == "msg":
        return [(nm, expected_pairs(ft, v[n] if n in v else v[str(n)]))
                for n, nm, ft in sorted(t.fields, key=lambda f: f[0])]
    if k == "bool":
        return bool(v)
    return int(v)


def loads_pairs(txt: str) -> Any:
    return json.loads(txt, object_pairs_hook=lambda kv: [(k, x) for k, x in kv])


def same_json(a: Any, b: Any) -> bool:
    """Equality that keeps bool and int apart and object key order significant."""
    if isinstance(a, bool) or isinstance(b, bool):
        return isinstance(a, bool) and isinstance(b, bool) and a == b
    if isinstance(a, list) and isinstance(b, list):
        return len(a) == len(b) and all(same_json(x, y) for x, y in zip(a, b))
    if isinstance(a, tuple) and isinstance(b, tuple):
        return a[0] == b[0] and same_json(a[1], b[1])
    if isinstance(a, int) and isinstance(b, int):
        return a == b
    return False


# ---- hand-built streams -----------------------------------------------------------------------

def simple_schema(base: str, defs: List[sg.T], top: sg.T) -> sg.Schema:
    """One-file schema from named definitions (enums / aliases / messages, no nesting)."""
    def tt(t: sg.T) -> str:
        if t.kind in ("bool", "byte"):
            return t.kind
        if t.kind in ("uint", "int"):
            return f"{t.kind}{t.n}"
        if t.kind == "arr":
            return f"{tt(t.t)}[{t.cap}]" + ("'" if t.ext else "")
        return t.name
    out = [f"proto {base}", ""]
    for d in defs + [top]:
        if d.kind == "enum":
            out.append(f"enum {d.name} : uint{d.n} {{")
            out += [f"    {nm} = {v}" for nm, v in d.members]
            out.append("}")
        elif d.kind == "alias":
            out.append(f"type {d.name} = {tt(d.t)}")
        else:
            out.append(f"message {d.name}" + ("'" if d.ext else "") + " {")
            out += [f"    {tt(ft)} {nm} = {n}" for n, nm, ft in d.fields]
            out.append("}")
        out.append("")
    f = sg.SFile(0, base, base)
    s = sg.Schema([f], top)
    s.texts = {base + ".bitproto": "\n".join(out)}
    return s


def width_stream(rng) -> List[Tuple[sg.Schema, List[Any], str]]:
    """Every width 1..64, signed and unsigned and enum, as a direct field and as an array
    element, with min / max / -1(all ones) / zero / random values."""
    cases = []
    modes = ["min", "max", "ones", "zero", "random", "random"]

    def add(s: sg.Schema, tag: str):
        cases.append((s, [sg.gen_value(s.top, rng, m) for m in modes], f"widths:{tag}"))

    for kind in ("uint", "int"):
        for half, ws in (("a", range(1, 33)), ("b", range(33, 65))):
            nums = list(range(1, 33))
            rng.shuffle(nums)
            top = sg.T("msg", name="W" + kind.capitalize() + half.upper())
            top.fields = [(nums[i], f"w{w}", sg.T(kind, n=w)) for i, w in enumerate(ws)]
            add(simple_schema(f"w{kind}{half}", [], top), f"{kind}{ws[0]}-{ws[-1]}")
    # arrays and aliases of every width
    for kind in ("uint", "int"):
        for half, ws in (("a", range(1, 33)), ("b", range(33, 65))):
            defs = []
            top = sg.T("msg", name="A" + kind.capitalize() + half.upper())
            for i, w in enumerate(ws):
                if w % 3 == 0:
                    al = sg.T("alias", name=f"L{kind.capitalize()}{w}", t=sg.T(kind, n=w))
                    defs.append(al)
                    ft = sg.T("arr", cap=2, t=al)
                elif w % 3 == 1:
                    al = sg.T("alias", name=f"L{kind.capitalize()}{w}", t=sg.T("arr", cap=2, t=sg.T(kind, n=w)))
                    defs.append(al)
                    ft = al
                else:
                    ft = sg.T("arr", cap=2, ext=(w % 2 == 0), t=sg.T(kind, n=w))
                top.fields.append((64 - i, f"a{w}", ft))
            add(simple_schema(f"a{kind}{half}", defs, top), f"array-{kind}{ws[0]}-{ws[-1]}")
    # enums of every width
    for half, ws in (("a", range(1, 33)), ("b", range(33, 65))):
        defs = []
        top = sg.T("msg", name="E" + half.upper())
        for i, w in enumerate(ws):
            vals = [0, (1 << w) - 1] + ([1 << (w - 1)] if w > 1 else []) + ([5] if w > 3 else [])
            e = sg.T("enum", n=w, name=f"En{w}")
            e.members = [(f"EN{w}_{chr(65 + j)}", v) for j, v in enumerate(dict.fromkeys(vals))]
            defs.append(e)
            top.fields.append((i + 1, f"e{w}", e))
            if w % 4 == 0:
                top.fields.append((100 + i, f"ea{w}", sg.T("arr", cap=2, t=e)))
        add(simple_schema(f"wenum{half}", defs, top), f"enum{ws[0]}-{ws[-1]}")
    return cases


def known_class_stream(rng) -> List[Tuple[sg.Schema, List[Any], str]]:
    """Small stream INSIDE / NEAR the region the Python theorem excludes (json-proxy-name), plus
    the region of the FIXED finding json-bytes, which must now pass."""
    cases = []
    # json-bytes (fixed by b3480f8): direct byte arrays, in every position
    bs = sg.T("alias", name="Blob", t=sg.T("arr", cap=3, t=sg.T("byte")))
    inner = sg.T("msg", name="Inner")
    inner.fields = [(1, "raw", sg.T("arr", cap=2, t=sg.T("byte"))), (2, "n", sg.T("int", n=9))]
    top = sg.T("msg", name="Bytes")
    top.fields = [(2, "b", sg.T("arr", cap=4, t=sg.T("byte"))), (1, "blob", bs), (3, "inner", inner),
                  (4, "blobs", sg.T("arr", cap=2, t=bs))]
    s = simple_schema("kbytes", [bs, inner], top)
    cases.append((s, [sg.gen_value(top, rng, m) for m in ("random", "max", "zero")], "regression:json-bytes"))
    # not in the class: an array of an alias of byte is a list of ints
    ab = sg.T("alias", name="Octet", t=sg.T("byte"))
    top = sg.T("msg", name="Octets")
    top.fields = [(1, "o", sg.T("arr", cap=3, t=ab)), (2, "one", sg.T("byte")), (3, "ob", ab)]
    s = simple_schema("koctets", [ab], top)
    cases.append((s, [sg.gen_value(top, rng, m) for m in ("random", "max")], "byte-without-array"))
    # json-proxy-name
    top = sg.T("msg", name="Prox")
    top.fields = [(1, PROXY_PREFIX + "x", sg.T("uint", n=3)), (2, "y", sg.T("uint", n=4)),
                  (3, PROXY_PREFIX, sg.T("bool"))]
    s = simple_schema("kproxy", [], top)
    cases.append((s, [sg.gen_value(top, rng, m) for m in ("random", "max")], "inside-known-class:json-proxy-name"))
    # near the class: a leading underscore / the prefix in the middle are fine
    top = sg.T("msg", name="Near")
    top.fields = [(1, "_enum_field_proxy_x", sg.T("uint", n=3)), (2, "x" + PROXY_PREFIX, sg.T("int", n=4)),
                  (3, "_e", sg.T("bool"))]
    s = simple_schema("knear", [], top)
    cases.append((s, [sg.gen_value(top, rng, m) for m in ("random", "min")], "near-proxy-name"))
    return cases


# ---- round 2: long identifiers and zero-bit wrappers ---------------------------------------------

NAME_LENGTHS = [39, 40, 43, 44, 45, 46, 47, 48, 49, 60, 63, 64, 65, 80]
_WORDS = ["measurement", "channel", "propeller", "rotation", "speed", "battery", "voltage", "navigation",
          "estimate", "reserved", "calibration", "offset", "threshold", "window", "counter", "status"]


def long_snake(rng, length: int, tag: str) -> str:
    """A snake_case identifier of exactly `length` characters, made unique by `tag` (letters)."""
    out = tag
    while len(out) < length:
        out += "_" + rng.choice(_WORDS)
    out = out[:length]
    if out.endswith("_"):
        out = out[:-1] + "x"
    return out.replace("__", "_x")


def long_pascal(rng, length: int, tag: str) -> str:
    out = tag
    while len(out) < length:
        out += rng.choice(_WORDS).capitalize()
    return out[:length]


def shape_stream(rng) -> List[Tuple[sg.Schema, List[Any], str]]:
    """Boundary catalogue of SHAPES rather than of values:
    (a) identifiers of 39..80 characters (field names at every listed length, in the top-level
        message, in a nested message and in an array element; long message / enum / alias /
        enum-member names);
    (b) zero-bit wrappers: messages that occupy no bit on the wire but do have fields (empty
        messages, arrays of them, messages made of those) at depth 2..4, as a field, as an array
        element, behind an alias, as the top-level message, non-extensible and extensible;
    (c) arrays of arrays of messages (through aliases)."""
    cases = []

    def add(s: sg.Schema, modes, tag: str):
        cases.append((s, [sg.gen_value(s.top, rng, m) for m in modes], f"shapes:{tag}"))

    # (a) long identifiers
    kinds = [lambda: sg.T("uint", n=rng.choice([1, 7, 33, 64])), lambda: sg.T("int", n=rng.choice([2, 13, 64])),
             lambda: sg.T("bool"), lambda: sg.T("byte")]
    en = sg.T("enum", n=9, name=long_pascal(rng, 70, "Mode"))
    en.members = [(long_snake(rng, 50, "mode_a").upper(), 0), (long_snake(rng, 64, "mode_b").upper(), 300)]
    inner = sg.T("msg", name=long_pascal(rng, 66, "Inner"))
    inner.fields = [(k + 1, long_snake(rng, L, "n" + sg._letters(k)), kinds[k % 4]())
                    for k, L in enumerate(NAME_LENGTHS[2::2])]
    al = sg.T("alias", name=long_pascal(rng, 58, "Samples"), t=sg.T("arr", cap=2, t=sg.T("int", n=17)))
    top = sg.T("msg", name=long_pascal(rng, 61, "Telemetry"))
    nums = list(range(1, len(NAME_LENGTHS) + 6))
    rng.shuffle(nums)
    top.fields = [(nums[k], long_snake(rng, L, "f" + sg._letters(k)), kinds[k % 4]())
                  for k, L in enumerate(NAME_LENGTHS)]
    k0 = len(NAME_LENGTHS)
    top.fields += [(nums[k0], long_snake(rng, 47, "e"), en), (nums[k0 + 1], long_snake(rng, 52, "inn"), inner),
                   (nums[k0 + 2], long_snake(rng, 45, "arr"), sg.T("arr", cap=2, t=inner)),
                   (nums[k0 + 3], long_snake(rng, 71, "al"), al),
                   (nums[k0 + 4], long_snake(rng, 44, "ext"), sg.T("arr", cap=2, ext=True, t=en))]
    add(simple_schema("longnames", [en, inner, al], top), ["random", "max", "min"], "long-identifiers")

    # (b) zero-bit wrappers
    def msg(name, fields, ext=False):
        m = sg.T("msg", name=name, ext=ext)
        m.fields = fields
        return m
    e0 = msg("Nothing", [])
    ex = msg("NothingExt", [], ext=True)
    w1 = msg("Slot", [(1, "reserved", e0)])
    w1a = msg("Spares", [(3, "spare", sg.T("arr", cap=2, t=e0))])
    w2 = msg("Rack", [(2, "spare", sg.T("arr", cap=2, t=e0)), (1, "slot", w1)])
    w3 = msg("Cabinet", [(7, "rack", w2), (4, "racks", sg.T("arr", cap=2, t=w2))])
    wx = msg("SlotExt", [(1, "reserved", e0)], ext=True)
    wm = msg("Holder", [(1, "e", ex), (2, "inner", w1)])
    leaf = msg("Leaf", [(1, "v", sg.T("int", n=11)), (2, "pad", e0), (3, "slot", w1)])
    slots = sg.T("alias", name="Slots", t=sg.T("arr", cap=2, t=w1))
    defs = [e0, ex, w1, w1a, w2, w3, wx, wm, leaf, slots]
    for ext in (False, True):
        top = msg("Board" + ("Ext" if ext else ""), [
            (3, "a", sg.T("uint", n=3)), (1, "slot", w1), (2, "rack", w2), (9, "e", e0),
            (4, "slots", sg.T("arr", cap=2, t=w1)), (5, "sp", w1a), (6, "leaf", leaf), (7, "deep", w3),
            (8, "xs", wx), (10, "m", wm), (11, "al", slots), (12, "grid", sg.T("arr", cap=2, t=slots)),
            (13, "xarr", sg.T("arr", cap=2, ext=True, t=w2)), (14, "z", sg.T("uint", n=9))], ext=ext)
        add(simple_schema("zboard" + ("x" if ext else ""), defs, top), ["random", "max"],
            "zero-bit-wrappers-as-fields" + ("-ext" if ext else ""))
    # the top-level message itself occupies zero bits / only its 16-bit prefix
    for ext in (False, True):
        top = msg("Void" + ("Ext" if ext else ""),
                  [(2, "slot", w1), (1, "racks", sg.T("arr", cap=2, t=w2)), (3, "e", e0), (5, "deep", w3)], ext=ext)
        add(simple_schema("zvoid" + ("x" if ext else ""), [e0, w1, w2, w3], top), ["zero"],
            "zero-bit-top-level" + ("-ext" if ext else ""))

    # (c) arrays of arrays of messages
    kind = sg.T("enum", n=2, name="Kind")
    kind.members = [("KIND_NONE", 0), ("KIND_WALL", 1), ("KIND_DOOR", 3)]
    cell = msg("Cell", [(1, "kind", kind), (2, "height", sg.T("int", n=6)), (3, "tag", sg.T("arr", cap=2, t=sg.T("byte")))])
    row = sg.T("alias", name="Row", t=sg.T("arr", cap=2, t=cell))
    plane = sg.T("alias", name="Plane", t=sg.T("arr", cap=2, t=row))
    top = msg("Grid", [(2, "grid", sg.T("arr", cap=3, t=row)), (1, "row", row), (3, "cube", sg.T("arr", cap=2, t=plane)),
                       (4, "cells", sg.T("arr", cap=2, ext=True, t=cell))])
    add(simple_schema("grids", [kind, cell, row, plane], top), ["random", "min"], "arrays-of-arrays-of-messages")
    return cases


def decorate(g: "sg.Gen", s: sg.Schema, rng, how: str) -> None:
    """Put the round-2 shape classes into a GENERATED schema (then re-render its files):
    'long'  — about half of all field names and some type names become 40..80 characters long;
    'zero'  — zero-bit wrappers (depth 2..3) become fields / array elements of the top message."""
    if how == "long":
        cnt = [0]
        seen_t = set()

        def visit(t: sg.T):
            if id(t) in seen_t:
                return
            seen_t.add(id(t))
            if t.kind in ("alias", "arr"):
                visit(t.t)
            if t.kind in ("msg", "enum", "alias") and t.name and rng.random() < 0.3:
                cnt[0] += 1
                t.name = long_pascal(rng, rng.randint(40, 80), t.name + "Q" + sg._letters(cnt[0]).capitalize())
            if t.kind == "msg":
                new = []
                for n, nm, ft in t.fields:
                    visit(ft)
                    if rng.random() < 0.5:
                        cnt[0] += 1
                        nm = long_snake(rng, rng.choice(NAME_LENGTHS + [rng.randint(40, 80)]), nm)
                    new.append((n, nm, ft))
                t.fields = new
        visit(s.top)
    elif how == "zero":
        def msg(name, fields, ext=False):
            m = sg.T("msg", name=name, ext=ext, file=0)
            m.fields = fields
            return m
        e0 = msg("Zwnothing", [])
        w1 = msg("Zwslot", [(rng.randint(1, 200), "reserved", e0)], ext=rng.random() < 0.2)
        w2 = msg("Zwrack", [(2, "spare", sg.T("arr", cap=rng.randint(1, 3), t=e0)), (1, "slot", w1)])
        for d in (w2, w1, e0):
            s.files[0].defs.insert(0, d)
            g.named.append(d)
        used = {n for n, _, _ in s.top.fields}
        free = [n for n in range(1, 256) if n not in used]
        rng.shuffle(free)
        extra = [(free[0], "zw_slot", w1), (free[1], "zw_rack", w2),
                 (free[2], "zw_slots", sg.T("arr", cap=2, ext=rng.random() < 0.3, t=w1)),
                 (free[3], "zw_racks", sg.T("arr", cap=2, t=w2))]
        for f in extra:
            s.top.fields.insert(rng.randint(0, len(s.top.fields)), f)
    s.texts = sg.render_files(g, s)


def default_params(i: int, rng) -> sg.Params:
    r = i % 10
    if r == 0:
        return sg.Params(max_bits=12000, max_leaves=500, big_prob=0.3)
    if r == 1:
        return sg.Params(max_depth=4, max_fields=8)
    if r == 2:
        return sg.Params(allow_import=False, allow_nested=False, max_fields=3, max_bits=200)
    if r == 3:
        return sg.Params(enum_nonzero_first=0.5)
    return sg.Params()


def gen_cases(ck: Check, n_schemas: int, n_values: int) -> List[Tuple[sg.Schema, List[Any], str]]:
    cases = []
    for i in range(n_schemas):
        rng = random.Random(f"{ck.prop}:{ck.seed}:{i}")
        g = sg.Gen(rng, default_params(i, rng))
        s = g.schema()
        tag = ""
        if i % 5 == 4:
            decorate(g, s, rng, "long")
            tag = "+long-names"
        elif i % 5 == 2:
            decorate(g, s, rng, "zero")
            tag = "+zero-bit-wrappers"
        vals = [sg.gen_value(s.top, rng, pyside.MODES[k % len(pyside.MODES)]) for k in range(n_values)]
        cases.append((s, vals, f"gen#{i}{tag}"))
    return cases


# ---- the run ------------------------------------------------------------------------------------

BITS = {1: "harness left the theorem's guards", 2: "tie C", 4: "property C (assigned struct)",
        8: "property C (decoded struct)", 16: "tie Python to_dict", 32: "tie Python to_json",
        64: "tie Python to_json compact", 128: "property Python",
        256: "property C (text rejected by the JSON recogniser wf_json)"}


def classify(s: sg.Schema, rr: Dict[str, Any]) -> Optional[str]:
    """Key of the finding that explains a failing PYTHON property bit, or None.  json-bytes is
    listed as FIXED in known_findings.jsonl, so naming it suppresses nothing: a TypeError for a
    byte array is reported as a VIOLATION (regression)."""
    comp = rr.get("compact") or {}
    if has_byte_array(s.top) and comp.get("exc") == "TypeError" and "bytearray" in comp.get("msg", ""):
        return "json-bytes"
    if has_proxy_name(s.top) and "ok" in comp and not has_byte_array(s.top):
        try:
            got = loads_pairs(comp["ok"])
        except Exception:
            return None
        want = expected_pairs(s.top, rr["_value"])

        def drop(w):
            if isinstance(w, list) and w and isinstance(w[0], tuple):
                return [(k, drop(x)) for k, x in w if not k.startswith(PROXY_PREFIX)]
            if isinstance(w, list):
                return [drop(x) for x in w]
            return w
        if same_json(got, drop(want)):
            return "json-proxy-name"
    return None


def run_json(ck: Check, prop_file: str, n_quick=(40, 4), n_thorough=(600, 8), tc_quick=(("gcc", "-O1"),),
             tc_thorough=(("gcc", "-O0"), ("gcc", "-O2"), ("gcc", "-O3"), ("clang", "-O2"))) -> None:
    ck.assumptions.extend(ASSUME)
    import time as _time
    t_start = _time.time()
    timings: Dict[str, float] = {}
    ck.coverage["trusted_base"] = ["Coq 8.16.1 kernel + vm_compute", "tools/translate_json.py",
                                   "tools/run_json.py + CPython 3.12 + gcc + ctypes",
                                   "no axioms (Print Assumptions: closed)"]
    ck.try_prove(prop_file, model_vo=("theories/JsonCheck.vo",))
    from vlib import COQ, coq_build
    if any(b["what"].startswith("translator") for b in ck.broken_obligations):
        # the source no longer translates: the last accepted translation stands in for the model
        # while the implementation is searched for a concrete failing input
        import shutil
        shutil.copy(os.path.join(COQ, "ref", "GenJson.v"), os.path.join(COQ, "gen", "GenJson.v"))
        ck.coverage["tie"]["model_from_reference_translation"] = True
    ok, log = coq_build(["theories/JsonCheck.vo"])
    if not ok:
        ck.model_ok = False
        ck.broken(Broken("the executable JSON model (theories/JsonCheck.vo) does not build", log[-2000:]))
        return

    timings["prove_s"] = round(_time.time() - t_start, 1)
    ns, nv = n_quick if ck.quick else n_thorough
    cases: List[Tuple[sg.Schema, List[Any], str]] = []
    for j in load_corpus(ck.prop):
        s = sg.schema_from_json(j["schema"])
        vals = [sg.value_from_json(s.top, v) for v in j["values"]]
        cases.append((s, vals, "corpus:" + os.path.basename(j["_path"])))
    n_corpus = len(cases)
    rng = random.Random(f"{ck.prop}:{ck.seed}:streams")
    if ck.replay_file:
        # ./check C16 --replay <file>: only the case(s) of that replay / corpus file
        j = json.load(open(ck.replay_file))
        s = sg.schema_from_json(j["schema"])
        vals = j["values"] if "values" in j else [j["value"]]
        cases = [(s, [sg.value_from_json(s.top, v) for v in vals], "replay:" + os.path.basename(ck.replay_file))]
        n_corpus = 1
    else:
        cases.extend(known_class_stream(rng))
        cases.extend(width_stream(rng))
        cases.extend(shape_stream(rng))
    n_fixed = len(cases)
    if not ck.replay_file:
        cases.extend(gen_cases(ck, ns, nv))

    import shutil as _sh
    chains = [tc for tc in (tc_quick if ck.quick else tc_thorough) if _sh.which(tc[0])]
    # lib/c/bitproto.c of the tree under test, compiled once per toolchain
    rt_obj = {}
    for cc, o in chains:
        obj = os.path.join(ck.dir, f"bitproto_{cc}{o}.o")
        rc, out, err = vrun([cc, o, "-std=c99", "-fPIC", "-w", "-c", "-I", os.path.join(REPO, "lib/c"),
                             os.path.join(REPO, "lib/c/bitproto.c"), "-o", obj], timeout=300)
        if rc != 0:
            ck.violation(f"lib/c/bitproto.c does not compile with {cc} {o}: " + err[-300:],
                         {"error": err[-2000:], "obligation": "tie T2 (C runtime could not be built)"},
                         found_input=False)
            return
        rt_obj[(cc, o)] = obj
    jobs = []
    for i, (s, vals, origin) in enumerate(cases):
        cc, o = chains[i % len(chains)]
        jobs.append(pyside.make_job(ck, i, s, vals, cc=cc, opt=o, rt_obj=rt_obj[(cc, o)]))
    if not ck.quick and not ck.replay_file:
        # the fixed streams once more with every other toolchain
        for cc, o in chains[1:]:
            for i in range(n_corpus, n_fixed):
                s, vals, origin = cases[i]
                if jobs[i]["cc"] == cc and jobs[i]["opt"] == o:
                    continue
                cases.append((s, vals, f"{origin}@{cc}{o}"))
                jobs.append(pyside.make_job(ck, len(cases) - 1, s, vals, cc=cc, opt=o, rt_obj=rt_obj[(cc, o)]))
    t1 = _time.time()
    results = run_workers("run_json.py", jobs, chunk=max(2, len(jobs) // 48), timeout=3600)
    # a toolchain / worker TIMEOUT is an artefact of machine load, not an observation of the
    # implementation: such jobs are run once more, one at a time
    again = [i for i, r in enumerate(results)
             if "Timeout" in str(r.get("c_error", "")) + str(r.get("worker_error", "")) + str(r.get("compile_error", ""))
             or "rc=124" in str(r.get("worker_error", ""))]
    for i in again:
        results[i] = run_workers("run_json.py", [jobs[i]], chunk=1, timeout=3600)[0]
    timings["rerun_after_timeout"] = len(again)
    timings["implementation_s"] = round(_time.time() - t1, 1)

    sh = pyside.Shards(ck, ck.prop.lower(), per_shard=8)
    n_eval = 0
    distinct = set()
    impl_fail = 0
    direct_bad = 0
    width_seen = set()
    for i, ((s, vals, origin), r) in enumerate(zip(cases, results)):
        if "runs" not in r or "c_error" in r:
            impl_fail += 1
            err = r.get("compile_error") or r.get("import_error") or r.get("c_error") or r.get("worker_error") or "?"
            ck.violation(f"the compiler / toolchain could not process a valid schema: {err[:300]}",
                         {"schema": sg.schema_to_json(s), "error": err, "origin": origin,
                          "obligation": "tie T2 (implementation could not be run)"}, found_input=True)
            continue
        defs = f"Definition t_{i} : nty := {nty(s.top)}.\n"
        exprs, metas = [], []
        for k, (v, rr) in enumerate(zip(vals, r["runs"])):
            if "set_exc" in rr:
                ck.violation(f"a value of the declared type could not be assigned: {rr['set_exc']}",
                             {"schema": sg.schema_to_json(s), "value": sg.value_to_json(s.top, v), "origin": origin},
                             found_input=True)
                continue
            n_eval += 1
            distinct.add((s.texts[s.main], json.dumps(sg.value_to_json(s.top, v), sort_keys=True)))
            # the observed texts; equal texts share one literal (less for Coq to elaborate)
            cf = (rr.get("c_fill") or {}).get("ok")
            if not printable(cf):
                cf = None
            shared = coq_string(cf) if cf is not None else '""'

            def same(o):
                return cf is not None and o is not None and o.get("ok") == cf
            cd, comp = rr.get("c_dec"), rr.get("compact")
            exprs.append(f"(let s := {shared} in c16_code t_{i} {sg.coq_val(s.top, v)} "
                         f"{'(Some s)' if cf is not None else 'None'} "
                         f"{'(Some s)' if same(cd) else ostr_term(cd)} {pres_term(rr.get('dict'), pyj_term)} "
                         f"{pres_term(rr.get('json'), coq_string)} "
                         f"{'(POk s)' if same(comp) else pres_term(comp, coq_string)})")
            metas.append((i, k))
            # direct observation, independent of the Coq model: json.loads of both outputs
            want = expected_pairs(s.top, v)
            rr["_value"] = v
            rr["_direct"] = []
            for side in ("c_fill", "c_dec", "compact", "json"):
                o = rr.get(side) or {}
                if "ok" in o:
                    try:
                        if not same_json(loads_pairs(o["ok"]), want):
                            rr["_direct"].append(side)
                    except Exception:
                        rr["_direct"].append(side + ":not-json")
                elif side in ("c_fill", "c_dec"):
                    rr["_direct"].append(side + ":missing")
            for x in walk(s.top):
                if x.kind in ("uint", "int", "enum"):
                    width_seen.add((x.kind, x.n))
        sh.add(defs, exprs, metas)

    t1 = _time.time()
    out = sh.run(header=HEADER)
    timings["coq_eval_s"] = round(_time.time() - t1, 1)
    counts: Dict[str, int] = {}
    n_tie = n_prop = 0
    seen = set()
    for (i, k), code in out:
        seen.add((i, k))
        counts[str(code)] = counts.get(str(code), 0) + 1
        s, vals, origin = cases[i]
        rr = results[i]["runs"][k]
        v = vals[k]
        direct = rr.get("_direct", [])
        c_direct = [d for d in direct if d.startswith("c_")]
        py_direct = [d for d in direct if not d.startswith("c_")]
        obs = {kk: rr.get(kk) for kk in ("c_fill", "c_dec", "dict", "json", "compact")}
        replay = {"schema": sg.schema_to_json(s), "value": sg.value_to_json(s.top, v), "observed": obs,
                  "specified": json.dumps(expected_json(s.top, v), separators=(",", ":")),
                  "origin": origin, "code": code, "code_bits": [BITS[b] for b in BITS if code & b],
                  "direct_json_loads_mismatch": direct, "cc": jobs[i].get("cc") + " " + jobs[i].get("opt")}
        if code & 1:
            ck.broken(Broken(f"harness: case {origin}#{k} is outside shape/range/name guards", json.dumps(replay)[:1500]))
        if code & (4 | 8 | 256) or c_direct:
            n_prop += 1
            via = "a struct filled by assignment" if (code & 4 or "c_fill" in " ".join(c_direct)) else \
                "the struct decoded from the Python encoder's bytes"
            ck.violation(f"C Json<Msg>() of {via} does not print the specified JSON "
                         f"(observed {str((rr.get('c_fill') or {}).get('ok'))[:120]!r})", replay, found_input=True)
        if code & 128 or py_direct:
            n_prop += 1
            key = classify(s, rr)
            comp = rr.get("compact") or {}
            what = (f"Python to_json() raised {comp.get('exc')}: {comp.get('msg')}" if "exc" in comp else
                    "Python to_json() does not state the specified JSON value")
            ck.violation(what, replay, found_input=True, key=key)
        if code & (2 | 16 | 32 | 64) and not (code & (4 | 8 | 128 | 256)):
            n_tie += 1
            ck.broken(Broken("tie T2: the model (Json.v) and the implementation disagree on "
                             + ", ".join(BITS[b] for b in (2, 16, 32, 64) if code & b)
                             + f" (schema {origin}, value #{k}) although the implementation meets the specification",
                             json.dumps(replay)[:2500]))
        elif code & (2 | 16 | 32 | 64):
            n_tie += 1
            ck.coverage["tie"].setdefault("model_mismatch_with_failing_property", 0)
            ck.coverage["tie"]["model_mismatch_with_failing_property"] += 1
            # the model is expected to PREDICT a failing implementation: if it does not, say so
            ck.broken(Broken("tie T2: the implementation fails the property AND differs from the model ("
                             + ", ".join(BITS[b] for b in (2, 16, 32, 64) if code & b) + f") on {origin}#{k}",
                             json.dumps(replay)[:2500]))
    # every (kind, width) must have been exercised
    missing = [(k, w) for k in ("uint", "int", "enum") for w in range(1, 65) if (k, w) not in width_seen]
    if missing and not impl_fail and not ck.replay_file:
        ck.broken(Broken("harness: the width stream did not exercise " + str(missing[:10])))

    cov = ck.coverage
    cov["evaluations"] = n_eval
    cov["distinct_nontrivial"] = len([1 for (txt, val) in distinct if len(val) > 8])
    cov["rule"] = ("schemas: (a) corpus, (b) hand-built streams inside/near the known-finding classes, (c) the width "
                   "stream (every width 1..64 as uint / int / enum, direct field and array element, values "
                   "min/max/all-ones(-1)/zero/random), (d) the shape stream (identifiers of 39..80 characters as field / "
                   "message / enum / alias names at every nesting position; zero-bit wrapper messages at depth 2..4 as "
                   "field, array element, alias target and top-level message, extensible and not; arrays of arrays of "
                   "messages), (e) tools/schema_gen.py (nesting, aliases, enums, imports, extensible markers, permuted "
                   "field numbers), every fifth schema with half of its names lengthened to 40..80 characters and "
                   "every fifth with zero-bit wrappers added to its top message; a case is (main schema text, value tree) and is run "
                   "through Python to_dict/to_json/to_json(compact)/encode and C fill->Json, Decode->Json; distinct "
                   "= distinct pairs, non-trivial = value tree with at least one field")
    cov["tie"] = {**cov.get("tie", {}), "schemas": len(cases), "corpus": n_corpus, "codes": counts,
                  "tie_mismatches": n_tie, "property_mismatches": n_prop, "impl_failures": impl_fail,
                  "toolchains": [" ".join(tc) for tc in chains], "widths_exercised": len(width_seen),
                  "schemas_with_byte_array": sum(1 for c in cases if has_byte_array(c[0].top)),
                  "code_bits": {str(b): t for b, t in BITS.items()}}
    cov["tie"]["timings"] = timings
    cov["distribution"] = sg.distribution([c[0] for c in cases])
    for idx in (n_corpus, n_fixed):
        if idx < len(cases) and "runs" in results[idx] and cases[idx][1]:
            s, vals, origin = cases[idx]
            rr = results[idx]["runs"][0]
            cov["samples"].append({"schema": s.texts, "value": sg.value_to_json(s.top, vals[0]), "origin": origin,
                                   "c_json": (rr.get("c_fill") or {}).get("ok"),
                                   "py_to_json": rr.get("json")})


def expected_json(t: sg.T, v: Any) -> Any:
    k = t.kind
    if k == "alias":
        return expected_json(t.t, v)
    if k == "arr":
        return [expected_json(t.t, x) for x in v]
    if k == "msg":
        return {nm: expected_json(ft, v[n] if n in v else v[str(n)])
                for n, nm, ft in sorted(t.fields, key=lambda f: f[0])}
    if k == "bool":
        return bool(v)
    return int(v)
