"""c10_parse — parsers of what the compiler EMITS, for property C10 (tie T1/T2).

Each parser turns one generated file into the item list the Coq model (Emit.render) predicts:
    {"k": "decl", "kind": <dk>, "name": <generated name>, "idents": [...], "members": n}
    {"k": "import", "member": <bound name or "">, "target": <file/module/path written>}
`idents` are ALL identifiers the declaration's text mentions (C: `struct X` is reported as
"struct X"; Python/Go: `q.X` for a selector on a plain name); the harness intersects them
with the generated names of the whole job before comparing with the model's `uses`.
The parsers are fail-closed: text that does not have one of the known top-level shapes raises
ParseError (a broken tie, not a silent skip).

go_check() is the "small Go tokenizer": balanced syntax, every identifier declared in the
file / predeclared / qualified by an import / a selector, every import used.
"""
from __future__ import annotations

import ast
import re
from typing import Any, Dict, List, Optional, Set, Tuple


class ParseError(Exception):
    pass


IDENT = re.compile(r"[A-Za-z_][A-Za-z0-9_]*")
C_STRING = re.compile(r'"(?:[^"\\\n]|\\.)*"')


def _c_idents(text: str) -> List[str]:
    text = re.sub(r"//[^\n]*", " ", text)
    text = C_STRING.sub(" ", text)
    out = []
    toks = IDENT.findall(text)
    i = 0
    while i < len(toks):
        if toks[i] == "struct" and i + 1 < len(toks):
            out.append("struct " + toks[i + 1])
            i += 2
        else:
            out.append(toks[i])
            i += 1
    return out


def _strip_c_comment(line: str) -> str:
    # comments of generated code are `// ...` at the beginning of a line or after a declaration
    m = re.search(r"//", C_STRING.sub(lambda m: " " * len(m.group(0)), line))
    return line[:m.start()] if m else line


def parse_c(text: str, is_header: bool) -> List[Dict[str, Any]]:
    items: List[Dict[str, Any]] = []
    lines = text.split("\n")
    i = 0
    cond_depth = 0
    extern_open = 0

    def decl(kind, name, src, members=0):
        items.append({"k": "decl", "kind": kind, "name": name, "idents": _c_idents(src), "members": members})

    while i < len(lines):
        raw = lines[i]
        line = _strip_c_comment(raw).rstrip()
        # continuation lines of preprocessor conditionals
        while line.endswith("\\") and i + 1 < len(lines):
            i += 1
            line = line[:-1] + " " + _strip_c_comment(lines[i]).rstrip()
        i += 1
        if not line.strip():
            continue
        m = re.fullmatch(r"#include\s+\"([^\"]+)\"", line)
        if m:
            if m.group(1) != "bitproto.h":
                items.append({"k": "import", "member": "", "target": m.group(1)})
            continue
        if re.fullmatch(r"#include\s+<[^>]+>", line):
            continue
        if re.match(r"#\s*(ifndef|ifdef|if)\b", line):
            cond_depth += 1
            continue
        if re.match(r"#\s*(else|elif)\b", line):
            if cond_depth <= 0:
                raise ParseError(f"#else without #if: {raw!r}")
            continue
        if re.match(r"#\s*endif\b", line):
            cond_depth -= 1
            if cond_depth < 0:
                raise ParseError("unbalanced #endif")
            continue
        m = re.fullmatch(r"#define\s+([A-Za-z_][A-Za-z0-9_]*)(\s+.*)?", line)
        if m:
            if is_header:
                decl("DkDefine", m.group(1), "")
            elif not (cond_depth > 0 and m.group(1) == "BP_BIG_ENDIAN"):
                raise ParseError(f"unexpected #define in a generated C source: {raw!r}")
            continue
        if line == 'extern "C" {':
            extern_open += 1
            continue
        if line == "}" and extern_open > 0 and is_header:
            extern_open -= 1
            continue
        m = re.fullmatch(r"typedef\s+(.*?)\s*\b([A-Za-z_][A-Za-z0-9_]*)(\[\d+\])?;", line)
        if m:
            decl("DkTypedef", m.group(2), m.group(1))
            continue
        m = re.fullmatch(r"struct\s+([A-Za-z_][A-Za-z0-9_]*)\s*\{", line)
        if m:
            body = []
            while i < len(lines):
                l2 = _strip_c_comment(lines[i]).strip()
                i += 1
                if re.fullmatch(r"\}(\s*__attribute__\(\(.*\)\))?\s*;", l2):
                    break
                if l2:
                    if not re.fullmatch(r"[A-Za-z_][A-Za-z0-9_ ]*?\s+[A-Za-z_][A-Za-z0-9_]*(\[\d+\])?;", l2):
                        raise ParseError(f"struct member not understood: {l2!r}")
                    body.append(l2)
            else:
                raise ParseError(f"struct {m.group(1)} not closed")
            # member names are not uses: drop the declarator
            src = " ".join(re.sub(r"\s+[A-Za-z_][A-Za-z0-9_]*(\[\d+\])?;$", "", b) for b in body)
            decl("DkStruct", m.group(1), src, len(body))
            continue
        m = re.fullmatch(r"(?:int|void)\s+([A-Za-z_][A-Za-z0-9_]*)\((.*)\);", line)
        if m:
            decl("DkProto", m.group(1), m.group(2))
            continue
        m = re.fullmatch(r"(?:int|void)\s+([A-Za-z_][A-Za-z0-9_]*)\((.*)\)\s*\{", line)
        if m and not is_header:
            body = [m.group(2)]
            depth = 1
            while i < len(lines) and depth > 0:
                l2 = _strip_c_comment(lines[i])
                i += 1
                code = C_STRING.sub('""', l2)
                depth += code.count("{") - code.count("}")
                body.append(l2)
            if depth != 0:
                raise ParseError(f"function {m.group(1)} not closed")
            decl("DkFunc", m.group(1), "\n".join(body))
            continue
        raise ParseError(f"unexpected top-level line in generated C: {raw!r}")
    if cond_depth != 0:
        raise ParseError("unbalanced preprocessor conditionals")
    if extern_open != 0:
        raise ParseError('unbalanced extern "C" block')
    return items


def c_struct_layout(text: str) -> List[Tuple[str, List[str]]]:
    """[(struct tag, [member names])] of a generated header (for the sizeof/offsetof probe)."""
    out = []
    for m in re.finditer(r"^struct\s+([A-Za-z_][A-Za-z0-9_]*)\s*\{\n(.*?)^\}", text, flags=re.S | re.M):
        mem = []
        for l in m.group(2).split("\n"):
            l = _strip_c_comment(l).strip()
            mm = re.fullmatch(r".*?\b([A-Za-z_][A-Za-z0-9_]*)(\[\d+\])?;", l)
            if mm:
                mem.append(mm.group(1))
        out.append((m.group(1), mem))
    return out


# ---- Python ------------------------------------------------------------------------------------

PY_GENERAL = {"json", "dataclasses", "typing", "enum", "bitprotolib"}


def _py_idents(node: ast.AST) -> List[str]:
    out: List[str] = []

    class V(ast.NodeVisitor):
        def visit_Attribute(self, n: ast.Attribute):
            if isinstance(n.value, ast.Name):
                out.append(f"{n.value.id}.{n.attr}")
                out.append(n.value.id)
            else:
                self.visit(n.value)

        def visit_Name(self, n: ast.Name):
            if isinstance(n.ctx, ast.Load):
                out.append(n.id)

    V().visit(node)
    return out


def parse_py(text: str) -> List[Dict[str, Any]]:
    try:
        tree = ast.parse(text)
    except SyntaxError as e:
        raise ParseError(f"generated Python does not parse: {e}")
    items: List[Dict[str, Any]] = []
    for n in tree.body:
        if isinstance(n, ast.Expr) and isinstance(n.value, ast.Constant) and isinstance(n.value.value, str):
            continue
        if isinstance(n, ast.ImportFrom):
            if (n.module or "").split(".")[0] not in PY_GENERAL:
                raise ParseError(f"unexpected from-import {n.module}")
            continue
        if isinstance(n, ast.Import):
            for a in n.names:
                if a.name in PY_GENERAL and a.asname is None:
                    continue
                items.append({"k": "import", "member": a.asname or a.name, "target": a.name})
            continue
        if isinstance(n, ast.AnnAssign) and isinstance(n.target, ast.Name):
            ids = _py_idents(n.annotation) + (_py_idents(n.value) if n.value is not None else [])
            items.append({"k": "decl", "kind": "DkPyAssign", "name": n.target.id, "idents": ids, "members": 0})
            continue
        if isinstance(n, ast.Assign) and len(n.targets) == 1 and isinstance(n.targets[0], ast.Name):
            items.append({"k": "decl", "kind": "DkPyAssign", "name": n.targets[0].id,
                          "idents": _py_idents(n.value), "members": 0})
            continue
        if isinstance(n, ast.ClassDef):
            nfields = 0
            for b in n.body:
                if isinstance(b, ast.AnnAssign) and isinstance(b.target, ast.Name) \
                        and not b.target.id.startswith("_enum_field_proxy__") \
                        and ast.unparse(b.annotation) != "ClassVar[int]":
                    nfields += 1
            ids: List[str] = []
            for b in n.body + n.bases + n.decorator_list:
                ids.extend(_py_idents(b))
            is_msg = any(ast.unparse(b) == "bp.MessageBase" for b in n.bases)
            attrs: List[str] = []
            for b in n.body:
                if isinstance(b, ast.AnnAssign) and isinstance(b.target, ast.Name):
                    attrs.append(b.target.id)
                elif isinstance(b, ast.Assign) and len(b.targets) == 1 and isinstance(b.targets[0], ast.Name):
                    attrs.append(b.targets[0].id)
                elif isinstance(b, ast.FunctionDef):
                    attrs.append(b.name)
                elif isinstance(b, ast.Pass) or (isinstance(b, ast.Expr) and isinstance(b.value, ast.Constant)):
                    continue
                else:
                    raise ParseError(f"unexpected statement in class {n.name}: {ast.unparse(b)[:60]!r}")
            items.append({"k": "decl", "kind": "DkPyClass", "name": n.name, "idents": ids,
                          "members": nfields if is_msg else 0, "attrs": attrs})
            continue
        if isinstance(n, ast.FunctionDef):
            items.append({"k": "decl", "kind": "DkPyDef", "name": n.name, "idents": _py_idents(n), "members": 0})
            continue
        raise ParseError(f"unexpected module-level statement in generated Python: {ast.unparse(n)[:80]!r}")
    return items


# ---- Go ------------------------------------------------------------------------------------------

GO_KEYWORDS = {"break", "default", "func", "interface", "select", "case", "defer", "go", "map", "struct", "chan",
               "else", "goto", "package", "switch", "const", "fallthrough", "if", "range", "type", "continue", "for",
               "import", "return", "var"}
GO_PREDECLARED = {"bool", "byte", "complex64", "complex128", "error", "float32", "float64", "int", "int8", "int16",
                  "int32", "int64", "rune", "string", "uint", "uint8", "uint16", "uint32", "uint64", "uintptr",
                  "true", "false", "iota", "nil", "append", "cap", "close", "complex", "copy", "delete", "imag",
                  "len", "make", "new", "panic", "print", "println", "real", "recover", "any", "_"}

GO_TOKEN = re.compile(r"""
    (?P<ws>[ \t\r]+)
  | (?P<nl>\n)
  | (?P<comment>//[^\n]*|/\*.*?\*/)
  | (?P<string>"(?:[^"\\\n]|\\.)*"|`[^`]*`|'(?:[^'\\\n]|\\.)+')
  | (?P<ident>[A-Za-z_][A-Za-z0-9_]*)
  | (?P<num>0[xX][0-9a-fA-F]+|[0-9]+(?:\.[0-9]+)?)
  | (?P<op>:=|<<=|>>=|&\^=|\+=|-=|\*=|/=|%=|&=|\|=|\^=|<<|>>|&\^|&&|\|\||<-|\+\+|--|==|!=|<=|>=|\.\.\.|[-+*/%&|^<>=!(){}\[\],;.:~])
""", re.X | re.S)


def go_tokens(text: str) -> List[Tuple[str, str, int]]:
    """[(kind, text, line)] with automatic semicolon insertion at newlines (Go spec)."""
    toks: List[Tuple[str, str, int]] = []
    pos, line = 0, 1
    while pos < len(text):
        m = GO_TOKEN.match(text, pos)
        if not m:
            raise ParseError(f"Go: cannot tokenize at line {line}: {text[pos:pos + 30]!r}")
        kind = m.lastgroup
        val = m.group(0)
        pos = m.end()
        if kind == "nl" or (kind == "comment" and "\n" in val) or (kind == "comment" and val.startswith("//")):
            # a `//` comment runs to the newline which is tokenized next; insert `;` at newline only
            if kind == "nl" or "\n" in val:
                if toks:
                    k, v, _ = toks[-1]
                    if k in ("ident", "num", "string") and v not in (GO_KEYWORDS - {"break", "continue", "fallthrough", "return"}) \
                            or v in ("++", "--", ")", "]", "}"):
                        toks.append(("op", ";", line))
                line += val.count("\n")
            continue
        if kind in ("ws", "comment"):
            line += val.count("\n")
            continue
        toks.append((kind, val, line))
        line += val.count("\n")
    if toks and toks[-1][1] != ";":
        toks.append(("op", ";", line))
    return toks


def go_check(text: str) -> Dict[str, Any]:
    """Static checks on a generated Go file.  Returns {"errors": [...], "items": [...]}."""
    errors: List[str] = []
    try:
        toks = go_tokens(text)
    except ParseError as e:
        return {"errors": [str(e)], "items": []}
    # ---- balance ----
    stack: List[Tuple[str, int]] = []
    pairs = {")": "(", "]": "[", "}": "{"}
    for k, v, ln in toks:
        if k == "op" and v in "([{":
            stack.append((v, ln))
        elif k == "op" and v in ")]}":
            if not stack or stack[-1][0] != pairs[v]:
                errors.append(f"unbalanced '{v}' at line {ln}")
                break
            stack.pop()
    if stack and not errors:
        errors.append(f"unclosed '{stack[-1][0]}' opened at line {stack[-1][1]}")
    if errors:
        return {"errors": errors, "items": []}

    # ---- split into top-level declarations ----
    items: List[Dict[str, Any]] = []
    imports: Dict[str, str] = {}
    decls: List[Tuple[str, List[Tuple[str, str, int]]]] = []
    i, n = 0, len(toks)
    depth = 0
    cur: List[Tuple[str, str, int]] = []
    for t in toks:
        k, v, ln = t
        if k == "op" and v in "([{":
            depth += 1
        if k == "op" and v in ")]}":
            depth -= 1
        if k == "op" and v == ";" and depth == 0:
            if cur:
                decls.append((cur[0][1], cur))
            cur = []
        else:
            cur.append(t)
    pkg_level: Set[str] = set()
    methods: Set[str] = set()
    dup: List[str] = []

    def declare(name: str, ln: int):
        if name == "_":
            return
        if name in pkg_level:
            dup.append(f"{name} redeclared at line {ln}")
        pkg_level.add(name)

    parsed: List[Tuple[str, Any]] = []
    for head, d in decls:
        ln = d[0][2]
        if head == "package":
            if len(d) != 2 or d[1][0] != "ident":
                errors.append(f"bad package clause at line {ln}")
            parsed.append(("package", d))
        elif head == "import":
            body = d[1:]
            if body and body[0][1] == "(":
                body = body[1:-1]
            # specs separated by ';'
            spec: List[Tuple[str, str, int]] = []
            specs = []
            for t in body:
                if t[1] == ";":
                    if spec:
                        specs.append(spec)
                    spec = []
                else:
                    spec.append(t)
            if spec:
                specs.append(spec)
            for sp in specs:
                if len(sp) == 1 and sp[0][0] == "string":
                    path = sp[0][1][1:-1]
                    name = path.split("/")[-1]
                elif len(sp) == 2 and sp[0][0] == "ident" and sp[1][0] == "string":
                    name, path = sp[0][1], sp[1][1][1:-1]
                else:
                    errors.append(f"bad import spec at line {sp[0][2]}")
                    continue
                if name in imports:
                    errors.append(f"import name {name} redeclared at line {sp[0][2]}")
                imports[name] = path
                if path not in ("strconv", "encoding/json", "github.com/hit9/bitproto/lib/go"):
                    items.append({"k": "import", "member": name, "target": path})
            parsed.append(("import", d))
        elif head in ("type", "const", "var"):
            body = d[1:]
            group = bool(body) and body[0][1] == "("
            if group:
                body = body[1:-1]
            specs = []
            spec = []
            dd = 0
            for t in body:
                if t[1] in "([{":
                    dd += 1
                if t[1] in ")]}":
                    dd -= 1
                if t[1] == ";" and dd == 0:
                    if spec:
                        specs.append(spec)
                    spec = []
                else:
                    spec.append(t)
            if spec:
                specs.append(spec)
            for sp in specs:
                if sp[0][0] != "ident":
                    errors.append(f"bad {head} spec at line {sp[0][2]}")
                    continue
                declare(sp[0][1], sp[0][2])
                parsed.append((head, sp))
        elif head == "func":
            if len(d) > 1 and d[1][1] == "(":     # method
                j = 2
                dd = 1
                while j < len(d) and dd > 0:
                    if d[j][1] == "(":
                        dd += 1
                    if d[j][1] == ")":
                        dd -= 1
                    j += 1
                recv = [t for t in d[2:j - 1] if t[0] == "ident"]
                if len(recv) != 2 or j >= len(d) or d[j][0] != "ident":
                    errors.append(f"bad method declaration at line {ln}")
                    continue
                key = f"{recv[1][1]}.{d[j][1]}"
                if key in methods:
                    dup.append(f"method {key} redeclared at line {ln}")
                methods.add(key)
                parsed.append(("method", (key, recv[0][1], recv[1][1], d, j)))
            else:
                if len(d) < 2 or d[1][0] != "ident":
                    errors.append(f"bad func declaration at line {ln}")
                    continue
                declare(d[1][1], ln)
                parsed.append(("func", (d[1][1], d)))
        else:
            errors.append(f"unexpected top-level token {head!r} at line {ln}")
    errors.extend(dup)

    used_imports: Set[str] = set()

    def scan(tokens: List[Tuple[str, str, int]], locals_: Set[str], what: str, struct_body: bool = False) -> List[str]:
        """identifier resolution inside one declaration; returns the referenced names"""
        refs: List[str] = []
        # local declarations: `a, b :=`, `for i :=`, `var x`
        for j, (k, v, ln) in enumerate(tokens):
            if v == ":=":
                b = j - 1
                while b >= 0 and (tokens[b][0] == "ident" or tokens[b][1] == ","):
                    if tokens[b][0] == "ident":
                        locals_.add(tokens[b][1])
                    b -= 1
            if v == "var" and j + 1 < len(tokens) and tokens[j + 1][0] == "ident" and j > 0:
                locals_.add(tokens[j + 1][1])
        j = 0
        bdepth = 0
        line_start = True
        while j < len(tokens):
            k, v, ln = tokens[j]
            if k == "op":
                if v == ";" or v == "{":
                    line_start = True
                else:
                    line_start = False
                j += 1
                continue
            if k != "ident":
                line_start = False
                j += 1
                continue
            prev = tokens[j - 1][1] if j > 0 else ""
            nxt = tokens[j + 1][1] if j + 1 < len(tokens) else ""
            if v in GO_KEYWORDS:
                j += 1
                line_start = False
                continue
            if prev == ".":
                j += 1
                continue                      # selector: field, method or member of a package
            if struct_body and line_start:
                line_start = False
                j += 1
                continue                      # struct field name (declaring occurrence)
            line_start = False
            if nxt == "." and v in imports and v not in locals_:
                used_imports.add(v)
                if j + 2 < len(tokens) and tokens[j + 2][0] == "ident":
                    refs.append(f"{v}.{tokens[j + 2][1]}")
                j += 1
                continue
            if nxt == ":" and prev in ("{", ","):
                j += 1
                continue                      # key of a composite literal
            if v in locals_ or v in pkg_level or v in GO_PREDECLARED:
                if v in pkg_level and v not in locals_:
                    refs.append(v)
                j += 1
                continue
            errors.append(f"{what}: undefined identifier {v} at line {ln}")
            if nxt == "." and j + 2 < len(tokens) and tokens[j + 2][0] == "ident":
                refs.append(f"{v}.{tokens[j + 2][1]}")
            else:
                refs.append(v)
            j += 1
        return refs

    for kind, payload in parsed:
        if kind in ("package", "import"):
            continue
        if kind == "type":
            sp = payload
            name = sp[0][1]
            is_struct = len(sp) > 1 and sp[1][1] == "struct"
            members = 0
            if is_struct:
                inner = sp[3:-1]
                members = sum(1 for q, t in enumerate(inner) if t[0] == "ident" and (q == 0 or inner[q - 1][1] == ";"))
                refs = scan(inner, set(), f"type {name}", struct_body=True)
            else:
                refs = scan(sp[1:], set(), f"type {name}")
            items.append({"k": "decl", "kind": "DkGoType", "name": name, "idents": refs, "members": members})
        elif kind in ("const", "var"):
            sp = payload
            refs = scan(sp[1:], set(), f"{kind} {sp[0][1]}")
            if sp[0][1] != "_":
                items.append({"k": "decl", "kind": "DkGoConst" if kind == "const" else "DkGoVar", "name": sp[0][1],
                              "idents": refs, "members": 0})
        elif kind == "method":
            key, rname, rtype, d, j = payload
            if rtype not in pkg_level:
                errors.append(f"method {key}: receiver type {rtype} is not declared in this file")
            sig_locals = {rname}
            # parameter names: identifiers directly after '(' or ',' in the parameter list
            q = j + 1
            dd = 0
            while q < len(d):
                if d[q][1] == "(":
                    dd += 1
                    if dd == 1 and q + 1 < len(d) and d[q + 1][0] == "ident" and d[q + 2][1] != ")" and d[q + 2][1] != ",":
                        sig_locals.add(d[q + 1][1])
                elif d[q][1] == ")":
                    dd -= 1
                    if dd == 0:
                        break
                elif d[q][1] == "," and dd == 1 and d[q + 1][0] == "ident":
                    sig_locals.add(d[q + 1][1])
                q += 1
            refs = scan(d[j + 1:], sig_locals, f"method {key}")
            items.append({"k": "decl", "kind": "DkGoMethod", "name": key, "idents": refs + [rtype], "members": 0})
        elif kind == "func":
            name, d = payload
            sig_locals: Set[str] = set()
            q = 2
            dd = 0
            while q < len(d):
                if d[q][1] == "(":
                    dd += 1
                    if dd == 1 and d[q + 1][0] == "ident" and d[q + 2][1] not in (")", ","):
                        sig_locals.add(d[q + 1][1])
                elif d[q][1] == ")":
                    dd -= 1
                    if dd == 0:
                        break
                elif d[q][1] == "," and dd == 1 and d[q + 1][0] == "ident":
                    sig_locals.add(d[q + 1][1])
                q += 1
            refs = scan(d[2:], sig_locals, f"func {name}")
            items.append({"k": "decl", "kind": "DkGoFunc", "name": name, "idents": refs, "members": 0})
    for name in imports:
        if name not in used_imports:
            errors.append(f"import {name} \"{imports[name]}\" is not used")
    return {"errors": errors, "items": items, "imports": imports}
