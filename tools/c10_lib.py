"""c10_lib — harness side of property C10: the feature stream of schemas, the Coq term of an
elaborated schema (from the REAL parser's AST dump), the parsed outputs as Coq terms, and the
classification of toolchain diagnostics."""
from __future__ import annotations

import json
import os
import re
from typing import Any, Dict, List, Optional, Sequence, Set, Tuple

from vlib import clist

# ---- Coq printing --------------------------------------------------------------------------------


def cs(s: str) -> str:
    if all(32 <= ord(c) <= 126 for c in s):
        return '"' + s.replace('"', '""') + '"'
    if any(ord(c) > 255 for c in s):
        raise ValueError("non-latin1 character in a schema string")
    return "(unchars [" + "; ".join(f"ascii_of_nat {ord(c)}" for c in s) + "])"


def cstrs(l: Sequence[str]) -> str:
    return clist(cs(x) for x in l)


def coq_type(t: Dict[str, Any], fidx: Dict[str, int]) -> str:
    if "b" in t:
        b = t["b"]
        if b == "bool":
            return "(TBase BBool)"
        if b == "byte":
            return "(TBase BByte)"
        return f"(TBase ({'BUint' if b == 'uint' else 'BInt'} {t['n']}))"
    if "arr" in t:
        return f"(TArr {coq_type(t['arr'], fidx)} {t['cap']}%N {'true' if t['ext'] else 'false'})"
    k = {"enum": "RkEnum", "msg": "RkMsg", "alias": "RkAlias"}[t["ref"]]
    return f"(TRef (mkRef {k} {cstrs(t['via'])} {fidx[t['file']]} {cstrs(t['path'])} {cs(t['name'])}))"


def coq_def(d: Dict[str, Any], fidx: Dict[str, int]) -> str:
    k = d["k"]
    if k == "const":
        v = d["v"]
        cv = f"(CvBool {'true' if v else 'false'})" if d["vt"] == "bool" else \
            f"(CvInt {v})" if d["vt"] == "int" else f"(CvStr {cs(v)})"
        return f"(DConst {cs(d['n'])} {cv})"
    if k == "alias":
        return f"(DAlias {cs(d['n'])} {coq_type(d['t'], fidx)})"
    if k == "enum":
        return f"(DEnum {cs(d['n'])} {d['w']} {clist(f'({cs(n)}, {v}%N)' for n, v in d['ms'])})"
    fs = clist(f"(mkField {cs(n)} {num} {coq_type(t, fidx)})" for n, num, t in d["fs"])
    return (f"(DMsg {cs(d['n'])} {'true' if d['ext'] else 'false'} "
            f"{clist(coq_def(x, fidx) for x in d['nested'])} {fs})")


def coq_file(f: Dict[str, Any], fidx: Dict[str, int]) -> str:
    o = f["opts"]
    opts = (f"(mkOpts {cs(o['c.name_prefix'])} {o['c.struct_packing_alignment']}%Z "
            f"{cs(o['py.module_name'])} {cs(o['go.package_path'])})")
    imps = clist(f"({cs(m)}, {fidx[fn]})" for m, fn in f["imports"])
    return f"(mkFile {cs(f['base'])} {cs(f['proto'])} {imps} {opts} {clist(coq_def(d, fidx) for d in f['defs'])})"


def coq_schema(ast: Dict[str, Any], order: Sequence[str]) -> str:
    fidx = {n: i for i, n in enumerate(order)}
    return clist(coq_file(ast[n], fidx) for n in order)


# ---- parsed real outputs -> psig lists --------------------------------------------------------------

NOT_QUAL = {"self", "bp", "json", "strconv", "m", "di", "ctx"}


def universe(items_by_file: Dict[str, List[Dict[str, Any]]], lang: str) -> Tuple[Set[str], Set[str]]:
    """(generated names of the whole job for this mode, import member names)"""
    names: Set[str] = set()
    members: Set[str] = set()
    for its in items_by_file.values():
        for it in its:
            if it["k"] == "import":
                if it["member"]:
                    members.add(it["member"])
            elif lang == "c" and it["kind"] == "DkStruct":
                names.add("struct " + it["name"])
            else:
                names.add(it["name"])
    return names, members


P61 = (1 << 61) - 1


def hs(x: str) -> int:
    h = 7
    for ch in x:
        h = (h * 257 + ord(ch) + 1) % P61
    return h


def mix(h: int, v: int) -> int:
    return (h * 1000003 + v) % P61


def item_uses(it: Dict[str, Any], lang: str, names: Set[str], members: Set[str]) -> List[str]:
    uses: List[str] = []
    for x in it["idents"]:
        if lang == "c":
            keep = x in names
        elif "." in x:
            q, _n = x.split(".", 1)
            keep = q in members and q not in NOT_QUAL
        else:
            keep = x in names and x not in members
        if keep and x not in uses and x != it["name"]:
            uses.append(x)
    return uses


def fps(items: List[Dict[str, Any]], lang: str, names: Set[str], members: Set[str], mode: int) -> str:
    """fingerprints of the parsed items: mirrors EmitCheck.item_fp"""
    out = []
    for it in items:
        if it["k"] == "import":
            out.append(mix(mix(hs("import"), hs(it["target"])), hs(it["member"])))
            continue
        u = 0
        if mode == 2 or (mode == 1 and it["kind"] == "DkGoType"):
            for x in item_uses(it, lang, names, members):
                u = (u + hs(x)) % P61
        mem = it["members"] if it["kind"] in ("DkStruct", "DkPyClass", "DkGoType") else 0
        out.append(mix(mix(mix(hs(it["kind"]), hs(it["name"])), u), mem))
    return clist(f"{v}%Z" for v in out)


def names_fp(names: Sequence[str]) -> int:
    """mirrors EmitCheck.names_fp"""
    acc = 11
    for x in names:
        acc = mix(acc, hs(x))
    return acc


def py_attrs_fps(items: List[Dict[str, Any]]) -> str:
    """attribute names of every class of a generated Python module, class by class (EmitCheck.py_attrs_fp)"""
    return clist(f"{names_fp(it['attrs'])}%Z" for it in items if it["k"] == "decl" and it["kind"] == "DkPyClass")


def conv_fp(p: str, s_: str, u: str) -> int:
    return mix(mix(hs(p), hs(s_)), hs(u))


# ---- diagnostics -> categories ----------------------------------------------------------------------

def categorize_c(lines: Sequence[str]) -> Set[str]:
    cats: Set[str] = set()
    for l in lines:
        if "No such file or directory" in l:
            cats.add("import")
        elif re.search(r"redefinition of|redeclared as|conflicting types|multiple definition|redefined", l):
            cats.add("unique")
        elif "requested alignment" in l:
            cats.add("align")
        elif re.search(r"undeclared|unknown type name|incomplete type|has no member|implicit declaration|"
                       r"was not declared|does not name a type", l):
            cats.add("dbu")
        elif "differs from C" in l or "static assertion failed" in l:
            cats.add("layout")
        elif re.search(r"missing terminating|stray|expected", l):
            cats.add("syntax")
        else:
            cats.add("other")
    return cats


def categorize_py(err: str) -> str:
    if err.startswith("ModuleNotFoundError"):
        return "import"
    if err.startswith("NameError") or (err.startswith("AttributeError") and "has no attribute" in err):
        return "dbu"
    if err.startswith("SyntaxError"):
        return "syntax"
    return "other"


def categorize_go(errs: Sequence[str]) -> Set[str]:
    cats: Set[str] = set()
    for e in errs:
        if "undefined identifier" in e or "is not declared in this file" in e:
            cats.add("dbu")
        elif "is not used" in e:
            cats.add("unused")
        elif "redeclared" in e:
            cats.add("unique")
        else:
            cats.add("syntax")
    return cats


# ---- the feature stream ------------------------------------------------------------------------------

TYPE_STEMS = ["Pkt", "Drone", "Color", "Mode", "Frame", "Hdr", "Sensor", "Gps", "Link", "Motor", "Cfg", "Stat",
              "Cmd", "Ack", "Node", "Slot", "Rec", "Item", "Blob", "Ping", "Zone", "Unit", "Vec", "Quat", "Cell",
              "Tick", "Wave", "Load", "Gate", "Path"]
ENUM_MEMBERS = ["UNKNOWN", "OK", "FAIL", "RED", "GREEN", "BLUE", "IDLE", "BUSY", "ON", "OFF", "LOW", "HIGH",
                "rgb2hsv", "Mixed_Case", "lower_one", "V2"]
FIELD_WORDS = [
    # keyword-like names the bitproto grammar allows; per language the schema is only used where
    # the word is not reserved (Pre)
    "type", "class", "def", "lambda", "func", "go", "chan", "select", "range", "map", "var", "new", "delete",
    "this", "template", "namespace", "operator", "virtual", "from", "with", "yield", "global", "pass", "raise",
    "None", "interface", "defer", "package", "register", "union", "static", "signed", "extern", "inline",
    "object", "list", "dict", "id", "len", "min", "max", "value", "count", "size", "name", "flags", "index",
    "length", "kind", "state", "x", "y", "z", "a_b", "camelCase", "with_2digits", "f1",
]
PROTO_WORDS = ["telemetry", "common", "shared", "base", "types", "nav", "ctrl", "power", "radio", "core", "misc"]

C_RESERVED = set("""auto break case char const continue default do double else enum extern float for goto if inline
int long register restrict return short signed sizeof static struct switch typedef union unsigned void volatile while
bool true false class new delete this template namespace private public protected virtual friend operator try catch
throw using and or not xor asm export typename mutable explicit bitand bitor compl not_eq or_eq xor_eq and_eq nullptr
constexpr decltype noexcept static_assert thread_local alignas alignof char16_t char32_t wchar_t int8_t int16_t
int32_t int64_t uint8_t uint16_t uint32_t uint64_t size_t NULL""".split())
PY_RESERVED = set("""False None True and as assert async await break class continue def del elif else except finally
for from global if import in is lambda nonlocal not or pass raise return try while with yield _
field json bp dataclass ClassVar Dict List Union IntEnum unique int bool str bytearray property isinstance
getattr range len BYTES_LENGTH encode decode bp_processor bp_set_byte bp_get_byte bp_get_accessor bp_process_int
dict_factory to_dict to_json""".split())
GO_RESERVED_FIELDS = set("""Size String Encode Decode BpProcessor BpGetAccessor BpSetByte BpGetByte BpProcessInt""".split())


def _pascal(w: str) -> str:
    return "".join(p[:1].upper() + p[1:] for p in w.split("_") if p)


def word_reserved_in(w: str) -> Set[str]:
    out = set()
    if w in C_RESERVED:
        out.add("c")
    if w in PY_RESERVED:
        out.add("py")
    if _pascal(w) in GO_RESERVED_FIELDS:
        out.add("go")
    return out


class G:
    """Generates one job: a root file plus the files it imports."""

    def __init__(self, rng, known_class: Optional[str] = None):
        self.rng = rng
        self.kc = known_class
        self.used: Set[str] = set()
        self.files: List[Dict[str, Any]] = []
        # keyword-like field names: words reserved in at most ONE target language per job, so that
        # the other targets stay inside the property's precondition
        self.sacrifice = rng.choice(["", "", "c", "py", "go"])
        self.words = [w for w in FIELD_WORDS + ["size", "string", "encode", "field", "int"]
                      if word_reserved_in(w) <= ({self.sacrifice} if self.sacrifice else set())]

    def stem(self) -> str:
        for _ in range(200):
            s = self.rng.choice(TYPE_STEMS)
            if self.rng.random() < 0.35:
                s += self.rng.choice(["Info", "Data", "Set", "Ex", "Ref"])
            if s.lower() not in self.used:
                self.used.add(s.lower())
                return s
        raise RuntimeError("name pool exhausted")

    def tname(self, allow_digit=True) -> str:
        s = self.stem()
        r = self.rng.random()
        if allow_digit and r < 0.18:
            s += str(self.rng.choice([1, 2, 7, 12, 3]))      # message / type names ending in digits
        return s

    def base_type(self) -> str:
        r = self.rng.random()
        if r < 0.15:
            return "bool"
        if r < 0.3:
            return "byte"
        w = self.rng.choice([1, 3, 7, 8, 9, 13, 16, 17, 24, 31, 32, 33, 48, 63, 64])
        return ("uint" if self.rng.random() < 0.6 else "int") + str(w)

    def gen_file(self, idx: int, nfiles: int, importable: List[int]) -> Dict[str, Any]:
        rng = self.rng
        proto = rng.choice(PROTO_WORDS) + (str(idx) if idx else "")
        while any(f["proto"] == proto for f in self.files):
            proto += "x"
        f: Dict[str, Any] = {"idx": idx, "proto": proto, "base": proto, "imports": [], "opts": [], "defs": [],
                             "types": []}    # types: (kind, ref text as seen inside this file, is_array_alias)
        if idx == 0 and rng.random() < 0.5:
            f["base"] = "file_" + proto            # root: file name differs from proto name (harmless)
        if rng.random() < 0.4:
            f["prefix"] = rng.choice(["Lb", "lib_", "X", "my_pfx_", "Bq"])
            f["opts"].append(f'option c.name_prefix = "{f["prefix"]}"')
        if rng.random() < 0.3:
            f["opts"].append(f"option c.struct_packing_alignment = {rng.choice([0, 1, 2, 4, 8])}")
        if rng.random() < 0.25:
            # py.module_name naming exactly the generated module (or anything for the root)
            f["opts"].append(f'option py.module_name = "{f["base"]}_bp"')
        if rng.random() < 0.2:
            f["opts"].append(f'option go.package_path = "example.com/gen/{proto}"')
        return f

    def type_ref(self, f: Dict[str, Any], chain: List[Dict[str, Any]], want: Sequence[str]) -> Optional[Tuple[str, str]]:
        """(kind, text) of a visible named type: own earlier definitions, nested ones of the enclosing
        messages, top-level ones of imported files (qualified by the member name)."""
        cands: List[Tuple[str, str]] = []
        for k, txt in f["types"]:
            if k in want:
                cands.append((k, txt))
        for m in chain:
            for k, txt in m["inner_types"]:
                if k in want:
                    cands.append((k, txt))
        for member, g in f["imports"]:
            for k, txt in g["types"]:
                if k in want and "." not in txt:
                    cands.append((k, member + "." + txt))
        if not cands:
            return None
        return self.rng.choice(cands)

    def field_type(self, f, chain, depth) -> str:
        rng = self.rng
        r = rng.random()
        if r < 0.35:
            return self.base_type()
        if r < 0.6:
            t = self.type_ref(f, chain, ("enum", "alias", "msg"))
            if t:
                return t[1]
            return self.base_type()
        if r < 0.85:
            er = rng.random()
            if er < 0.5:
                e = self.base_type()
            else:
                t = self.type_ref(f, chain, ("enum", "alias_scalar", "msg", "alias"))
                e = t[1] if t and t[0] != "alias_array" else self.base_type()
            return f"{e}[{rng.choice([1, 2, 3, 5, 8])}]"
        return self.base_type()

    def gen_enum(self, pad: str, out: List[str], empty=False) -> str:
        rng = self.rng
        name = self.tname()
        w = rng.choice([1, 2, 3, 7, 8, 9, 16, 31])
        out.append(f"{pad}enum {name} : uint{w} {{")
        if not empty:
            k = rng.randint(1, min(4, 1 << w))
            pre = re.sub(r"[^A-Za-z0-9]", "", name).upper()
            ms = rng.sample(ENUM_MEMBERS, k)
            for j, mname in enumerate(ms):
                out.append(f"{pad}    {pre}_{mname} = {j}")
        out.append(f"{pad}}}")
        return name

    def gen_msg(self, f, chain, pad: str, out: List[str], depth: int) -> Dict[str, Any]:
        rng = self.rng
        name = self.tname()
        m = {"name": name, "inner_types": []}
        out.append(f"{pad}message {name} {{")
        inner_chain = chain + [m]
        if depth < 2 and rng.random() < 0.45:
            for _ in range(rng.randint(1, 2)):
                if rng.random() < 0.5:
                    en = self.gen_enum(pad + "    ", out)
                    m["inner_types"].append(("enum", en))
                else:
                    sub = self.gen_msg(f, inner_chain, pad + "    ", out, depth + 1)
                    m["inner_types"].append(("msg", sub["name"]))
                    for k, txt in sub["inner_types"]:
                        m["inner_types"].append((k, sub["name"] + "." + txt))
        nf = rng.randint(1, 5)
        nums = rng.sample(range(1, 30), nf)
        words = rng.sample(self.words, nf)
        for num, w in zip(nums, words):
            out.append(f"{pad}    {self.field_type(f, inner_chain, depth)} {w} = {num}")
        out.append(f"{pad}}}")
        m["fields"] = words
        return m

    def gen_defs(self, f: Dict[str, Any]) -> None:
        rng = self.rng
        out: List[str] = []
        f["fieldwords"] = set()
        n = rng.randint(2, 6)
        for _ in range(n):
            r = rng.random()
            if r < 0.15:
                cname = self.stem().upper() + rng.choice(["_MAX", "_SIZE", "", "_2"])
                v = rng.choice(["7", "0x10", "true", "false", '"hello world"', "3 * 4", '"tab\\there"',
                                '"say \\"hi\\""', '"back\\\\slash"', '"two\\nlines\\r"'])
                out.append(f"const {cname} = {v}")
            elif r < 0.35:
                # now and then an enum WITHOUT members (accepted by every target since the fix of
                # empty-enum); it may be used as a field type like any other enum
                en = self.gen_enum("", out, empty=rng.random() < 0.15)
                f["types"].append(("enum", en))
            elif r < 0.55:
                an = self.tname()
                if rng.random() < 0.5:
                    out.append(f"type {an} = {self.base_type()}")
                    f["types"].append(("alias", an))
                    f["types"].append(("alias_scalar", an))
                else:
                    t = self.type_ref(f, [], ("enum", "msg", "alias_scalar"))
                    e = t[1] if t and rng.random() < 0.5 else self.base_type()
                    out.append(f"type {an} = {e}[{rng.choice([2, 3, 4])}]")
                    f["types"].append(("alias", an))
                    f["types"].append(("alias_array", an))
            else:
                m = self.gen_msg(f, [], "", out, 0)
                f["types"].append(("msg", m["name"]))
                for k, txt in m["inner_types"]:
                    f["types"].append((k, m["name"] + "." + txt))
            out.append("")
        f["body"] = out

    def job(self) -> Dict[str, Any]:
        rng = self.rng
        nfiles = rng.choice([1, 1, 2, 2, 3])
        files: List[Dict[str, Any]] = []
        # leaves first so that importers can see their types
        for idx in reversed(range(nfiles)):
            f = self.gen_file(idx, nfiles, [])
            self.files.append(f)
            cands = [g for g in files]
            for g in cands:
                if idx == 0 or rng.random() < 0.6:
                    member = g["proto"] if rng.random() < 0.5 else rng.choice(["lb", "sh", "dep", "im"]) + str(g["idx"])
                    f["imports"].append((member, g))
            self.gen_defs(f)
            files.append(f)
        files.sort(key=lambda f: f["idx"])
        texts = {}
        for f in files:
            lines = [f"proto {f['proto']}", ""]
            for member, g in f["imports"]:
                if member == g["proto"]:
                    lines.append(f'import "{g["base"]}.bitproto"')
                else:
                    lines.append(f'import {member} "{g["base"]}.bitproto"')
            lines.extend(f["opts"])
            lines.append("")
            lines.extend(f["body"])
            texts[f["base"] + ".bitproto"] = "\n".join(lines) + "\n"
        order = [f["base"] + ".bitproto" for f in files]
        msgs = re.findall(r"^\s*message (\w+)", "\n".join(texts.values()), flags=re.M)
        flt = rng.sample(msgs, max(1, len(msgs) // 2)) if msgs else []
        return {"files": texts, "order": order, "filter": flt}


DECL_BUDGET = 90      # definitions + fields + enum members of one schema set (all files)


def decl_count(texts: Dict[str, str]) -> int:
    """number of declarations of a schema set: every non-blank line that is not a bare brace,
    proto / import / option line"""
    n = 0
    for t in texts.values():
        for l in t.split("\n"):
            l = l.strip()
            if l and l not in ("{", "}") and not l.startswith(("proto ", "import ", "option ", "//")):
                n += 1
    return n


def words_of(texts: Dict[str, str]) -> Set[str]:
    """field names used in the schema set (to decide per language whether Pre holds textually)"""
    out: Set[str] = set()
    for t in texts.values():
        for m in re.finditer(r"^\s*[\w.\[\]']+\s+(\w+)\s*=\s*\d+\s*$", t, flags=re.M):
            out.add(m.group(1))
    return out


# ---- evaluation of case files: few coqc at a time, each under a hard memory limit ------------------

COQ_MEM_KB = int(os.environ.get("VERIF_C10_COQ_MEM_KB", "4000000"))   # ulimit -v per coqc: a blow-up fails fast
COQ_PARALLEL = 4


SHARD_MAX_ITEMS = 6          # schema sets per case file
SHARD_MAX_CHARS = 120_000    # total text of a case file (tracks the number of declarations and expected values)


def pack_shards(items, max_items: int = SHARD_MAX_ITEMS, max_chars: int = SHARD_MAX_CHARS):
    """greedy packing: a shard holds at most max_items items and at most max_chars characters of Coq text"""
    shards, cur, size = [], [], 0
    for it in items:
        w = len(it[0]) + sum(len(e) for e in it[1])
        if cur and (len(cur) >= max_items or size + w > max_chars):
            shards.append(cur)
            cur, size = [], 0
        cur.append(it)
        size += w
    if cur:
        shards.append(cur)
    return shards


def run_shards(ck, tag: str, items, header: str, per_shard: int = SHARD_MAX_ITEMS, timeout: int = 300):
    """items: [(defs, exprs, metas)].  Returns [(meta, code)].  At most COQ_PARALLEL coqc processes, each
    wrapped in `ulimit -v`.  A shard on which coqc fails (memory / time limit, or anything else) is split in
    two and retried; only a SINGLE item that still fails is a broken obligation.  Statistics of the run are
    left in ck.coverage["tie"]["coq_shards"]."""
    from concurrent.futures import ThreadPoolExecutor
    import threading
    import vlib
    counter = [0]
    lock = threading.Lock()
    stats = {"shards_run": 0, "shards_split": 0, "peak_rss_kb": 0, "max_seconds": 0.0, "max_chars": 0}

    def write(chunk) -> str:
        with lock:
            k = counter[0]
            counter[0] += 1
        path = os.path.join(ck.dir, f"{tag}_{k}.v")
        body = [header]
        exprs: List[str] = []
        for defs, ex, me in chunk:
            assert len(ex) == len(me)
            body.append(defs)
            exprs.extend(ex)
        body.append("Definition results : list Z := " + clist(exprs) + ".")
        body.append("Eval vm_compute in results.")
        text = "\n".join(body) + "\n"
        with open(path, "w") as f:
            f.write(text)
        with lock:
            stats["max_chars"] = max(stats["max_chars"], len(text))
        return path

    def coqc(path: str):
        import time as _t
        t0 = _t.time()
        cmd = (f"ulimit -v {COQ_MEM_KB}; exec /usr/bin/time -f 'MAXRSS_KB=%M' timeout {timeout} coqc "
               f"-Q {vlib.COQ}/theories BP -Q {vlib.COQ}/gen BPGen {path}")
        rc, out, err = vlib.run(["bash", "-c", cmd], cwd=os.path.dirname(path), timeout=timeout + 30)
        m = re.search(r"MAXRSS_KB=(\d+)", err)
        with lock:
            stats["shards_run"] += 1
            stats["max_seconds"] = max(stats["max_seconds"], round(_t.time() - t0, 1))
            if m:
                stats["peak_rss_kb"] = max(stats["peak_rss_kb"], int(m.group(1)))
        return rc, out, err

    def solve(chunk):
        """[(meta, code)] of one chunk, splitting on failure"""
        metas = [m for _, _, me in chunk for m in me]
        path = write(chunk)
        rc, out, err = coqc(path)
        if rc == 0:
            codes = vlib.parse_zlist(out, path)
            if len(codes) != len(metas):
                raise vlib.Broken(f"case file {os.path.basename(path)}: {len(metas)} cases but {len(codes)} results", out[-1500:])
            return list(zip(metas, codes))
        if len(chunk) == 1:
            raise vlib.Broken(f"coqc failed on {os.path.basename(path)} holding a single schema set (rc={rc}; memory limit "
                              f"{COQ_MEM_KB} kB, time limit {timeout}s)", (out + err)[-3000:])
        with lock:
            stats["shards_split"] += 1
        half = len(chunk) // 2
        return solve(chunk[:half]) + solve(chunk[half:])

    timeout = int(os.environ.get("VERIF_C10_COQ_TIMEOUT", timeout))     # development aid: exercise the split path
    shards = pack_shards(items, max_items=per_shard)
    res = []
    errors = []
    with ThreadPoolExecutor(max_workers=COQ_PARALLEL) as ex:
        futs = [ex.submit(solve, sh) for sh in shards]
        for f in futs:
            try:
                res.extend(f.result())
            except vlib.Broken as b:
                errors.append(b)
    stats["shards_planned"] = len(shards)
    ck.coverage.setdefault("tie", {})["coq_shards"] = stats
    for b in errors:
        ck.broken(b)          # the other shards are still interpreted
    return res
