import os, sys
sys.path.insert(0, os.path.dirname(os.path.abspath(__file__)))
import vlib
from translate import regenerate_all

def main():
    os.makedirs(vlib.BUILD, exist_ok=True)
    os.makedirs(os.path.join(vlib.COQ, "gen"), exist_ok=True)
    try:
        regenerate_all()
    except vlib.Broken as b:
        # the tree under test may have been edited: fall back to the reference translation so
        # that the build exists; each check re-translates and reports on its own
        print("setup: translation failed:", b.what, file=sys.stderr)
        import shutil
        for f in os.listdir(os.path.join(vlib.COQ, "ref")):
            if f.endswith(".v"):
                shutil.copy(os.path.join(vlib.COQ, "ref", f), os.path.join(vlib.COQ, "gen", f))
    vlib.coq_makefile()
    rc, out, err = vlib.run(["make", f"-j{vlib.NCPU}", "-f", "Makefile"], cwd=vlib.COQ, timeout=3000)
    sys.stdout.write(out[-3000:])
    sys.stderr.write(err[-3000:])
    return rc

if __name__ == "__main__":
    sys.exit(main())
