"""translate_lr — tie T0 for the LR module: regenerate coq/gen/GenLR.v from /repo on every run.

(a) THE GRAMMAR AS DATA, read by this module's own reader from /repo's source text:
      parser.py    Parser.parse_string: whether the text's last line is terminated before parsing
                   (`if not s.endswith("\\n"): s += "\\n"`) -> GenLR.appends_final_newline;
                   class Parser: every `p_*` method (except p_error) in source order (ply orders
                   rule functions by first line), its docstring — a literal docstring or
                   `@override_docstring(r_x)` with r_x a string constant of grammars.py —,
                   `precedence`, `tokens` (= Lexer.tokens), the arguments of `yacc.yacc(...)`
      lexer.py     `tokens`, `keywords`, `literals`
    productions = (lhs, rhs symbols, name of the p_ function, precedence of the rule = that of
    its rightmost terminal, as ply assigns it).  CROSS-CHECKED against what ply itself reports
    for `Parser().parser.productions` (name, rhs, function, precedence, numbering).
(b) THE LALR TABLES ply builds from that grammar at run time (`parser.action`, `parser.goto`,
    production names/lengths, defaulted states), dumped by tools/run_lr.py --dump in a
    subprocess (PYTHONPATH = /repo/compiler, timeout) and emitted as Coq data.
    ply's table CONSTRUCTION is third-party and is trusted only as far as the Coq validator
    (LR.validate, re-run by vm_compute on every check) does not re-check it.
(c) CERTIFICATES for the validator (untrusted hints, computed here, checked in Coq):
    incoming symbol of every state, known stack suffix (sets of states per depth, in the
    style of Menhir's Validator_safe `past_state`), and a ranking (weight W, rank per
    (state, lookahead)) that bounds the reductions between two shifts.
(d) digests of ply's driver source (parseopt_notrack, set_defaulted_states, parse,
    call_errorfunc) and of the places of parser.py that decide how the driver is used
    (__init__: yacc.yacc arguments; parse_string; p_error): LR.v follows them by hand.
Fail closed: anything not recognised raises vlib.Broken.
"""
from __future__ import annotations

import ast
import json
import os
from typing import Any, Dict, List, Optional, Tuple

import vlib
from translate import find_func, skeleton_digest
from vlib import Broken

RUNNER = os.path.join(os.path.dirname(os.path.abspath(__file__)), "run_lr.py")


def _read(rel: str) -> ast.Module:
    path = os.path.join(vlib.REPO, rel)
    try:
        return ast.parse(open(path).read())
    except (OSError, SyntaxError) as e:
        raise Broken(f"translate_lr: cannot read/parse {rel}", str(e))


def _class(tree: ast.Module, name: str) -> ast.ClassDef:
    for n in tree.body:
        if isinstance(n, ast.ClassDef) and n.name == name:
            return n
    raise Broken(f"translate_lr: class {name} not found")


def _attr(cls: ast.ClassDef, name: str) -> ast.expr:
    found = []
    for n in cls.body:
        if isinstance(n, ast.AnnAssign) and isinstance(n.target, ast.Name) and n.target.id == name and n.value:
            found.append(n.value)
        if isinstance(n, ast.Assign) and any(isinstance(t, ast.Name) and t.id == name for t in n.targets):
            found.append(n.value)
    if len(found) != 1:
        raise Broken(f"translate_lr: expected exactly one class attribute {cls.name}.{name}")
    return found[0]


def _lit(e: ast.expr, what: str) -> Any:
    try:
        return ast.literal_eval(e)
    except Exception as ex:
        raise Broken(f"translate_lr: {what} is not a literal", str(ex))


# --------------------------------------------------------------------------------------
# (a) own reader
# --------------------------------------------------------------------------------------

def lexer_vocabulary() -> Tuple[List[str], str]:
    L = _class(_read("compiler/bitproto/lexer.py"), "Lexer")
    literals = _lit(_attr(L, "literals"), "Lexer.literals")
    keywords = _lit(_attr(L, "keywords"), "Lexer.keywords")
    if not isinstance(literals, str) or not isinstance(keywords, tuple):
        raise Broken("translate_lr: Lexer.literals / keywords have an unexpected type")
    kt = _attr(L, "keywords_tokens")
    if ast.unparse(kt) != "tuple(map(lambda k: k.upper(), keywords))":
        raise Broken("translate_lr: Lexer.keywords_tokens is not tuple(map(upper, keywords))", ast.unparse(kt))
    tk = _attr(L, "tokens")
    if not (isinstance(tk, ast.BinOp) and isinstance(tk.op, ast.Add) and isinstance(tk.right, ast.Name)
            and tk.right.id == "keywords_tokens"):
        raise Broken("translate_lr: Lexer.tokens is not `<tuple literal> + keywords_tokens`", ast.unparse(tk))
    base = _lit(tk.left, "Lexer.tokens (left operand)")
    tokens = list(base) + [k.upper() for k in keywords]
    if len(set(tokens)) != len(tokens) or not all(isinstance(t, str) and t.isidentifier() for t in tokens):
        raise Broken("translate_lr: Lexer.tokens has duplicates / non identifiers", str(tokens))
    return tokens, literals


def parse_doc(doc: str, fname: str) -> List[Tuple[str, List[str]]]:
    """ply.yacc.parse_grammar, re-implemented: `lhs : a b | c` over lines, `|` continuation."""
    out: List[Tuple[str, List[str]]] = []
    last: Optional[str] = None
    for line in doc.splitlines():
        p = line.split()
        if not p:
            continue
        if p[0] == "|":
            if last is None:
                raise Broken(f"translate_lr: {fname}: misplaced '|'", doc)
            lhs, syms = last, p[1:]
        else:
            if len(p) < 2 or p[1] not in (":", "::="):
                raise Broken(f"translate_lr: {fname}: rule line without 'lhs :'", line)
            lhs, syms = p[0], p[2:]
            last = lhs
        # alternatives on one line
        alt: List[str] = []
        alts = [alt]
        for s in syms:
            if s == "|":
                alt = []
                alts.append(alt)
            else:
                alt.append(s)
        for a in alts:
            rhs = []
            for s in a:
                if s == "%prec":
                    raise Broken(f"translate_lr: {fname}: %prec is not supported by the reader", line)
                if s[0] in "'\"":
                    try:
                        c = ast.literal_eval(s)
                    except Exception:
                        raise Broken(f"translate_lr: {fname}: bad literal symbol {s}", line)
                    if not isinstance(c, str) or len(c) != 1:
                        raise Broken(f"translate_lr: {fname}: literal symbol {s} is not one character", line)
                    rhs.append(c)
                else:
                    if not s.replace("-", "_").isidentifier():
                        raise Broken(f"translate_lr: {fname}: unexpected symbol {s!r}", line)
                    rhs.append(s)
            out.append((lhs, rhs))
    if not out:
        raise Broken(f"translate_lr: {fname}: empty grammar docstring")
    return out


def read_grammar() -> Dict[str, Any]:
    gtree = _read("compiler/bitproto/grammars.py")
    rvars: Dict[str, str] = {}
    for n in gtree.body:
        if isinstance(n, ast.Assign) and len(n.targets) == 1 and isinstance(n.targets[0], ast.Name):
            nm = n.targets[0].id
            v = _lit(n.value, f"grammars.{nm}")
            if nm in rvars:
                raise Broken(f"translate_lr: grammars.{nm} assigned twice")
            if isinstance(v, str):
                rvars[nm] = v
    ptree = _read("compiler/bitproto/parser.py")
    if not any(isinstance(n, ast.ImportFrom) and n.module == "bitproto.grammars" and
               any(a.name == "*" for a in n.names) for n in ptree.body):
        raise Broken("translate_lr: parser.py no longer does `from bitproto.grammars import *`")
    P = _class(ptree, "Parser")
    tk = _attr(P, "tokens")
    if ast.unparse(tk) != "Lexer.tokens":
        raise Broken("translate_lr: Parser.tokens is not Lexer.tokens", ast.unparse(tk))
    tokens, literals = lexer_vocabulary()
    prec_rows = _lit(_attr(P, "precedence"), "Parser.precedence")
    prec: Dict[str, Tuple[str, int]] = {}
    for lvl, row in enumerate(prec_rows, 1):
        if not (isinstance(row, tuple) and len(row) >= 2 and row[0] in ("left", "right", "nonassoc")):
            raise Broken("translate_lr: unexpected precedence row", str(row))
        for t in row[1:]:
            if t in prec:
                raise Broken(f"translate_lr: precedence of {t} given twice")
            prec[t] = (row[0], lvl)
    funcs = []
    for n in P.body:
        if isinstance(n, ast.FunctionDef) and n.name.startswith("p_") and n.name != "p_error":
            doc: Optional[str] = None
            rule_var = None
            decs = n.decorator_list
            if len(decs) == 1 and isinstance(decs[0], ast.Call) and isinstance(decs[0].func, ast.Name) \
                    and decs[0].func.id == "override_docstring" and len(decs[0].args) == 1 \
                    and isinstance(decs[0].args[0], ast.Name) and not decs[0].keywords:
                rule_var = decs[0].args[0].id
                if rule_var not in rvars:
                    raise Broken(f"translate_lr: {n.name}: grammars.{rule_var} not found")
                doc = rvars[rule_var]
            elif not decs:
                doc = ast.get_docstring(n, clean=False)
            else:
                raise Broken(f"translate_lr: {n.name}: unexpected decorators", ast.unparse(n)[:200])
            if not doc:
                raise Broken(f"translate_lr: {n.name} has no grammar docstring")
            line = decs[0].lineno if decs else n.lineno     # co_firstlineno (CPython >= 3.8)
            funcs.append((line, n.name, doc))
        elif isinstance(n, (ast.Assign, ast.AnnAssign)):
            tgt = n.targets[0] if isinstance(n, ast.Assign) else n.target
            if isinstance(tgt, ast.Name) and tgt.id.startswith("p_"):
                raise Broken(f"translate_lr: rule function {tgt.id} defined by assignment")
    names = [f[1] for f in funcs]
    if len(set(names)) != len(names):
        raise Broken("translate_lr: a p_ method is defined twice")
    funcs.sort(key=lambda f: (f[0], f[1], f[2]))
    # how the driver is used
    init = find_func(ptree, "__init__", "Parser")
    calls = [c for c in ast.walk(init) if isinstance(c, ast.Call) and ast.unparse(c.func) == "yacc.yacc"]
    if len(calls) != 1:
        raise Broken("translate_lr: Parser.__init__ does not call yacc.yacc exactly once")
    kw = {k.arg: ast.unparse(k.value) for k in calls[0].keywords}
    if calls[0].args or kw != {"module": "self", "start": "'start'", "debug": "False", "write_tables": "False"}:
        raise Broken("translate_lr: unexpected arguments of yacc.yacc", str(kw))
    start = "start"
    prods: List[Dict[str, Any]] = [{"name": "S'", "rhs": [start], "func": None}]
    for line, fname, doc in funcs:
        for lhs, rhs in parse_doc(doc, fname):
            prods.append({"name": lhs, "rhs": rhs, "func": fname})
    nts = []
    for p in prods:
        if p["name"] not in nts:
            nts.append(p["name"])
    terms = ["$end", "error"] + tokens + [c for i, c in enumerate(literals) if c not in literals[:i]]
    if set(terms) & set(nts):
        raise Broken("translate_lr: a symbol is both token and non-terminal", str(set(terms) & set(nts)))
    for p in prods:
        for s in p["rhs"]:
            if s not in terms and s not in nts:
                raise Broken(f"translate_lr: symbol {s!r} in {p['func']} is neither token, literal nor rule")
        # ply: precedence of a rule = that of its rightmost terminal
        pr = ("right", 0)
        for s in reversed(p["rhs"]):
            if s in terms:
                pr = prec.get(s, ("right", 0))
                break
        p["prec"] = list(pr)
    # parse_string: how the text reaches the driver.  Accepted shapes (fail closed otherwise):
    #     with ..: with ..: [if not s.endswith("\n"): s += "\n"]  return self.parser.parse(s)
    ps = find_func(ptree, "parse_string", "Parser")
    body = [b for b in ps.body if not (isinstance(b, ast.Expr) and isinstance(b.value, ast.Constant))]
    while len(body) == 1 and isinstance(body[0], ast.With):
        body = body[0].body
    appends_newline = False
    if len(body) == 2 and isinstance(body[0], ast.If) and not body[0].orelse \
            and ast.unparse(body[0].test) in ("not s.endswith('\\n')",) \
            and [ast.unparse(x) for x in body[0].body] == ["s += '\\n'"]:
        appends_newline = True
        body = body[1:]
    if not (len(body) == 1 and isinstance(body[0], ast.Return)
            and ast.unparse(body[0].value) == "self.parser.parse(s)"):
        raise Broken("translate_lr: Parser.parse_string is not `[terminate the last line] return self.parser.parse(s)`",
                     ast.unparse(ps)[:600])
    skel = {
        "parser.py:Parser.__init__": skeleton_digest(init),
        "parser.py:Parser.parse_string": skeleton_digest(find_func(ptree, "parse_string", "Parser")),
        "parser.py:Parser.p_error": skeleton_digest(find_func(ptree, "p_error", "Parser")),
    }
    return {"prods": prods, "nts": nts, "terms": terms, "prec": prec, "start": start, "skel": skel,
            "tokens": tokens, "literals": literals, "appends_newline": appends_newline}


# --------------------------------------------------------------------------------------
# (b) ply's tables
# --------------------------------------------------------------------------------------

def ply_dump() -> Dict[str, Any]:
    rc, out, err = vlib.run([vlib.PY, RUNNER, "--dump"], timeout=120, env=vlib.IMPL_ENV, cwd=vlib.VERIF)
    if rc != 0:
        raise Broken("translate_lr: ply could not build the parser from /repo's Parser", (out + err)[-3000:])
    try:
        d = json.loads(out)
    except Exception as e:
        raise Broken("translate_lr: unreadable table dump", str(e))
    if not d["bitproto_file"].startswith(vlib.REPO + "/"):
        raise Broken("translate_lr: the dump did not import bitproto from the repository", d["bitproto_file"])
    return d


# --------------------------------------------------------------------------------------
# (c) certificates
# --------------------------------------------------------------------------------------

def certificates(n: int, action, goto, prods, tid, nid) -> Dict[str, Any]:
    """incoming symbol, known stack suffix, ranking.  Hints only: LR.validate checks them."""
    incoming: List[Optional[Tuple[str, int]]] = [None] * n
    preds: List[List[int]] = [[] for _ in range(n)]

    def edge(s, sym, s2):
        if incoming[s2] is None:
            incoming[s2] = sym
        elif incoming[s2] != sym:
            raise Broken(f"translate_lr: state {s2} is entered on two different symbols")
        if s not in preds[s2]:
            preds[s2].append(s)
    for s in range(n):
        for t, a in action[s]:
            if a > 0:
                edge(s, ("T", tid[t]), a)
        for nt, g in goto[s]:
            edge(s, ("N", nid[nt]), g)
    maxlen = max(len(p["rhs"]) for p in prods)
    levels: List[List[List[int]]] = [[] for _ in range(n)]       # levels[s][i-1] = states at depth i
    prev = [[s] for s in range(n)]                               # depth 0
    alive = [True] * n
    for d in range(1, maxlen + 1):
        cur: List[Optional[List[int]]] = [None] * n
        for s in range(n):
            if not alive[s] or not preds[s]:
                alive[s] = False
                continue
            acc: List[int] = []
            ok = True
            for q in preds[s]:
                pq = prev[q] if d == 1 else (levels[q][d - 2] if len(levels[q]) >= d - 1 and d >= 2 else None)
                if pq is None:
                    ok = False
                    break
                for x in pq:
                    if x not in acc:
                        acc.append(x)
            if ok:
                cur[s] = sorted(acc)
            else:
                alive[s] = False
        for s in range(n):
            if cur[s] is not None:
                levels[s].append(cur[s])
    # ranking: potential  rank(top, lookahead) + W * height  strictly decreases at every reduction.
    # constraint per reduction in s on t by A -> alpha (k = |alpha|), for every q possible at depth k:
    #     rank(goto q A, t) + W + 1 <= rank(s, t) + k * W
    W = 1
    red: Dict[int, Dict[Optional[int], int]] = {}     # state -> lookahead id (None = any) -> production
    for s in range(n):
        row = action[s]
        if len(row) == 1 and row[0][1] < 0:
            red[s] = {None: -row[0][1]}
        else:
            red[s] = {tid[t]: -a for t, a in row if a < 0}
    nterm = len(tid)
    gmap = [{nid[nt]: g for nt, g in goto[s]} for s in range(n)]

    def lvl(s, k):
        return [s] if k == 0 else (levels[s][k - 1] if len(levels[s]) >= k else None)

    ranks: List[List[int]] = []      # per lookahead column 0..nterm (nterm = any unknown token)
    for t in list(range(nterm + 1)):
        r = [0] * n
        for it in range(4 * n + 10):
            changed = False
            for s in range(n):
                p = red[s].get(None, red[s].get(t))
                if p is None:
                    continue
                k = len(prods[p]["rhs"])
                qs = lvl(s, k)
                if qs is None:
                    raise Broken(f"translate_lr: no known stack suffix of depth {k} for state {s}")
                need = 0
                for q in qs:
                    s2 = gmap[q].get(nid[prods[p]["name"]])
                    if s2 is None:
                        raise Broken(f"translate_lr: goto missing for state {q} on {prods[p]['name']}")
                    need = max(need, r[s2] + W + 1 - k * W)
                if need > r[s]:
                    r[s] = need
                    changed = True
            if not changed:
                break
        else:
            raise Broken("translate_lr: no ranking exists: the tables admit an unbounded run of reductions "
                         f"without a shift (lookahead column {t})")
        ranks.append(r)
    return {"incoming": incoming, "levels": levels, "W": W, "ranks": ranks}


# --------------------------------------------------------------------------------------
# emission
# --------------------------------------------------------------------------------------

def cstr(s: str) -> str:
    return '"' + s.replace('"', '""') + '"'


def nlist(xs) -> str:
    return "[" + "; ".join(str(x) for x in xs) + "]"


def gen_lr() -> Tuple[str, Dict[str, str]]:
    G = read_grammar()
    D = ply_dump()
    prods, nts, terms = G["prods"], G["nts"], G["terms"]
    # ---- cross-check own reader vs ply ----
    pp = D["productions"]
    if len(pp) != len(prods):
        raise Broken(f"translate_lr: own reader finds {len(prods)} productions, ply reports {len(pp)}")
    for i, (a, b) in enumerate(zip(prods, pp)):
        if (a["name"], a["rhs"], a["func"], a["prec"]) != (b["name"], b["rhs"], b["func"], b["prec"]) \
                or b["len"] != len(a["rhs"]):
            raise Broken(f"translate_lr: production {i} differs between the docstring reader and ply",
                         f"{a} / {b}")
    if D["tokens"] != G["tokens"] or D["literals"] != G["literals"]:
        raise Broken("translate_lr: token vocabulary differs between lexer.py source and run time")
    if [list(r) for r in D["precedence"]] != [list(r) for r in
                                              _lit(_attr(_class(_read("compiler/bitproto/parser.py"), "Parser"),
                                                         "precedence"), "precedence")]:
        raise Broken("translate_lr: precedence differs between source and run time")
    tid = {t: i for i, t in enumerate(terms)}
    nid = {x: i for i, x in enumerate(nts)}
    n = len(D["action"])
    if sorted(int(s) for s in D["action"]) != list(range(n)) or set(D["goto"]) - set(D["action"]):
        raise Broken("translate_lr: states of ply's tables are not 0..n-1")
    action = [D["action"][str(s)] for s in range(n)]
    goto = [D["goto"].get(str(s), []) for s in range(n)]
    for s in range(n):
        for t, a in action[s]:
            if t not in tid or not isinstance(a, int) or a >= n or -a >= len(prods):
                raise Broken(f"translate_lr: action[{s}][{t}] = {a} out of range / unknown terminal")
        for x, g in goto[s]:
            if x not in nid or not (0 < g < n):
                raise Broken(f"translate_lr: goto[{s}][{x}] = {g} out of range / unknown non-terminal")
    # ply's defaulted states, recomputed (LR.defaulted does the same in Coq)
    mine = {str(s): action[s][0][1] for s in range(n) if len(action[s]) == 1 and action[s][0][1] < 0}
    if mine != D["defaulted"]:
        raise Broken("translate_lr: defaulted states differ from ply's set_defaulted_states")
    C = certificates(n, action, goto, prods, tid, nid)

    def sym(s: str) -> str:
        return f"T {tid[s]}" if s in tid else f"NT {nid[s]}"

    def act(a: int) -> str:
        return f"Shift {a}" if a > 0 else ("AcceptA" if a == 0 else f"Reduce {-a}")

    out: List[str] = [
        "(* GENERATED by tools/translate_lr.py from compiler/bitproto/{parser,grammars,lexer}.py and the",
        "   LALR tables ply " + D["ply_version"] + " builds from them at run time — do not edit *)",
        "From Coq Require Import List String.",
        "From BP Require Import LR.",
        "Import ListNotations.",
        "Open Scope nat_scope.",
        "",
        "(* terminals: 0 = $end, 1 = error, then Lexer.tokens, then the characters of Lexer.literals *)",
        "Definition term_names : list string := [" + "; ".join(cstr(t) for t in terms) + "]%string.",
        "Definition nonterm_names : list string := [" + "; ".join(cstr(t) for t in nts) + "]%string.",
        f"Definition n_terms : nat := {len(terms)}.",
        f"Definition n_states : nat := {n}.",
        f"Definition start_symbol : nat := {nid[G['start']]}.",
        "(* Parser.parse_string terminates the last line of the text with a newline before parsing *)",
        f"Definition appends_final_newline : bool := {'true' if G['appends_newline'] else 'false'}.",
        "",
        "(* production number -> (lhs, rhs); 0 is S' -> start *)",
        "Definition grammar : list (nat * list symbol) := [",
    ]
    out.append(";\n".join(f"  ({nid[p['name']]}, [{'; '.join(sym(s) for s in p['rhs'])}])" for p in prods))
    out.append("].")
    out.append("")
    out.append("(* name of the p_ function of each production *)")
    out.append("Definition prod_funcs : list string := [" +
               "; ".join(cstr(p["func"] or "") for p in prods) + "]%string.")
    out.append("")
    out.append("(* precedence: associativity (0 left, 1 right, 2 nonassoc) and level of each terminal that has one;")
    out.append("   then (assoc, level) of each production as ply assigns it (rightmost terminal) *)")
    AS = {"left": 0, "right": 1, "nonassoc": 2}
    out.append("Definition term_prec : list (nat * (nat * nat)) := [" +
               "; ".join(f"({tid[t]}, ({AS[a]}, {l}))" for t, (a, l) in G["prec"].items()) + "].")
    out.append("Definition prod_prec : list (nat * nat) := [" +
               "; ".join(f"({AS[p['prec'][0]]}, {p['prec'][1]})" for p in prods) + "].")
    out.append("")
    out.append("(* what ply's LRParser holds at run time: productions as (name, len), action, goto *)")
    out.append("Definition prod_rt : list (nat * nat) := [" +
               "; ".join(f"({nid[p['name']]}, {p['len']})" for p in pp) + "].")
    out.append("Definition action_rows : list (list (nat * action)) := [")
    out.append(";\n".join("  [" + "; ".join(f"({tid[t]}, {act(a)})" for t, a in action[s]) + "]" for s in range(n)))
    out.append("].")
    out.append("Definition goto_rows : list (list (nat * nat)) := [")
    out.append(";\n".join("  [" + "; ".join(f"({nid[x]}, {g})" for x, g in goto[s]) + "]" for s in range(n)))
    out.append("].")
    out.append("")
    out.append("Definition tables : tables := mk_tables action_rows goto_rows prod_rt.")
    out.append("")
    out.append("(* certificates (hints; checked by LR.validate / LR.validate_rank) *)")
    out.append("Definition incoming_tab : list (option symbol) := [" + "; ".join(
        "None" if x is None else (f"Some (T {x[1]})" if x[0] == "T" else f"Some (NT {x[1]})")
        for x in C["incoming"]) + "].")
    out.append("Definition past_tab : list (list (list nat)) := [")
    out.append(";\n".join("  [" + "; ".join(nlist(l) for l in C["levels"][s]) + "]" for s in range(n)))
    out.append("].")
    out.append("Definition hints : hints := mk_hints incoming_tab past_tab.")
    out.append(f"Definition rank_weight : nat := {C['W']}.")
    out.append("(* rank_tab: one row per lookahead 0..n_terms (the last = any other token), one entry per state *)")
    out.append("Definition rank_tab : list (list nat) := [")
    out.append(";\n".join("  " + nlist(r) for r in C["ranks"]))
    out.append("].")
    out.append(f"Definition rank_bound : nat := {max(max(r) for r in C['ranks']) + 1}.")
    out.append("")
    skel = dict(G["skel"])
    for k, v in D["ply"].items():
        skel[f"ply/yacc.py:{k}"] = v
    skel["ply:version"] = D["ply_version"]
    # coq/theories/LRFront.v (productions a printed tree reduces by) follows the grammar by hand
    skel["grammar"] = vlib.sha256(json.dumps([[p["name"], p["rhs"], p["func"], p["prec"]] for p in prods]
                                             + [G["tokens"], G["literals"]]))
    return "\n".join(out) + "\n", skel


GENERATORS = {"GenLR.v": gen_lr}


if __name__ == "__main__":
    text, skel = gen_lr()
    print(text[:3000])
    print(len(text), skel.keys())
