"""c14_opmode — C14 on the optimization-mode statement generator: C04's single-field stream
(type x offset x {plain, alias, array, alias-to-array}; T1 on every emitted statement, gcc-built
-O code under the four build configurations) restricted to the single-field space."""
from opstage import opmode_stage


def run_c14_opmode(ck, pairs, make_cases):
    opmode_stage(ck, "C14.v", (0, 100, 6), (0, 4160, 6), "opmode_single_field_stream")
