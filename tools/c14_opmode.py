"""c14_opmode — C14 on the optimization-mode statement generator: C04's single-field stream
(type x offset x {plain, alias, array, alias-to-array}; T1 on every emitted statement, gcc-built
-O code under the four build configurations) restricted to the single-field space."""
import opwire


def run_c14_opmode(ck, pairs, make_cases):
    cov = ck.coverage
    saved = {k: cov.get(k) for k in ("evaluations", "distinct_nontrivial", "rule", "samples", "distribution", "exhaustive")}
    tie = dict(cov.get("tie", {}))
    n_single = 4160 if not ck.quick else 100
    opwire.run_opmode(ck, "C14.v", n_quick=(0, n_single, 6), n_thorough=(0, 4160, 6))
    op = {"evaluations": cov.get("evaluations", 0), "tie": cov.get("tie", {})}
    cov["evaluations"] = (saved["evaluations"] or 0) + (cov.get("evaluations") or 0)
    cov["distinct_nontrivial"] = (saved["distinct_nontrivial"] or 0) + (cov.get("distinct_nontrivial") or 0)
    cov["rule"] = saved["rule"]
    cov["samples"] = (saved["samples"] or []) + (cov.get("samples") or [])[:1]
    cov["distribution"] = saved["distribution"]
    cov["exhaustive"] = saved["exhaustive"]
    tie["opmode_single_field_stream"] = op
    cov["tie"] = tie
