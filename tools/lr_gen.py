"""lr_gen — inputs of the LR stage (syntax level of C08 / C09).

  texts_valid      texts of generated valid schemas (front_gen trees, noisy trivia) — expected ACCEPT
  trees_plain      generated valid trees printed canonically (front_gen.PLAIN) — Coq predicts tokens
                   and reductions (LRFront.tokens_of / reds_of)
  expression trees every operator pair in both groupings, chains, references, deep nests
  mutations        token-level delete / duplicate / swap / replace of an accepted token sequence
  sentences        random sentences DERIVED from the documented grammar (expected ACCEPT: the
                   LALR conflict resolution must not lose documented sentences) + error injection
  catalogue        boundary texts with the outcome the documentation promises
  Earley           an independent recogniser of the documented CFG (reference for "documented")
"""
from __future__ import annotations

import copy
from typing import Any, Dict, List, Optional, Sequence, Tuple

import front_gen as fg

# --------------------------------------------------------------------------------------
# Earley recogniser over the documented grammar (productions as (lhs, [symbols]))
# --------------------------------------------------------------------------------------


class Earley:
    def __init__(self, prods: List[Tuple[str, List[str]]], start: str, terms: Sequence[str]):
        self.prods = prods
        self.start = start
        self.terms = set(terms)
        self.by_lhs: Dict[str, List[int]] = {}
        for i, (l, r) in enumerate(prods):
            self.by_lhs.setdefault(l, []).append(i)
        self.nullable = set()
        ch = True
        while ch:
            ch = False
            for l, r in prods:
                if l not in self.nullable and all(s in self.nullable for s in r):
                    self.nullable.add(l)
                    ch = True

    def accepts(self, toks: Sequence[str]) -> bool:
        n = len(toks)
        sets: List[Dict[Tuple[int, int, int], None]] = [dict() for _ in range(n + 1)]

        def add(k, item):
            if item not in sets[k]:
                sets[k][item] = None
                return True
            return False
        for p in self.by_lhs.get(self.start, []):
            add(0, (p, 0, 0))
        for k in range(n + 1):
            work = list(sets[k])
            i = 0
            while i < len(work):
                p, dot, org = work[i]
                i += 1
                rhs = self.prods[p][1]
                if dot < len(rhs):
                    s = rhs[dot]
                    if s in self.terms:
                        if k < n and toks[k] == s:
                            add(k + 1, (p, dot + 1, org))
                    else:
                        for q in self.by_lhs.get(s, []):
                            if add(k, (q, 0, k)):
                                work.append((q, 0, k))
                        if s in self.nullable:
                            if add(k, (p, dot + 1, org)):
                                work.append((p, dot + 1, org))
                else:
                    lhs = self.prods[p][0]
                    for (p2, d2, o2) in list(sets[org]):
                        r2 = self.prods[p2][1]
                        if d2 < len(r2) and r2[d2] == lhs:
                            if add(k, (p2, d2 + 1, o2)):
                                work.append((p2, d2 + 1, o2))
        return any(self.prods[p][0] == self.start and dot == len(self.prods[p][1]) and org == 0
                   for (p, dot, org) in sets[n])


# --------------------------------------------------------------------------------------
# sentences derived from the grammar
# --------------------------------------------------------------------------------------

def min_depths(prods, terms) -> Dict[str, int]:
    d: Dict[str, int] = {t: 0 for t in terms}
    ch = True
    while ch:
        ch = False
        for l, r in prods:
            if all(s in d for s in r):
                v = 1 + max([d[s] for s in r], default=0)
                if v < d.get(l, 10 ** 9):
                    d[l] = v
                    ch = True
    return d


def derive(rng, prods, by_lhs, md, sym: str, depth: int, out: List[str], budget: List[int]) -> None:
    if sym not in by_lhs:
        out.append(sym)
        return
    alts = by_lhs[sym]
    if depth <= 0 or budget[0] <= 0:
        best = min(1 + max([md[s] for s in prods[a][1]], default=0) for a in alts)
        alts = [a for a in alts if 1 + max([md[s] for s in prods[a][1]], default=0) == best]
    a = rng.choice(alts)
    budget[0] -= 1
    for s in prods[a][1]:
        derive(rng, prods, by_lhs, md, s, depth - 1, out, budget)


def sentence(rng, G, depth: int = 12, budget: int = 60) -> List[str]:
    prods = [(p["name"], p["rhs"]) for p in G["prods"]]
    by_lhs: Dict[str, List[int]] = {}
    for i, (l, r) in enumerate(prods):
        if i:
            by_lhs.setdefault(l, []).append(i)
    md = min_depths(prods[1:], G["terms"])
    out: List[str] = []
    derive(rng, prods, by_lhs, md, G["start"], depth, out, [budget])
    return out


def mutate_types(rng, types: List[str], vocab: List[str]) -> Tuple[List[str], str]:
    t = list(types)
    k = rng.choice(["del", "dup", "swap", "rep", "ins", "trunc"])
    if not t:
        return [rng.choice(vocab)], "ins"
    i = rng.randrange(len(t))
    if k == "del":
        del t[i]
    elif k == "dup":
        t.insert(i, t[i])
    elif k == "swap" and len(t) > 1:
        j = min(len(t) - 1, i + 1)
        t[i], t[j] = t[j], t[i]
    elif k == "rep":
        t[i] = rng.choice(vocab)
    elif k == "ins":
        t.insert(i, rng.choice(vocab))
    else:
        t = t[:i]
    return t, k


# --------------------------------------------------------------------------------------
# trees
# --------------------------------------------------------------------------------------

def expr_trees() -> List[Any]:
    ops = ["add", "sub", "mul", "div"]
    lit = lambda z: ["int", z]   # noqa: E731
    out = []
    for o1 in ops:
        for o2 in ops:
            out.append([o2, [o1, lit(1), lit(2)], lit(3)])       # (1 o1 2) o2 3
            out.append([o1, lit(1), [o2, lit(2), lit(3)]])       # 1 o1 (2 o2 3)
    out.append(["sub", ["sub", ["sub", lit(9), lit(1)], lit(2)], lit(3)])
    out.append(["div", ["div", lit(64), lit(4)], ["div", lit(4), lit(2)]])
    out.append(["add", ["ref", ["K"]], ["mul", ["ref", ["K"]], lit(2)]])
    out.append(["ref", ["K"]])
    out.append(lit(7))
    deep = lit(1)
    for i in range(12):
        deep = [ops[i % 4], lit(i + 2), deep]
    out.append(deep)
    deep = lit(1)
    for i in range(12):
        deep = [ops[i % 4], deep, lit(i + 2)]
    out.append(deep)
    return out


def expr_file(e) -> List[Any]:
    return [["proto", None, "ex"], ["const", None, "K", ["expr", ["int", 3]]], ["const", None, "V", ["expr", e]]]


def const_ref_files() -> List[List[Any]]:
    """a constant defined as a bare reference to a bool / string / integer constant"""
    out = []
    for v in (["bool", True], ["str", "abc"], ["expr", ["int", 5]]):
        out.append([["proto", None, "cr"], ["const", None, "B", v], ["const", None, "A", ["ref", ["B"]]],
                    ["option", None, "c.name_prefix", ["lit", ["s", "x_"]]]])
    return out


def nest_file(depth: int) -> List[Any]:
    inner: Any = ["msg", None, f"M{depth}", False, [["field", None, ["single", ["bool"]], "type", 1]]]
    for d in range(depth - 1, 0, -1):
        inner = ["msg", None, f"M{d}", d % 2 == 0, [inner, ["field", None, ["single", ["ref", [f"M{d + 1}"]]], "f", 1]]]
    return [["proto", None, "nest"], inner]


def misc_files() -> List[List[Any]]:
    return [
        [],
        [["proto", None, "only"]],
        [["proto", None, "e"], ["enum", None, "E", ["uint", 3], []], ["msg", None, "M", True, []]],
        [["proto", None, "a"], ["alias", None, "T", ["arr", ["uint", 3], ["lit", 4], True]],
         ["alias", None, "U", ["arr", ["ref", ["T"]], ["ref", ["N"]], False]],
         ["const", None, "N", ["expr", ["int", 2]]],
         ["msg", None, "M", False, [["field", None, ["arr", ["ref", ["a", "T"]], ["ref", ["a", "N"]], True], "type", 1],
                                    ["option", None, "max_bytes", ["lit", ["i", 9]]],
                                    ["enum", None, "E", ["uint", 2], [["efield", None, "Z", 0]]],
                                    ["import", None, None, "x.bitproto"], ["import", None, "y", "x.bitproto"],
                                    ["alias", None, "Q", ["single", ["byte"]]], ["const", None, "C", ["bool", False]],
                                    ["proto", None, "inner"]]],
         ["enum", None, "F", ["uint", 8], [["efield", None, "A", 1], ["alias", None, "Q", ["single", ["int", 3]]],
                                           ["const", None, "C", ["str", "s"]], ["proto", None, "p"],
                                           ["import", None, None, "x.bitproto"], ["option", None, "o", ["ref", ["N"]]],
                                           ["enum", None, "G", ["uint", 1], []], ["msg", None, "H", False, []],
                                           ["field", None, ["single", ["bool"]], "b", 1]]]],
    ]


def plain_text(items: List[Any]) -> str:
    import random
    its = copy.deepcopy(items)
    return fg.render({"f": its}, random.Random(0), fg.PLAIN)["f"]


# --------------------------------------------------------------------------------------
# boundary catalogue: (name, text, expectation) — expectation from the language documentation
#   "accept" / "reject" at the SYNTAX level (semantic actions are not run), None = tie only
# --------------------------------------------------------------------------------------

def catalogue() -> List[Tuple[str, str, Optional[str]]]:
    C: List[Tuple[str, str, Optional[str]]] = []
    C.append(("empty file", "", "accept"))
    C.append(("only newlines", "\n\n\n", "accept"))
    C.append(("only comments", "// a\n// b\n", "accept"))
    # regression of the fixed finding comment-at-eof (/repo ca58921, corpus/C08_lr/comment_at_eof.json):
    # Parser.parse_string terminates the last line, so a comment there needs no final newline
    C.append(("comment on the last line without final newline", "proto a\nmessage M {} // tail", "accept"))
    C.append(("comment-only last line without final newline", "proto a\n// tail", "accept"))
    C.append(("comment after the only statement, no final newline", "proto a // c", "accept"))
    C.append(("blanks after the last newline", "proto a\n  \t", "accept"))
    C.append(("no final newline", "proto a", "accept"))
    C.append(("missing proto", "message M {}\n", "accept"))
    stmts = ["proto a", "import \"x.bitproto\"", "import y \"x.bitproto\"", "option max_bytes = 3", "type T = uint3",
             "type A = bool[3]'", "const K = 1", "const S = \"s\"", "const B = true", "const R = K", "typedef byte Old"]
    C.append(("semicolon after every statement", "".join(s + ";\n" for s in stmts)
              + "enum E : uint3 {\nA = 0;\nB = 1;\n}\nmessage M' {\nT t = 1;\noption max_bytes = 4;\nuint3 type = 2;\n}\n", "accept"))
    C.append(("no semicolon anywhere", "".join(s + "\n" for s in stmts)
              + "enum E : uint3 {\nA = 0\nB = 1\n}\nmessage M' {\nT t = 1\noption max_bytes = 4\nuint3 type = 2\n}\n", "accept"))
    C.append(("statements on one line with semicolons", "proto a; const K = 1; type T = uint3; message M { T t = 1; uint3 u = 2 }", "accept"))
    C.append(("statements on one line without separators", "proto a const K = 1 type T = uint3 message M { T t = 1 uint3 u = 2 }", None))
    for s in stmts:
        C.append((f"`;` optional after: {s}", f"proto a\n{s};\n{s}\n", "accept"))
        C.append((f"double `;` after: {s}", f"proto a\n{s};;\n", "reject"))
    C.append(("`;` after enum body", "proto a\nenum E : uint3 { A = 0 };\n", "reject"))
    C.append(("`;` after message body", "proto a\nmessage M { };\n", "reject"))
    C.append(("empty enum on one line", "proto a\nenum E : uint3 {}\n", "accept"))
    C.append(("empty message on one line", "proto a\nmessage M {}\n", "accept"))
    C.append(("field named type", "proto a\nmessage M { uint3 type = 1 }\n", "accept"))
    for kw in ("proto", "import", "option", "const", "enum", "message", "typedef"):
        C.append((f"field named {kw}", f"proto a\nmessage M {{ uint3 {kw} = 1 }}\n", "reject"))
    for kw in ("type", "const", "message"):
        C.append((f"message named {kw}", f"proto a\nmessage {kw} {{ }}\n", "reject"))
        C.append((f"enum member named {kw}", f"proto a\nenum E : uint3 {{ {kw} = 1 }}\n", "reject"))
        C.append((f"constant named {kw}", f"proto a\nconst {kw} = 1\n", "reject"))
    C.append(("import inside a message is parsed", "proto a\nmessage M {\nimport \"x.bitproto\"\n}\n", "accept"))
    C.append(("import inside an enum is parsed", "proto a\nenum E : uint3 {\nimport \"x.bitproto\"\n}\n", "accept"))
    C.append(("alias / const / proto inside a message are parsed", "proto a\nmessage M {\ntype T = bool\nconst K = 1\nproto b\n}\n", "accept"))
    C.append(("enum member inside a message", "proto a\nmessage M {\nA = 1\n}\n", "reject"))
    C.append(("field at file level", "proto a\nuint3 f = 1\n", "reject"))
    C.append(("enum member at file level", "proto a\nA = 1\n", "reject"))
    C.append(("enum over a non-uint base", "proto a\nenum E : int3 { }\n", "reject"))
    C.append(("enum over an alias base", "proto a\nenum E : T { }\n", "reject"))
    C.append(("two dimensional array", "proto a\ntype T = uint3[2][2]\n", "reject"))
    C.append(("array capacity expression", "proto a\ntype T = uint3[1+1]\n", "reject"))
    C.append(("array capacity hex", "proto a\ntype T = uint3[0x2]\n", "reject"))
    C.append(("array capacity constant", "proto a\nconst N = 2\ntype T = uint3[N]\n", "accept"))
    C.append(("field number hex", "proto a\nmessage M { bool b = 0x1 }\n", "reject"))
    C.append(("enum value hex", "proto a\nenum E : uint8 { A = 0x1F }\n", "accept"))
    C.append(("negative literal", "proto a\nconst K = -1\n", "reject"))
    C.append(("unary plus", "proto a\nconst K = +1\n", "reject"))
    C.append(("option with dotted name", "proto a\noption c.struct_packing_alignment = 1\n", "accept"))
    C.append(("option value expression", "proto a\noption max_bytes = 1 + 1\n", "reject"))
    C.append(("const value bool in expression", "proto a\nconst K = true + 1\n", "reject"))
    C.append(("parenthesised reference", "proto a\nconst K = 1\nconst L = (K)\n", "accept"))
    C.append(("unbalanced parenthesis", "proto a\nconst K = (1 + 2\n", "reject"))
    C.append(("extensible marker on enum", "proto a\nenum E' : uint3 { }\n", "reject"))
    C.append(("extensible marker on alias of a scalar", "proto a\ntype T = uint3'\n", "reject"))
    C.append(("typedef spelling", "proto a\ntypedef uint3 T\n", "accept"))
    C.append(("dotted type reference", "proto a\nmessage M { x.Y.Z f = 1 }\n", "accept"))
    C.append(("dotted name of a definition", "proto a\nmessage M.N { }\n", "reject"))
    C.append(("proto after definitions, twice", "message M { }\nproto a\nproto b\n", "accept"))
    C.append(("statement spanning lines", "proto a\nconst K =\n1\n", "reject"))
    C.append(("brace on next line", "proto a\nmessage M\n{\n}\n", "reject"))
    C.append(("comment inside message and enum", "proto a\nmessage M { // c\n}\nenum E : uint3 { // c\n}\n", "accept"))
    C.append(("comment between statement and semicolon", "proto a // c\n;\n", "reject"))
    C.append(("backslash literal", "proto a\n\\\n", "reject"))
    C.append(("stray colon", "proto a\n:\n", "reject"))
    depth = 30
    C.append(("nested message depth 30", "proto a\n" + "".join(f"message M{i} {{\n" for i in range(depth)) + "}\n" * depth, "accept"))
    C.append(("nested message depth 30 on one line", "proto a\n" + "".join(f"message M{i} {{ " for i in range(depth)) + "} " * depth, "accept"))
    C.append(("unclosed message", "proto a\nmessage M {\n", "reject"))
    C.append(("extra closing brace", "proto a\nmessage M { } }\n", "reject"))
    ops = {"+": "add", "-": "sub", "*": "mul", "/": "div"}
    for a in ops:
        for b in ops:
            C.append((f"expression 1 {a} 2 {b} 3", f"proto a\nconst K = 1 {a} 2 {b} 3\n", "accept"))
            C.append((f"expression 1 {a} {b} 3", f"proto a\nconst K = 1 {a} {b} 3\n", "reject"))
    return C
