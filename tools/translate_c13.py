"""translate_c13 — tie T0 for property C13: regenerate coq/gen/GenC13.v from /repo.

Translated (data the Coq model computes with):
  parser.py    Parser.precedence; the four binary semantic actions of the calculation
               expression (bound to their operator TOKEN through the grammar docstring of each
               p_ function, operands by position in the rule); the optional division guard
  grammars.py  the constant / calculation-expression sub-grammar (table, checked in Coq)
  lexer.py     escaping_chars; bases of INT/HEX literals; boolean spellings; operator lexemes
  renderer     format_{bool,int,str}_value of c/go/py (templates), format_*_value_type,
               the constant emission templates of renderer_h.py / go / py renderer.py
Recorded as skeletons (hand-modelled control flow, AST digests in coq/ref/skeletons_c13.json):
  t_STRING_LITERAL's loop, the token regexes, p_const / p_option_value / p_constant_reference*,
  _lookup_referenced_member, Formatter.format_value, Constant/Option.reflect_subclass_by_value,
  BlockBindConstant.constant_value.
Fail closed: anything else raises vlib.Broken.
"""
from __future__ import annotations

import ast
import os
import re
from typing import Any, Dict, List, Optional, Tuple

import vlib
from translate import Tr, find_func, skeleton_digest, strip_doc
from vlib import Broken

OPS = ("PLUS", "MINUS", "TIMES", "DIVIDE")

GRAMMAR_RULES = (
    "r_const", "r_const_value", "r_calculation_expression", "r_calculation_expression_plus",
    "r_calculation_expression_minus", "r_calculation_expression_times",
    "r_calculation_expression_divide", "r_calculation_expression_group",
    "r_constant_reference_for_calculation", "r_constant_reference", "r_option", "r_option_value",
    "r_array_capacity", "r_constant_reference_for_array_capacity", "r_boolean_literal",
    "r_integer_literal", "r_string_literal", "r_dotted_identifier",
)


def codes(s: str) -> str:
    """Gallina `list Z` of the UTF-8 bytes of s."""
    return "[" + "; ".join(str(b) for b in s.encode("utf-8")) + "]"


def cstr(s: str) -> str:
    if not re.fullmatch(r"[A-Za-z0-9_.' :|()=;\[\]-]*", s):
        raise Broken(f"translate_c13: unexpected character in symbol {s!r}")
    return '"' + s + '"'


def _read(rel: str) -> Tuple[str, ast.Module]:
    path = os.path.join(vlib.REPO, rel)
    try:
        src = open(path).read()
    except OSError as e:
        raise Broken(f"translate_c13: cannot read {rel}", str(e))
    try:
        return src, ast.parse(src)
    except SyntaxError as e:
        raise Broken(f"translate_c13: {rel} does not parse", str(e))


def _class(tree: ast.Module, name: str, rel: str) -> ast.ClassDef:
    for n in tree.body:
        if isinstance(n, ast.ClassDef) and n.name == name:
            return n
    raise Broken(f"translate_c13: class {name} not found in {rel}")


def _class_attr(cls: ast.ClassDef, name: str) -> ast.expr:
    found = []
    for n in cls.body:
        if isinstance(n, ast.AnnAssign) and isinstance(n.target, ast.Name) and n.target.id == name and n.value:
            found.append(n.value)
        if isinstance(n, ast.Assign) and any(isinstance(t, ast.Name) and t.id == name for t in n.targets):
            found.append(n.value)
    if len(found) != 1:
        raise Broken(f"translate_c13: expected exactly one class attribute {cls.name}.{name}")
    return found[0]


def _method(cls: ast.ClassDef, name: str) -> ast.FunctionDef:
    for n in cls.body:
        if isinstance(n, ast.FunctionDef) and n.name == name:
            return n
    raise Broken(f"translate_c13: method {cls.name}.{name} not found")


def _lit(e: ast.expr, what: str) -> Any:
    try:
        return ast.literal_eval(e)
    except Exception as ex:
        raise Broken(f"translate_c13: {what} is not a literal", str(ex))


# --------------------------------------------------------------------------------------
# grammar
# --------------------------------------------------------------------------------------

def parse_rule(text: str, name: str) -> Tuple[str, List[List[str]]]:
    toks = text.split()
    if len(toks) < 2 or toks[1] != ":":
        raise Broken(f"translate_c13: grammar rule {name} has no 'lhs :'", text)
    lhs = toks[0]
    alts: List[List[str]] = [[]]
    for t in toks[2:]:
        if t == "|":
            alts.append([])
        else:
            alts[-1].append(t)
    return lhs, alts


def grammar_tables() -> Tuple[Dict[str, Tuple[str, List[List[str]]]], Dict[str, str]]:
    _, tree = _read("compiler/bitproto/grammars.py")
    rules: Dict[str, Tuple[str, List[List[str]]]] = {}
    raw: Dict[str, str] = {}
    for n in tree.body:
        if isinstance(n, ast.Assign) and len(n.targets) == 1 and isinstance(n.targets[0], ast.Name) \
                and n.targets[0].id.startswith("r_"):
            v = _lit(n.value, n.targets[0].id)
            if not isinstance(v, str):
                raise Broken(f"translate_c13: grammars.{n.targets[0].id} is not a string")
            if n.targets[0].id in raw:
                raise Broken(f"translate_c13: grammars.{n.targets[0].id} assigned twice")
            raw[n.targets[0].id] = v
    for r in GRAMMAR_RULES:
        if r not in raw:
            raise Broken(f"translate_c13: grammar rule {r} not found")
        rules[r] = parse_rule(raw[r], r)
    # no OTHER rule may produce one of the non-terminals the model covers
    covered = {rules[r][0] for r in GRAMMAR_RULES}
    for r, text in raw.items():
        if r not in GRAMMAR_RULES and parse_rule(text, r)[0] in covered:
            raise Broken(f"translate_c13: grammar rule {r} also produces a covered non-terminal")
    return rules, raw


def doc_rule_of(fn: ast.FunctionDef) -> Optional[str]:
    """name of the r_ variable given to @override_docstring on a p_ function"""
    for d in fn.decorator_list:
        if isinstance(d, ast.Call) and isinstance(d.func, ast.Name) and d.func.id == "override_docstring" \
                and len(d.args) == 1 and isinstance(d.args[0], ast.Name):
            return d.args[0].id
    return None


class _PSub(ast.NodeTransformer):
    """p[k] -> Name pk"""

    def visit_Subscript(self, node: ast.Subscript) -> ast.AST:
        if isinstance(node.value, ast.Name) and node.value.id == "p" and isinstance(node.slice, ast.Constant) \
                and isinstance(node.slice.value, int):
            return ast.copy_location(ast.Name(id=f"p{node.slice.value}", ctx=ast.Load()), node)
        return self.generic_visit(node)


def _is_p0_assign(s: ast.stmt) -> Optional[ast.expr]:
    if isinstance(s, ast.Assign) and len(s.targets) == 1:
        t = s.targets[0]
        if isinstance(t, ast.Subscript) and isinstance(t.value, ast.Name) and t.value.id == "p" \
                and isinstance(t.slice, ast.Constant) and t.slice.value == 0:
            return s.value
    return None


def _passthrough_index(fn: ast.FunctionDef) -> int:
    body = strip_doc(fn)
    if len(body) == 1:
        v = _is_p0_assign(body[0])
        if v is not None and isinstance(v, ast.Subscript) and isinstance(v.value, ast.Name) and v.value.id == "p" \
                and isinstance(v.slice, ast.Constant) and isinstance(v.slice.value, int):
            return v.slice.value
    raise Broken(f"translate_c13: {fn.name} is not the pass-through `p[0] = p[k]`", ast.unparse(fn)[:300])


# --------------------------------------------------------------------------------------
# the generator
# --------------------------------------------------------------------------------------

def gen_c13() -> Tuple[str, Dict[str, str]]:
    skel: Dict[str, str] = {}
    out: List[str] = [
        "(* GENERATED by tools/translate_c13.py from compiler/bitproto/{parser,grammars,lexer}.py and",
        "   renderer/impls/{c,go,py} — do not edit *)",
        "From Coq Require Import ZArith List String.",
        "Import ListNotations.",
        "Open Scope Z_scope.",
        "",
    ]

    # ---- parser.py ------------------------------------------------------------------
    rel = "compiler/bitproto/parser.py"
    _, ptree = _read(rel)
    P = _class(ptree, "Parser", rel)
    prec = _lit(_class_attr(P, "precedence"), "Parser.precedence")
    if not isinstance(prec, tuple) or not prec:
        raise Broken("translate_c13: Parser.precedence is not a non-empty tuple")
    seen_ops: List[str] = []
    rows = []
    for row in prec:
        if not (isinstance(row, tuple) and len(row) >= 2 and all(isinstance(x, str) for x in row)):
            raise Broken("translate_c13: Parser.precedence row is not a tuple of strings", repr(row))
        if row[0] not in ("left", "right"):
            raise Broken(f"translate_c13: associativity {row[0]!r} is not modelled (left/right only)")
        for o in row[1:]:
            if o not in OPS or o in seen_ops:
                raise Broken(f"translate_c13: unexpected or repeated token {o!r} in Parser.precedence")
            seen_ops.append(o)
        rows.append(f"({cstr(row[0])}, [{'; '.join(cstr(o) for o in row[1:])}])")
    if set(seen_ops) != set(OPS):
        raise Broken("translate_c13: Parser.precedence does not list all of PLUS MINUS TIMES DIVIDE "
                     "(an operator without precedence makes ply fall back to shift on conflict: not modelled)",
                     repr(prec))
    out.append("(* Parser.precedence, lowest level first (ply/yacc convention) *)")
    out.append(f"Definition precedence : list (string * list string) := [{'; '.join(rows)}]%string.")
    out.append("")

    rules, raw = grammar_tables()
    out.append("(* grammars.py: rules of the constant / calculation-expression sub-grammar *)")
    out.append("Definition grammar : list (string * list (list string)) := [")
    glines = []
    for r in GRAMMAR_RULES:
        lhs, alts = rules[r]
        glines.append("  (" + cstr(lhs) + ", [" + "; ".join("[" + "; ".join(cstr(s) for s in a) + "]" for a in alts) + "])")
    out.append(";\n".join(glines))
    out.append("]%string.")
    out.append("")

    # p_ functions by the grammar rule they are bound to
    by_rule: Dict[str, ast.FunctionDef] = {}
    for n in P.body:
        if isinstance(n, ast.FunctionDef) and n.name.startswith("p_"):
            r = doc_rule_of(n)
            if r in GRAMMAR_RULES:
                if r in by_rule:
                    raise Broken(f"translate_c13: two p_ functions are bound to {r}")
                by_rule[r] = n
    for r in GRAMMAR_RULES:
        if r not in by_rule:
            raise Broken(f"translate_c13: no p_ function is bound to grammar rule {r}")

    # binary actions
    acts: Dict[str, str] = {}
    divisors: Dict[str, List[str]] = {}
    div_guard = False
    for r in ("r_calculation_expression_plus", "r_calculation_expression_minus",
              "r_calculation_expression_times", "r_calculation_expression_divide"):
        lhs, alts = rules[r]
        if len(alts) != 1 or len(alts[0]) != 3 or alts[0][0] != "calculation_expression" \
                or alts[0][2] != "calculation_expression" or alts[0][1] not in OPS:
            raise Broken(f"translate_c13: {r} is not `calculation_expression OP calculation_expression`", raw[r])
        tok = alts[0][1]
        if tok in acts:
            raise Broken(f"translate_c13: two rules use operator token {tok}")
        fn = by_rule[r]
        body = strip_doc(fn)
        guard = False
        if len(body) == 2 and isinstance(body[0], ast.If):
            # accepted fix shape:  if p[3] == 0: raise CalculationExpressionError(...)
            g = body[0]
            if (ast.unparse(g.test) == "p[3] == 0" and not g.orelse and len(g.body) == 1
                    and isinstance(g.body[0], ast.Raise) and isinstance(g.body[0].exc, ast.Call)
                    and isinstance(g.body[0].exc.func, ast.Name)
                    and g.body[0].exc.func.id == "CalculationExpressionError"):
                guard = True
                body = body[1:]
        if len(body) != 1 or _is_p0_assign(body[0]) is None:
            raise Broken(f"translate_c13: {fn.name} is not a single `p[0] = <expr>`", ast.unparse(fn)[:400])
        e = _PSub().visit(ast.parse(ast.unparse(_is_p0_assign(body[0])), mode="eval").body)
        for sub in ast.walk(e):
            if isinstance(sub, ast.BinOp) and isinstance(sub.op, ast.Div):
                raise Broken(f"translate_c13: {fn.name} uses true division `/` (float arithmetic is not modelled)",
                             ast.unparse(fn)[:400])
            if isinstance(sub, ast.Name) and sub.id not in ("p1", "p3", "int"):
                raise Broken(f"translate_c13: {fn.name} refers to {sub.id}", ast.unparse(fn)[:400])
        tr = Tr(fn.name)
        acts[tok] = tr.z(e, {"p1": "a", "p3": "b"})
        # every divisor expression: Python raises ZeroDivisionError when one of them is 0
        divisors[tok] = [tr.z(sub.right, {"p1": "a", "p3": "b"}) for sub in ast.walk(e)
                         if isinstance(sub, ast.BinOp) and isinstance(sub.op, (ast.FloorDiv, ast.Mod))]
        if guard:
            if divisors[tok] != ["b"]:
                raise Broken(f"translate_c13: zero guard on {fn.name}, whose only divisor is not p[3]")
            div_guard = True
    if set(acts) != set(OPS):
        raise Broken("translate_c13: the four operator tokens are not each bound to one action", str(sorted(acts)))
    out.append("(* semantic actions of `calculation_expression OP calculation_expression` (a = p[1], b = p[3]); Python")
    out.append("   `//` is Z.div (floor) for a non-zero divisor; act_X_divisors lists the divisor expressions (a zero")
    out.append("   divisor is ZeroDivisionError in Python, see ConstExpr.apply_op); divide_guard = the action first")
    out.append("   raises CalculationExpressionError when p[3] == 0 *)")
    for tok in OPS:
        out.append(f"Definition act_{tok} (a b : Z) : Z := {acts[tok]}.")
        out.append(f"Definition act_{tok}_divisors (a b : Z) : list Z := [{'; '.join(divisors[tok])}].")
    out.append(f"Definition divide_guard : bool := {'true' if div_guard else 'false'}.")
    out.append("")

    # pass-through actions: which p[k] they forward
    pt = {}
    for r in ("r_const_value", "r_calculation_expression", "r_calculation_expression_group",
              "r_array_capacity", "r_boolean_literal", "r_integer_literal", "r_string_literal"):
        pt[r] = _passthrough_index(by_rule[r])
    out.append("(* pass-through actions `p[0] = p[k]`: (rule, k) *)")
    out.append("Definition passthrough : list (string * Z) := [" +
               "; ".join(f"({cstr(rules[r][0])}, {k})" for r, k in pt.items()) + "]%string.")
    out.append("")
    for r in ("r_const", "r_option", "r_option_value", "r_constant_reference_for_calculation", "r_constant_reference",
              "r_constant_reference_for_array_capacity", "r_dotted_identifier"):
        skel[f"parser.py:{by_rule[r].name}"] = skeleton_digest(by_rule[r])
    skel["parser.py:_lookup_referenced_member"] = skeleton_digest(_method(P, "_lookup_referenced_member"))
    # order of the two p_ functions that compete for `const X = Y` (reduce/reduce, earlier rule wins)
    skel["parser.py:const_value-before-calc-reference"] = str(
        by_rule["r_const_value"].lineno < by_rule["r_constant_reference_for_calculation"].lineno)

    # ---- _ast.py: value classification ----------------------------------------------------
    rel = "compiler/bitproto/_ast.py"
    _, atree = _read(rel)
    for cname in ("Constant", "Option"):
        c = _class(atree, cname, rel)
        skel[f"_ast.py:{cname}.reflect_subclass_by_value"] = skeleton_digest(_method(c, "reflect_subclass_by_value"))
        skel[f"_ast.py:{cname}.from_value"] = skeleton_digest(_method(c, "from_value"))
    skel["_ast.py:Constant.unwrap"] = skeleton_digest(_method(_class(atree, "Constant", rel), "unwrap"))

    # ---- lexer.py ------------------------------------------------------------------------
    rel = "compiler/bitproto/lexer.py"
    _, ltree = _read(rel)
    L = _class(ltree, "Lexer", rel)
    esc = _lit(_class_attr(L, "escaping_chars"), "Lexer.escaping_chars")
    if not isinstance(esc, dict) or not all(isinstance(k, str) and isinstance(v, str) and len(k) == 1 and len(v) == 1
                                            and ord(k) < 128 and ord(v) < 128 for k, v in esc.items()):
        raise Broken("translate_c13: Lexer.escaping_chars is not a dict of single ASCII characters", repr(esc))
    out.append("(* Lexer.escaping_chars: (character after the backslash, character it denotes) *)")
    out.append("Definition escaping_chars : list (Z * Z) := [" +
               "; ".join(f"({ord(k)}, {ord(v)})" for k, v in esc.items()) + "].")
    lexemes = {}
    for tok in OPS:
        rx = _lit(_class_attr(L, f"t_{tok}"), f"Lexer.t_{tok}")
        if not isinstance(rx, str) or not re.fullmatch(r"\\?[-+*/]", rx):
            raise Broken(f"translate_c13: Lexer.t_{tok} is not a single operator character", repr(rx))
        lexemes[tok] = rx[-1]
    if len(set(lexemes.values())) != 4:
        raise Broken("translate_c13: two operator tokens share a lexeme", repr(lexemes))
    out.append("(* operator lexemes t_PLUS .. t_DIVIDE *)")
    out.append("Definition op_lexemes : list (string * Z) := [" +
               "; ".join(f"({cstr(t)}, {ord(c)})" for t, c in lexemes.items()) + "]%string.")
    lits = _lit(_class_attr(L, "literals"), "Lexer.literals")
    if not isinstance(lits, str) or "(" not in lits or ")" not in lits or "=" not in lits or "." not in lits:
        raise Broken("translate_c13: Lexer.literals lacks one of ( ) = .", repr(lits))
    ign = _lit(_class_attr(L, "t_ignore"), "Lexer.t_ignore")
    if not isinstance(ign, str):
        raise Broken("translate_c13: Lexer.t_ignore is not a string")
    out.append(f"Definition ignore_chars : list Z := {codes(ign)}.")

    def token_fn(name: str) -> Tuple[ast.FunctionDef, str]:
        fn = _method(L, name)
        doc = ast.get_docstring(fn, clean=False)
        if doc is None:
            raise Broken(f"translate_c13: {name} has no regex docstring")
        return fn, doc

    def int_action(name: str, regex_expect: str) -> int:
        fn, doc = token_fn(name)
        if doc != regex_expect:
            raise Broken(f"translate_c13: regex of {name} changed", repr(doc))
        body = strip_doc(fn)
        ok = (len(body) == 2 and isinstance(body[1], ast.Return) and ast.unparse(body[1].value) == "t"
              and isinstance(body[0], ast.Assign) and ast.unparse(body[0].targets[0]) == "t.value")
        if ok:
            v = body[0].value
            if isinstance(v, ast.Call) and isinstance(v.func, ast.Name) and v.func.id == "int" and not v.keywords \
                    and len(v.args) in (1, 2) and ast.unparse(v.args[0]) == "t.value":
                if len(v.args) == 1:
                    return 10
                b = v.args[1]
                if isinstance(b, ast.Constant) and isinstance(b.value, int) and 2 <= b.value <= 16:
                    return b.value
        raise Broken(f"translate_c13: {name} is not `t.value = int(t.value[, base]); return t`", ast.unparse(fn)[:300])

    hex_base = int_action("t_HEX_LITERAL", "0x[0-9a-fA-F]+")
    int_base = int_action("t_INT_LITERAL", "[0-9]+")
    out.append("(* int(t.value[, base]) of t_INT_LITERAL / t_HEX_LITERAL *)")
    out.append(f"Definition int_literal_base : Z := {int_base}.")
    out.append(f"Definition hex_literal_base : Z := {hex_base}.")
    # the order HEX before INT matters to ply (functions are tried in definition order)
    skel["lexer.py:HEX-before-INT"] = str(_method(L, "t_HEX_LITERAL").lineno < _method(L, "t_INT_LITERAL").lineno)

    fn, doc = token_fn("t_BOOL_LITERAL")
    m = re.fullmatch(r"\\b\(([a-z]+(?:\|[a-z]+)*)\)\\b", doc)
    if not m:
        raise Broken("translate_c13: regex of t_BOOL_LITERAL changed", repr(doc))
    spellings = m.group(1).split("|")
    body = strip_doc(fn)
    trues = None
    if len(body) == 2 and isinstance(body[0], ast.Assign) and ast.unparse(body[0].targets[0]) == "t.value" \
            and isinstance(body[0].value, ast.Compare) and len(body[0].value.ops) == 1 \
            and isinstance(body[0].value.ops[0], ast.In) and ast.unparse(body[0].value.left) == "t.value":
        tv = _lit(body[0].value.comparators[0], "true spellings")
        if isinstance(tv, (tuple, list)) and all(isinstance(x, str) for x in tv):
            trues = list(tv)
    if trues is None:
        raise Broken("translate_c13: t_BOOL_LITERAL is not `t.value = t.value in (...)`", ast.unparse(fn)[:300])
    out.append("(* t_BOOL_LITERAL: every spelling, and the spellings that mean True *)")
    out.append(f"Definition bool_spellings : list (list Z) := [{'; '.join(codes(s) for s in spellings)}].")
    out.append(f"Definition bool_true_spellings : list (list Z) := [{'; '.join(codes(s) for s in trues)}].")
    out.append("")

    fn, doc = token_fn("t_STRING_LITERAL")
    skel["lexer.py:t_STRING_LITERAL.regex"] = doc
    skel["lexer.py:t_STRING_LITERAL"] = skeleton_digest(fn)
    fn, doc = token_fn("t_IDENTIFIER")
    skel["lexer.py:t_IDENTIFIER.regex"] = doc

    # ---- formatters ------------------------------------------------------------------------
    def template_of(fn: ast.FunctionDef, what: str, may_escape: bool = False) -> Tuple[str, str, bool]:
        """`return "<pre>{0}<suf>".format(value)` or, for strings, `.format(self.escape_str_value(value))`"""
        body = strip_doc(fn)
        if len(body) == 1 and isinstance(body[0], ast.Return):
            v = body[0].value
            if isinstance(v, ast.Call) and isinstance(v.func, ast.Attribute) and v.func.attr == "format" \
                    and isinstance(v.func.value, ast.Constant) and isinstance(v.func.value.value, str) \
                    and len(v.args) == 1 and not v.keywords:
                arg = ast.unparse(v.args[0])
                escaped = may_escape and arg == "self.escape_str_value(value)"
                t = v.func.value.value
                if (arg == "value" or escaped) and t.count("{0}") == 1 \
                        and t.replace("{0}", "").count("{") == 0 and t.replace("{0}", "").count("}") == 0:
                    pre, suf = t.split("{0}")
                    return pre, suf, escaped
        raise Broken(f"translate_c13: {what} is not `return \"...{{0}}...\".format(value)` "
                     f"(or, for strings, `.format(self.escape_str_value(value))`)", ast.unparse(fn)[:300])

    def bool_of(fn: ast.FunctionDef, what: str) -> Tuple[str, str]:
        body = strip_doc(fn)
        if len(body) == 2 and isinstance(body[0], ast.If) and ast.unparse(body[0].test) == "value" \
                and not body[0].orelse and len(body[0].body) == 1 and isinstance(body[0].body[0], ast.Return) \
                and isinstance(body[1], ast.Return):
            a, b = body[0].body[0].value, body[1].value
            if isinstance(a, ast.Constant) and isinstance(a.value, str) and isinstance(b, ast.Constant) \
                    and isinstance(b.value, str):
                return a.value, b.value
        raise Broken(f"translate_c13: {what} is not `if value: return \"T\"; return \"F\"`", ast.unparse(fn)[:300])

    def const_str(fn: ast.FunctionDef, what: str) -> str:
        body = strip_doc(fn)
        if len(body) == 1 and isinstance(body[0], ast.Return) and isinstance(body[0].value, ast.Constant) \
                and isinstance(body[0].value.value, str):
            return body[0].value.value
        raise Broken(f"translate_c13: {what} is not `return \"...\"`", ast.unparse(fn)[:300])

    def emission_template(fn: ast.FunctionDef, what: str) -> List[Tuple[int, str]]:
        """self.push(f"...{self.constant_name}...{self.constant_value}...") -> [(kind, text)]
        kind 0 = literal text, 1 = name, 2 = type, 3 = value"""
        pushes = [n for n in ast.walk(fn) if isinstance(n, ast.Call) and isinstance(n.func, ast.Attribute)
                  and n.func.attr == "push" and ast.unparse(n.func.value) == "self"]
        if len(pushes) != 1 or len(pushes[0].args) != 1 or not isinstance(pushes[0].args[0], ast.JoinedStr):
            raise Broken(f"translate_c13: {what} does not push exactly one f-string", ast.unparse(fn)[:300])
        parts: List[Tuple[int, str]] = []
        for v in pushes[0].args[0].values:
            if isinstance(v, ast.Constant) and isinstance(v.value, str):
                parts.append((0, v.value))
            elif isinstance(v, ast.FormattedValue) and v.conversion == -1 and v.format_spec is None:
                k = {"self.constant_name": 1, "self.constant_value_type": 2, "self.constant_value": 3}.get(
                    ast.unparse(v.value))
                if k is None:
                    raise Broken(f"translate_c13: {what}: unexpected placeholder {ast.unparse(v.value)}")
                parts.append((k, ""))
            else:
                raise Broken(f"translate_c13: {what}: unexpected f-string part")
        if [k for k, _ in parts if k == 3] != [3] or [k for k, _ in parts if k == 1] != [1] or parts[-1][0] != 3:
            raise Broken(f"translate_c13: {what}: the template must contain the name once and end with the value")
        return parts

    lang_files = {
        "c": ("compiler/bitproto/renderer/impls/c/formatter.py", "CFormatter",
              "compiler/bitproto/renderer/impls/c/renderer_h.py", "render_constant_define"),
        "go": ("compiler/bitproto/renderer/impls/go/formatter.py", "GoFormatter",
               "compiler/bitproto/renderer/impls/go/renderer.py", "render"),
        "py": ("compiler/bitproto/renderer/impls/py/formatter.py", "PyFormatter",
               "compiler/bitproto/renderer/impls/py/renderer.py", "render"),
    }
    any_escaped = False
    for lang, (frel, fcls, rrel, rmeth) in lang_files.items():
        _, ftree = _read(frel)
        F = _class(ftree, fcls, frel)
        bt, bf = bool_of(_method(F, "format_bool_value"), f"{fcls}.format_bool_value")
        ipre, isuf, _ = template_of(_method(F, "format_int_value"), f"{fcls}.format_int_value")
        spre, ssuf, sesc = template_of(_method(F, "format_str_value"), f"{fcls}.format_str_value", may_escape=True)
        any_escaped = any_escaped or sesc
        out.append(f"(* {frel} *)")
        out.append(f"Definition {lang}_bool_true : list Z := {codes(bt)}.")
        out.append(f"Definition {lang}_bool_false : list Z := {codes(bf)}.")
        out.append(f"Definition {lang}_int_prefix : list Z := {codes(ipre)}.")
        out.append(f"Definition {lang}_int_suffix : list Z := {codes(isuf)}.")
        out.append(f"Definition {lang}_str_prefix : list Z := {codes(spre)}.")
        out.append(f"Definition {lang}_str_suffix : list Z := {codes(ssuf)}.")
        out.append(f"Definition {lang}_str_escaped : bool := {'true' if sesc else 'false'}.")
        if lang != "c":
            out.append(f"Definition {lang}_int_type : list Z := "
                       f"{codes(const_str(_method(F, 'format_int_value_type'), fcls + '.format_int_value_type'))}.")
            out.append(f"Definition {lang}_str_type : list Z := "
                       f"{codes(const_str(_method(F, 'format_string_value_type'), fcls + '.format_string_value_type'))}.")
            out.append(f"Definition {lang}_bool_type : list Z := "
                       f"{codes(const_str(_method(F, 'format_bool_value_type'), fcls + '.format_bool_value_type'))}.")
        _, rtree = _read(rrel)
        B = _class(rtree, "BlockConstant", rrel)
        parts = emission_template(_method(B, rmeth), f"{rrel}:BlockConstant.{rmeth}")
        out.append(f"(* {rrel}: BlockConstant — (kind, text); kind 0 text, 1 name, 2 type, 3 value *)")
        out.append(f"Definition {lang}_const_template : list (Z * list Z) := [" +
                   "; ".join(f"({k}, {codes(t)})" for k, t in parts) + "].")
        skel[f"{rrel}:BlockConstant.render"] = skeleton_digest(_method(B, "render"))
        out.append("")

    rel = "compiler/bitproto/renderer/formatter.py"
    _, ftree = _read(rel)
    F = _class(ftree, "Formatter", rel)
    out.extend(escape_helper(F, any_escaped, skel))
    skel["formatter.py:Formatter.format_value"] = skeleton_digest(_method(F, "format_value"))
    skel["formatter.py:Formatter.format_constant_type"] = skeleton_digest(_method(F, "format_constant_type"))
    rel = "compiler/bitproto/renderer/block.py"
    _, btree = _read(rel)
    BB = _class(btree, "BlockBindConstant", rel)
    for mname in ("constant_value", "constant_value_type"):
        skel[f"block.py:BlockBindConstant.{mname}"] = skeleton_digest(_method(BB, mname))

    return "\n".join(out) + "\n", skel


def escape_helper(F: ast.ClassDef, used: bool, skel: Dict[str, str]) -> List[str]:
    """Formatter.escape_str_value:
         escapes = {<char>: <replacement>, ...}
         chars = []
         for c in value:
             if c in escapes: chars.append(escapes[c])
             elif <COND over ord(c)>: chars.append("<pre>{0:03o}".format(ord(c)))
             else: chars.append(c)
         return "".join(chars)
    The table, COND and <pre> are translated; the loop shape is checked here (fail closed)."""
    out = ["(* renderer/formatter.py: Formatter.escape_str_value — replacement table, the condition under which",
           "   a character is written as <prefix> + three octal digits, and that prefix *)"]
    if not any(isinstance(n, ast.FunctionDef) and n.name == "escape_str_value" for n in F.body):
        if used:
            raise Broken("translate_c13: format_str_value calls escape_str_value, which Formatter does not define")
        out += ["Definition str_escapes : list (Z * list Z) := [].",
                "Definition str_ctrl (c : Z) : bool := false.",
                "Definition str_ctrl_prefix : list Z := [].", ""]
        return out
    fn = _method(F, "escape_str_value")
    body = strip_doc(fn)
    what = "Formatter.escape_str_value"

    def bad(why: str) -> None:
        raise Broken(f"translate_c13: {what}: {why}", ast.unparse(fn)[:600])

    if [a.arg for a in fn.args.args] != ["self", "value"] or len(body) != 4:
        bad("unexpected signature or statement count")
    s0, s1, s2, s3 = body
    if not (isinstance(s0, ast.Assign) and ast.unparse(s0.targets[0]) == "escapes" and isinstance(s0.value, ast.Dict)):
        bad("first statement is not `escapes = {...}`")
    table = _lit(s0.value, what + " escapes")
    if not all(isinstance(k, str) and len(k) == 1 and ord(k) < 128 and isinstance(v, str) and v and
               all(ord(ch) < 128 for ch in v) for k, v in table.items()):
        bad("escapes is not a dict from single ASCII characters to non-empty ASCII strings")
    tgt = s1.target if isinstance(s1, ast.AnnAssign) else (s1.targets[0] if isinstance(s1, ast.Assign) else None)
    if tgt is None or ast.unparse(tgt) != "chars" or ast.unparse(s1.value) != "[]":
        bad("second statement is not `chars = []`")
    if not (isinstance(s3, ast.Return) and ast.unparse(s3.value) in ("''.join(chars)", '"".join(chars)')):
        bad("last statement is not `return \"\".join(chars)`")
    if not (isinstance(s2, ast.For) and ast.unparse(s2.target) == "c" and ast.unparse(s2.iter) == "value"
            and not s2.orelse and len(s2.body) == 1 and isinstance(s2.body[0], ast.If)):
        bad("third statement is not `for c in value: if ...`")
    i1 = s2.body[0]
    if not (ast.unparse(i1.test) == "c in escapes" and len(i1.body) == 1
            and ast.unparse(i1.body[0]) == "chars.append(escapes[c])"
            and len(i1.orelse) == 1 and isinstance(i1.orelse[0], ast.If)):
        bad("first branch is not `if c in escapes: chars.append(escapes[c])` followed by elif")
    i2 = i1.orelse[0]
    if not (len(i2.orelse) == 1 and ast.unparse(i2.orelse[0]) == "chars.append(c)" and len(i2.body) == 1):
        bad("the else branch is not `chars.append(c)`")
    call = i2.body[0].value if isinstance(i2.body[0], ast.Expr) else None
    ok = (isinstance(call, ast.Call) and ast.unparse(call.func) == "chars.append" and len(call.args) == 1
          and isinstance(call.args[0], ast.Call) and isinstance(call.args[0].func, ast.Attribute)
          and call.args[0].func.attr == "format" and isinstance(call.args[0].func.value, ast.Constant)
          and isinstance(call.args[0].func.value.value, str) and len(call.args[0].args) == 1
          and ast.unparse(call.args[0].args[0]) == "ord(c)")
    if not ok:
        bad("the elif branch is not `chars.append(\"<pre>{0:03o}\".format(ord(c)))`")
    fmt = call.args[0].func.value.value
    if not fmt.endswith("{0:03o}") or "{" in fmt[:-7] or "}" in fmt[:-7]:
        bad(f"format string {fmt!r} is not <prefix>{{0:03o}}")

    class _Ord(ast.NodeTransformer):
        def visit_Call(self, node: ast.Call) -> ast.AST:
            if isinstance(node.func, ast.Name) and node.func.id == "ord" and len(node.args) == 1 \
                    and isinstance(node.args[0], ast.Name) and node.args[0].id == "c":
                return ast.copy_location(ast.Name(id="c", ctx=ast.Load()), node)
            return self.generic_visit(node)

    cond = _Ord().visit(ast.parse(ast.unparse(i2.test), mode="eval").body)
    tr = Tr(what)
    out.append("Definition str_escapes : list (Z * list Z) := [" +
               "; ".join(f"({ord(k)}, {codes(v)})" for k, v in table.items()) + "].")
    out.append(f"Definition str_ctrl (c : Z) : bool := {tr.b(cond, {'c': 'c'})}.")
    out.append(f"Definition str_ctrl_prefix : list Z := {codes(fmt[:-7])}.")
    out.append("")
    return out


GENERATORS = {"GenC13.v": gen_c13}
