"""C05 — forward compatibility across schema evolution (Python runtime executed; C and Go
tied through the translated skip formulas, C additionally executed when the C harness of
C03 is present)."""
from __future__ import annotations

import copy
import json
import os
import random
from typing import Any, Dict, List, Tuple

import pyside
import pywire
import schema_gen as sg
from t1_py import PyT1, T1Error
from vlib import Broken, Check, clist, run_workers

LEVEL = "proof"


def all_nodes(top: sg.T) -> List[sg.T]:
    seen: Dict[int, sg.T] = {}

    def walk(t: sg.T) -> None:
        if id(t) in seen:
            return
        seen[id(t)] = t
        if t.kind in ("alias", "arr"):
            walk(t.t)
        elif t.kind == "msg":
            for _, _, ft in t.fields:
                walk(ft)
    walk(top)
    return list(seen.values())


def evolve(g: sg.Gen, s: sg.Schema, rng) -> Tuple[sg.Gen, sg.Schema, List[str]]:
    """One evolution step on a deep copy: append fields to some extensible messages and/or
    raise the capacity of some extensible arrays (at any depth)."""
    g2, s2 = copy.deepcopy((g, s))
    nodes = all_nodes(s2.top)
    steps: List[str] = []
    cands = [t for t in nodes if t.ext]
    rng.shuffle(cands)
    for t in cands[: rng.randint(1, 3)]:
        if t.kind == "msg":
            mx = max([n for n, _, _ in t.fields] + [0])
            if mx >= 255:
                continue
            for _ in range(rng.randint(1, 2)):
                mx = rng.randint(mx + 1, min(255, mx + 6))
                if rng.random() < 0.7:
                    ft = g2.gen_base()
                else:
                    ft = sg.T("arr", ext=rng.random() < 0.3, cap=rng.randint(1, 4), t=g2.gen_base())
                t.fields.append((mx, g2._fresh("snake"), ft))
                steps.append(f"append field {mx} to message {t.name}")
                if mx >= 255:
                    break
        elif t.kind == "arr":
            add = rng.choice([1, 1, 2, 3, 7, 20])
            t.cap += add
            steps.append(f"array capacity +{add} -> {t.cap}")
    # every message must stay within 65535 bits
    for t in nodes:
        if t.kind == "msg" and t.nbits() > 65535:
            return g, s, []
        if t.kind == "arr" and t.cap > 65535:
            return g, s, []
    s2.texts = sg.render_files(g2, s2)
    return g2, s2, steps


def proj_value(t1: sg.T, v: Any) -> Any:
    k = t1.kind
    if k == "alias":
        return proj_value(t1.t, v)
    if k == "arr":
        return [proj_value(t1.t, x) for x in v[: t1.cap]]
    if k == "msg":
        return {n: proj_value(ft, v[n]) for n, _, ft in t1.fields}
    return v


def run(ck: Check) -> None:
    ck.assumptions.extend(pywire.ASSUME)
    ck.assumptions.append("Go runtime: never executed here; its skip formulas are translated from lib/go/bitproto.go "
                          "and proved equal to the Python ones (props/C05.v, when GenGo is present)")
    ck.coverage["trusted_base"] = ["Coq 8.16.1 kernel + vm_compute", "tools/translate.py", "tools/t1_py.py",
                                   "tools/run_py.py + CPython 3.12", "no axioms (Print Assumptions: closed)"]
    ck.try_prove("C05.v", model_vo=("theories/Eqb.vo", "theories/Evolve.vo"))
    n_chains = ck.n(60, 800)
    chains = []
    for i in range(n_chains):
        rng = random.Random(f"C05:{ck.seed}:{i}")
        params = sg.Params(max_fields=5, max_bits=1500, max_leaves=200)
        g = sg.Gen(rng, params)
        # make extensible nodes frequent
        orig_random = rng.random
        s = g.schema()
        for t in all_nodes(s.top):
            if t.kind in ("msg", "arr") and rng.random() < 0.5:
                t.ext = True
        s.texts = sg.render_files(g, s)
        versions = [(g, s, [])]
        for _ in range(rng.randint(1, 4)):
            g2, s2, steps = evolve(versions[-1][0], versions[-1][1], rng)
            if steps:
                versions.append((g2, s2, steps))
        if len(versions) < 2:
            continue
        newest = versions[-1][1]
        vals = [sg.gen_value(newest.top, rng, m) for m in ("random", "max", "random")][: ck.n(2, 3)]
        chains.append((versions, vals))
    if not getattr(ck, "replay_file", None):
        import boundary_cases
        for schemas, steps, origin in boundary_cases.evolution_chains():
            rng = random.Random(f"C05:{ck.seed}:{origin}")
            versions = [(None, sc, [origin + ": " + st for st in (steps[:k] if k else [])][-1:] if k else [])
                        for k, sc in enumerate(schemas)]
            newest = schemas[-1]
            vals = [sg.gen_value(newest.top, rng, m) for m in ("random", "max")]
            chains.insert(0, (versions, vals))

    # phase 1: encode with the newest version
    jobs = [pyside.make_job(ck, i, vs[-1][1], vals) for i, (vs, vals) in enumerate(chains)]
    res_new = run_workers("run_py.py", jobs, chunk=max(4, len(jobs) // 32))
    # phase 2: decode with every older version
    jobs2 = []
    index = []
    for i, ((versions, vals), r) in enumerate(zip(chains, res_new)):
        if "runs" not in r or any("enc" not in rr for rr in r["runs"]):
            ck.violation("the newest schema version could not be compiled/encoded",
                         {"schema": versions[-1][1].texts, "result": {k: r.get(k) for k in ("compile_error", "import_error", "worker_error")}},
                         found_input=True)
            continue
        encs = [rr["enc"] for rr in r["runs"]]
        for k, (g1, s1, _) in enumerate(versions[:-1]):
            own = [sg.gen_value(s1.top, random.Random(f"C05:{ck.seed}:own:{i}:{k}"), "random")]
            j = pyside.make_job(ck, 100000 + len(jobs2), s1, own, decode_bytes=encs)
            jobs2.append(j)
            index.append((i, k))
    res_old = run_workers("run_py.py", jobs2, chunk=max(4, len(jobs2) // 32))

    sh = pyside.Shards(ck, "c05", per_shard=20)
    n_eval = 0
    distinct = set()
    header = pyside.HEADER + "From BP Require Import Evolve.\n"
    for q, ((i, k), r) in enumerate(zip(index, res_old)):
        versions, vals = chains[i]
        s1 = versions[k][1]
        s2 = versions[-1][1]
        if "decs" not in r:
            err = r.get("compile_error") or r.get("import_error") or r.get("worker_error") or "?"
            ck.violation(f"an older schema version could not be compiled: {err}",
                         {"schema": s1.texts, "error": err}, found_input=True)
            continue
        bl = r["bytes_length"]
        defs = f"Definition t1_{q} : ty := {s1.coq_ty()}.\nDefinition t2_{q} : ty := {s2.coq_ty()}.\n"
        exprs = [f"(if evolvesb (norm t1_{q}) (norm t2_{q}) then 0 else 8)"]
        metas: List[Any] = [(q, "rel", None)]
        try:
            t1 = PyT1(r["generated"])
            p = t1.message_proc(t1.mods[s1.files[0].base + "_bp"], sg.py_type_name(s1, s1.top, 0))
            defs += f"Definition p_{q} : proc := {p}.\n"
            exprs.append(f"(if proc_eqb p_{q} (proc_of (norm t1_{q})) && ({bl} =? nbytes t1_{q}) then 0 else 4)")
            metas.append((q, "t1", None))
            have_p = True
        except T1Error as e:
            ck.broken(Broken(f"tie T1 (emitted Python vs model renderer): {e}", json.dumps(s1.texts)[:1500]))
            have_p = False       # the property itself (impl vs projection) is still evaluated below
        enc_new = [rr["enc"] for rr in res_new[i]["runs"]]
        for vi, (v, d, bs) in enumerate(zip(vals, r["decs"], enc_new)):
            n_eval += 1
            distinct.add((s1.texts[s1.main], s2.texts[s2.main], json.dumps(sg.value_to_json(s2.top, v), sort_keys=True)))
            cv2 = sg.coq_val(s2.top, v)
            if "dec" in d:
                dv = f"(Ok {pyside.val_from_impl(s1.top, d['dec'])})"
            else:
                dv = f"(Raise {pyside.exn_term(d.get('dec_exc', '?'))})"
            bts = pyside.bytes_term(bs)
            # bit0: model != impl; bit1: impl != projection (the property); bit4: impl bytes != Spec.wire t2
            model_term = (f"(py_decode_proc p_{q} {bl} (py_default (norm t1_{q})) {bts})" if have_p
                          else f"(py_decode t1_{q} {bts})")
            exprs.append(f"((if res_val_sim (norm t1_{q}) {model_term} {dv} then 0 else 1) + "
                         f"(if res_val_sim (norm t1_{q}) (Ok (proj (norm t1_{q}) {cv2})) {dv} then 0 else 2) + "
                         f"(if zlist_eqb (wire t2_{q} {cv2}) {bts} then 0 else 16))")
            metas.append((q, "dec", vi))
        sh.add(defs, exprs, metas)
    # phase 3: the C runtime — S1's generated C decoder on the same S2 buffers, re-encoded by
    # S1's C encoder; expected: Spec.wire t1 (proj t1 v2)
    cjobs = []
    for q, ((i, k), r) in enumerate(zip(index, res_old)):
        versions, vals = chains[i]
        s1 = versions[k][1]
        if "decs" not in r:
            continue
        enc_new = [bytes(rr["enc"]).hex() for rr in res_new[i]["runs"]]
        cjobs.append(dict(id=q, dir=os.path.join(ck.dir, f"c{q}"), files=s1.texts, base=s1.files[0].base,
                          top=s1.top.name, top_upper=s1.top.name.upper(), bufs=enc_new))
    cres = run_workers("run_c_fwd.py", cjobs, chunk=max(2, len(cjobs) // 32), timeout=900)
    n_c = 0
    for cj, cr in zip(cjobs, cres):
        q = cj["id"]
        i, k = index[q]
        versions, vals = chains[i]
        s1, s2 = versions[k][1], versions[-1][1]
        if "outs" not in cr:
            err = cr.get("compile_error") or cr.get("gcc_error") or cr.get("run_error") or cr.get("worker_error") or "?"
            ck.violation(f"generated C of an older schema version could not be built/run: {err}",
                         {"schema": s1.texts, "error": err}, found_input=True)
            continue
        defs = f"Definition ct1_{q} : ty := {s1.coq_ty()}.\n"
        exprs, metas = [], []
        for vi, (v, hx) in enumerate(zip(vals, cr["outs"])):
            n_c += 1
            cv2 = sg.coq_val(s2.top, v)
            bts = pyside.bytes_term(list(bytes.fromhex(hx)))
            exprs.append(f"(if zlist_eqb (wire ct1_{q} (proj (norm ct1_{q}) {cv2})) {bts} then 0 else 32)")
            metas.append((q, "cdec", vi))
        sh.add(defs, exprs, metas)
    out = sh.run(header=header)
    counts: Dict[str, int] = {}
    for (q, kind, vi), code in out:
        counts[f"{kind}:{code}"] = counts.get(f"{kind}:{code}", 0) + 1
        if code == 0:
            continue
        i, k = index[q]
        versions, vals = chains[i]
        s1, s2 = versions[k][1], versions[-1][1]
        steps = [st for (_, _, sts) in versions[k + 1:] for st in sts]
        if kind == "cdec":
            v = vals[vi]
            ck.violation("C runtime: the older schema's generated decoder does not recover the projection of the value "
                         "encoded by the newer schema (observed through re-encoding with the older schema's C encoder)",
                         {"s1": sg.schema_to_json(s1), "s2": sg.schema_to_json(s2), "steps": steps,
                          "value": sg.value_to_json(s2.top, v),
                          "expected_value": sg.value_to_json(s1.top, proj_value(s1.top, v))}, found_input=True)
        elif kind == "rel":
            ck.broken(Broken("generator produced a pair outside the model's Evolves relation (harness bug or model too narrow)",
                             json.dumps({"s1": s1.texts, "s2": s2.texts, "steps": steps})[:3000]))
        elif kind == "t1":
            ck.broken(Broken("tie T1: emitted processor tree / accessor tables differ from the model renderer",
                             json.dumps(s1.texts)[:2000]))
        elif code & 2:
            v = vals[vi]
            d = res_old[q]["decs"][vi]
            key = None
            if pywire.has_enum_nonzero_default(s1.top):
                rr = dict(d)
                if "dec" not in d and d.get("dec_exc") is None:
                    rr["read_exc"] = d.get("read_exc")
                if pywire.enum_default_explains(s1.top, proj_value(s1.top, v), rr):
                    key = "enum-default"
            ck.violation("the older schema's decoder does not recover the projection of the value encoded by the newer schema",
                         {"s1": sg.schema_to_json(s1), "s2": sg.schema_to_json(s2), "steps": steps,
                          "value": sg.value_to_json(s2.top, v), "decoded_by_s1": d,
                          "expected": sg.value_to_json(s1.top, proj_value(s1.top, v))},
                         found_input=True, key=key)
        elif code & 1:
            ck.broken(Broken("tie T2: model (PyRt) and implementation disagree on decoding an evolved buffer",
                             json.dumps({"s1": s1.texts, "s2": s2.texts})[:2000]))
        elif code & 16:
            ck.broken(Broken("tie T2: newest-version encode() differs from Spec.wire (see C01)", json.dumps(s2.texts)[:2000]))
    cov = ck.coverage
    cov["evaluations"] = n_eval
    cov["distinct_nontrivial"] = len(distinct)
    cov["rule"] = ("chains S1 -> ... -> Sk (1-4 evolution steps: append fields to extensible messages, raise capacities of "
                   "extensible arrays, at any depth; every version is decoded against the newest) x values of the newest "
                   "version; a case is (S1 text, Sk text, value); all are non-trivial (at least one step was applied)")
    cov["tie"] = {**cov.get("tie", {}), "chains": len(chains), "pairs": len(index), "codes": counts,
                  "c_runtime_decodes": n_c}
    cov["evaluations"] = n_eval + n_c
    if chains:
        versions, vals = chains[0]
        cov["samples"].append({"s1": versions[0][1].texts, "newest": versions[-1][1].texts,
                               "steps": [st for (_, _, sts) in versions[1:] for st in sts],
                               "value": sg.value_to_json(versions[-1][1].top, vals[0])})
    cov["distribution"] = sg.distribution([c[0][-1][1] for c in chains])
