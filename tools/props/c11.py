"""C11 — names resolve to the innermost visible earlier definition (proof + T0/T2 ties)."""
import copy
import json
import os
import random

import front_gen as fg
import front_mut as fm
import frontside as fs
from vlib import Broken

LEVEL = "proof"

NAMES = ["X", "Y", "A", "B"]


def layered(rng):
    """the same few names declared at several depths and in imports, every width different so
    that nbits tells the resolutions apart; fields use random paths over those names (valid or
    not: the model decides)"""
    widths = list(range(1, 60))
    rng.shuffle(widths)
    wi = iter(widths)

    def enum(name):
        return ["enum", None, name, ["uint", next(wi)], [["efield", None, "Z0", 0]]]

    def alias(name):
        return ["alias", None, name, ["single", ["uint", next(wi)]]]

    def random_path():
        n = rng.choice([1, 1, 2, 2, 3])
        pool = NAMES + ["L", "lib", "M"]
        return [rng.choice(pool) for _ in range(n)]

    def msg(name, depth):
        body = []
        names = []
        nums = iter(rng.sample(range(1, 200), 12))
        for _ in range(rng.randint(2, 6)):
            r = rng.random()
            cand = [n for n in NAMES if n not in names]
            if r < 0.3 and cand:
                n = rng.choice(cand)
                names.append(n)
                body.append(enum(n))
            elif r < 0.55 and cand and depth < 3:
                n = rng.choice(cand)
                names.append(n)
                body.append(msg(n, depth + 1))
            else:
                fn = f"f{len(body)}"
                t = ["single", ["ref", random_path()]]
                if rng.random() < 0.2:
                    t = ["arr", ["ref", random_path()], ["lit", rng.randint(1, 3)], False]
                body.append(["field", None, t, fn, next(nums)])
        return ["msg", None, name, False, body]

    lib = [["proto", None, "lib"]]
    for n in rng.sample(NAMES, rng.randint(1, 3)):
        lib.append(rng.choice([enum, alias, lambda x: msg(x, 2)])(n))
    root = [["proto", None, "rootp"]]
    taken = []
    for _ in range(rng.randint(0, 2)):          # declared BEFORE the import: still not visible in lib
        n = rng.choice([x for x in NAMES if x not in taken])
        taken.append(n)
        root.append(rng.choice([enum, alias])(n))
    root.append(["import", None, rng.choice([None, "L"]), "lib.bitproto"])
    for _ in range(rng.randint(2, 5)):
        cand = [n for n in NAMES + ["M"] if n not in taken]
        if not cand:
            break
        n = rng.choice(cand)
        taken.append(n)
        root.append(rng.choice([enum, alias, lambda x: msg(x, 0), lambda x: msg(x, 0)])(n))
    files = {"rootp.bitproto": root, "lib.bitproto": lib}
    # most fields get a path that was VISIBLE when written in document order (declared earlier
    # in this or an enclosing scope, or through the import); shadowing by a nearer declaration
    # of the same name may still redirect it or make it fall through; the rest are random
    def fill(items, visible):
        local = []
        for it in items:
            if it[0] == "field":
                pool = visible + local
                if pool and rng.random() < 0.85:
                    it[2][1] = ["ref", list(rng.choice(pool))]
            elif it[0] in ("enum", "alias"):
                local.append([it[2]])
            elif it[0] == "msg":
                sub = fill(it[4], visible + local)
                local.append([it[2]])
                local.extend([it[2]] + q for q in sub)
        return local
    libq = fill(lib, [])
    imp_item = next(x for x in root if x[0] == "import")
    imp = imp_item[2] or "lib"
    k = root.index(imp_item)
    before = fill(root[:k], [])
    rest = root[k + 1:]
    fill(rest, before + [[imp] + q for q in libq])
    return files


def run(ck):
    ck.assumptions.extend(fs.ASSUME)
    ck.coverage["trusted_base"] = ["Coq 8.16.1 kernel + vm_compute", "tools/translate_front.py",
                                   "tools/front_gen.py printer + ply tokenizer/LALR driver (text <-> tree)",
                                   "tools/run_front.py + CPython 3.12", "no axioms (Print Assumptions: closed)"]
    fs.ensure_model_translation()
    ck.try_prove("C11.v", model_vo=("theories/Front.vo", "theories/Spec.vo"))

    specs = []
    for j in fs.load_corpus("C11"):
        specs.append(dict(files=j["files"], origin="corpus:" + os.path.basename(j["_path"]), expect_rows=j.get("expect_rows"),
                          code=j.get("expect_code"), line=j.get("expect_line"), file=j.get("expect_file")))
    n_corpus = len(specs)
    n_lay = fs.scaled(ck.n(110, 2500))
    for i in range(n_lay):
        rng = random.Random(f"C11:lay:{ck.seed}:{i}")
        specs.append(dict(files=layered(rng), origin=f"layered#{i}"))
    # the head of a dotted path shadowed by a nested message of an enclosing message (and by an
    # import `as` name), the two candidates having different widths
    for i in range(fs.scaled(ck.n(18, 300))):
        rng = random.Random(f"C11:head:{ck.seed}:{i}")
        files, _top, _info = fg.head_shadow(rng, variant="import" if i % 3 == 0 else "message")
        specs.append(dict(files=files, origin=f"head-shadow#{i}", code=0))
    # round 2: the same dotted text reused elsewhere in the file, cross-kind shadowing, a member
    # named like a visible definition (used again after that scope closed), twin short names
    for i in range(fs.scaled(ck.n(32, 480))):
        rng = random.Random(f"C11:scen:{ck.seed}:{i}")
        fam = sorted(fg.SCENARIOS)[i % len(fg.SCENARIOS)]
        files, _top, info = fg.scenario(rng, fam)
        code, node = info["expect"]
        specs.append(dict(files=files, origin=f"scenario#{i}:{fam}/{info['variant']}", code=code, node=node,
                          file=info["file"], rule=f"{fam}/{info['variant']}"))
    n_sh = fs.scaled(ck.n(45, 900))
    for i in range(n_sh):
        rng = random.Random(f"C11:sh:{ck.seed}:{i}")
        params = fg.Params(shadow=0.8, dotted=0.7, max_depth=3, name_pool=["Alpha", "Beta", "Node"], suffix=0.1,
                           n_imports=(1, 2), max_items=6)
        files, _ = fg.gen_valid(rng, params)
        specs.append(dict(files=copy.deepcopy(files), origin=f"shadow#{i}", code=0))
        for which in ("later_type", "inner_not_visible", "undefined_type", "const_as_type", "extend_path",
                      "importer_not_visible"):
            if rng.random() < 0.5:
                info = fm.mutate(files, rng, which=which)
                if info:
                    info["origin"] = f"shadow#{i}:{which}"
                    specs.append(info)

    cases = []
    for i, s in enumerate(specs):
        rng = random.Random(f"C11:print:{ck.seed}:{i}")
        files = s["files"]
        texts = fg.render(files, rng, fg.Trivia() if i % 3 else fg.PLAIN)
        cases.append(fs.Case(files, next(iter(files)), False, s["origin"], expect=s, texts=texts))
    import time
    t0 = time.time()
    results = fs.run_front(ck, cases, "c")
    t1 = time.time()
    codes = fs.compare_model(ck, cases, results, "c11")
    ck.coverage["tie"]["timing_s"] = {"implementation": round(t1 - t0, 1), "coq_evaluation": round(time.time() - t1, 1)}

    n_tie = n_prop = 0
    n_refs = n_dotted = n_shadowed = 0
    accepted = 0
    distinct = set()
    hist = {}
    for i, (c, r, code) in enumerate(zip(cases, results, codes)):
        s = c.expect
        if "obs" not in r:
            ck.broken(Broken(f"tie T2: the worker could not run case {c.origin}", str(r)[:500]))
            continue
        o = r["obs"]
        hist[o["cls"] or "accepted"] = hist.get(o["cls"] or "accepted", 0) + 1
        distinct.add(json.dumps(c.texts, sort_keys=True))
        replay = {"files": c.files, "texts": c.texts, "root": c.root, "origin": c.origin,
                  "observed": {k: o.get(k) for k in ("code", "cls", "file", "line", "msg")}}
        if o["code"] == 0:
            accepted += 1
            lines_by_name = {}
            for q, zs, f in o["rows"]:
                if zs[0] in (2, 3, 4):
                    lines_by_name.setdefault(q.split(".")[-1], set()).add((f, zs[1], q))
            for q, zs, f in o["rows"]:
                if zs[0] == 7 and zs[4] >= 0:
                    n_refs += 1
        if code != 0:
            n_tie += 1
            if n_tie <= 3:
                replay["model"] = fs.model_obs(ck, c, f"c{i}")
            ck.broken(Broken(f"tie T2: Front.check and the real parser disagree on {c.origin} "
                             "(acceptance, error, or the resolved definition / width of some field)",
                             json.dumps(replay)[:3000]))
            # Front.lookup IS the specified rule (C11_innermost, C11_only_earlier, C11_type_used are theorems
            # about it): a schema on which the real parser answers differently is a failing input
            ck.violation(f"the real parser resolves a name differently from the specified rule (Front.lookup) in "
                         f"{c.origin}", replay, found_input=True)
        if s.get("code") is not None:
            exp_line = s["line"] if s.get("line") is not None else (s["node"][1] if s.get("node") is not None else 0)
            exp_file = (s.get("file") or "") if s["code"] != 0 else ""
            if (o["code"], o["file"], o["line"]) != (s["code"], exp_file, exp_line):
                n_prop += 1
                replay["expected"] = {"code": s["code"], "file": exp_file, "line": exp_line, "rule": s.get("rule")}
                ck.violation(f"{s.get('rule', 'valid schema')}: expected kind {s['code']} at {exp_file}:{exp_line}, the "
                             f"compiler reported {o['cls'] or 'acceptance'} at {o['file']}:{o['line']}", replay,
                             found_input=True)
        if s.get("expect_rows"):
            got = {q: (zs, f) for q, zs, f in o.get("rows", [])}
            for q, zs, f in s["expect_rows"]:
                if got.get(q) != (zs, f):
                    n_prop += 1
                    replay["expected_row"] = [q, zs, f]
                    ck.violation(f"{c.origin}: field {q} does not resolve as recorded", replay, found_input=True)

    # how much shadowing the stream really contains (measured on the implementation's answers)
    for c, r in zip(cases, results):
        o = r.get("obs", {})
        if o.get("code") != 0:
            continue
        names = {}
        for q, zs, f in o["rows"]:
            if zs[0] in (2, 3, 4):
                names.setdefault(q.split(".")[-1], []).append(q)
        for it, *_ in (x for its in c.files.values() for x in fg.walk_items(its)):
            if it[0] == "field":
                sty = it[2][1]
                if sty[0] == "ref":
                    if len(sty[1]) > 1:
                        n_dotted += 1
                    if len(names.get(sty[1][-1], [])) > 1:
                        n_shadowed += 1
    cov = ck.coverage
    cov["evaluations"] = len(cases)
    cov["distinct_nontrivial"] = len(distinct)
    cov["rule"] = ("(a) layered schemas: the names X,Y,A,B declared as enum/alias/message at up to 4 depths of the root file and in "
                   "an imported file (own name or `as` name), each with a different width, fields typed by RANDOM dotted paths over "
                   "those names (valid or not); (b) valid shadowing-heavy trees from front_gen (name pool of 3, dotted preference) "
                   "plus use-before-definition / not-visible / undefined / constant-as-type mutants; compared per field: resolved "
                   "definition (file, line) and nbits, and per schema: acceptance, error class, file, line")
    cov["tie"] = {**cov.get("tie", {}), "cases": len(cases), "corpus": n_corpus, "accepted": accepted,
                  "field_references_compared": n_refs, "dotted_references": n_dotted,
                  "references_to_a_name_declared_more_than_once": n_shadowed, "tie_mismatches": n_tie,
                  "expectation_mismatches": n_prop, "by_class": hist}
    cov["distribution"] = {"layered": n_lay, "shadow_valid_and_mutants": len(cases) - n_lay - n_corpus}
    for c, r in list(zip(cases, results))[n_corpus:][:2]:
        if "obs" in r:
            cov["samples"].append({"texts": c.texts, "origin": c.origin,
                                   "observed": {k: r["obs"].get(k) for k in ("code", "cls", "file", "line")},
                                   "rows": r["obs"].get("rows", [])[:12]})
