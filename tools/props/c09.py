"""C09 — Compilation is total: any input text yields success or a parser error.

PARTIAL BY NATURE (no model of ply's regex tokenizer / LALR driver exists here):

  proof     props/C09.v over theories/Total.v + gen/GenC09.v (T0, regenerated from /repo):
            the translated string-escape loop is total on the token's regular language;
            int()/str() conversions, constant arithmetic, the *_item_unsupported dispatch,
            every p[k] of every semantic action, error hooks / diagnostics, option checking,
            renderer partial operations — each total under exactly the stated guard, each
            guard refuted by a witness;
  ties      T2: the real lexer / parser / renderers vs the model on generated string
            literals, integer literals around the 4300-digit limit, constant expressions,
            unsupported items, options, empty enums, byte strings (UTF-8), evaluated in Coq;
  SEARCH    (supports, does not replace, a theorem): the real parse() + lint() + render()
            for c/go/py and the CLI on byte/token mutations of valid schemas, truncations at
            every token boundary, random token sequences, directed damage, import games,
            each under a time limit.  Every crash / hang is a violation unless it matches a
            listed known finding by (exception type, raising function).
"""
from __future__ import annotations

import glob
import json
import os
import random
import threading
import time
from typing import Any, Dict, List, Optional, Tuple

import c09_gen as g
import lexstage
import pyside
from vlib import VERIF, Broken, Check, clist, run_workers

LEVEL = "proof"

HEADER = """From Coq Require Import String Ascii ZArith List Bool.
From BP Require Import Re TotalBase Schema Total.
From BPGen Require Import GenC09.
Import ListNotations.
Open Scope Z_scope.
"""

ASSUME = [
    "PARTIAL: termination and exception-freedom of ply's regex tokenizer and LALR driver on arbitrary bytes are "
    "NOT proved (no model of ply); that part is covered only by the failing-input search",
    "Coq 8.16.1 kernel and its vm_compute (witnesses, finite sweeps over the 256 byte values and the generated "
    "tables, correspondence evaluation)",
    "tools/translate_c09.py (T0) reads lexer.py / parser.py / grammars.py / errors.py / _main.py / options.py / the "
    "formatters correctly; regexes are parsed by CPython's own re._parser under ply's default flags (re.VERBOSE)",
    "CPython semantics of the modelled operations: s[i], d[k], k in d, slicing, //, int(s[,16]) incl. the "
    "sys.get_int_max_str_digits() limit (read from the interpreter), str(int), isinstance dispatch, "
    "open().read() as strict UTF-8 (the harness sets PYTHONUTF8=1), os.path.samefile on a path with NUL",
    "ply.yacc.YaccProduction: p[k] / p.lineno(k) / p.lexpos(k) raise IndexError iff k >= len(p) for k >= 0",
    "characters are modelled as bytes (Coq ascii, code points 0..255); code points above 255 behave like any "
    "other ordinary character in the escape loop",
    "the item -> class-of-p[1] map of Total.item_class is hand-written (tied by T2 on every item kind)",
    "regexes: CPython's sre explores no more configurations on a FLAT regex (ReLinear.is_flat: no nested / ambiguous "
    "quantifier) than the backtracking matcher ReLinear.bt whose step count is proved polynomial; sre itself is not "
    "modelled; search()/sub() restart at every position (one more factor n+1)",
]

EXN = {"IndexError", "KeyError", "ValueError", "ZeroDivisionError", "AttributeError", "TypeError",
       "UnicodeDecodeError", "InternalError"}


# --------------------------------------------------------------------------------------
# classification against known_findings.jsonl (by exception type + raising function)
# --------------------------------------------------------------------------------------

def crash_key(ck: Check, st: Dict[str, Any]) -> Optional[str]:
    """key of the LISTED known finding whose declarative class matches this crash, else None"""
    for kf in ck.known:
        cls = kf.get("class") or {}
        if kf.get("status") != "known" or not cls:
            continue
        if cls.get("exc") != st.get("exc"):
            continue
        site = st.get("site") or "?"
        if not any(site == pat or (pat.endswith("*") and site.startswith(pat[:-1])) for pat in cls.get("sites", [])):
            continue
        if cls.get("via") and cls["via"] not in (st.get("chain") or []):
            continue
        if cls.get("msg") and cls["msg"] not in (st.get("msg") or st.get("trace") or ""):
            continue
        return kf["key"]
    return None


def stage_failures(r: Dict[str, Any]) -> List[Tuple[str, Dict[str, Any]]]:
    out = []
    for name, st in (r.get("stages") or {}).items():
        if st.get("cls") in ("crash", "hang"):
            out.append((name, st))
    return out


def signature(stage: str, st: Dict[str, Any]) -> Tuple[str, str]:
    if st.get("cls") == "hang":
        return ("HANG", stage)
    return (st.get("exc", "?"), st.get("site", "?"))


# --------------------------------------------------------------------------------------
# running inputs
# --------------------------------------------------------------------------------------

def make_jobs(ck: Check, inputs: List[g.Input], limit: float, cli_every: int, tag: str) -> List[Dict[str, Any]]:
    jobs = []
    for i, inp in enumerate(inputs):
        jobs.append(dict(kind="compile", id=i, dir=os.path.join(ck.dir, f"{tag}{i}"), files=inp["files"],
                         main=inp["main"], symlinks=inp.get("symlinks", {}),
                         limit=min(limit, float(inp.get("limit", limit))),
                         cli=bool(inp.get("cli")) or (cli_every > 0 and i % cli_every == 0),
                         cli_check=bool(inp.get("cli_check")), cli_lang=inp.get("cli_lang", "py")))
    return jobs


def run_inputs(ck: Check, inputs: List[g.Input], limit: float, cli_every: int, tag: str) -> List[Dict[str, Any]]:
    jobs = make_jobs(ck, inputs, limit, cli_every, tag)
    res = run_workers("run_c09.py", jobs, chunk=max(4, min(60, len(jobs) // 48 + 1)),
                      timeout=int(limit * 8 + 240), extra_env={"PYTHONUTF8": "1"})
    out = []
    for j, r in zip(jobs, res):
        if "stages" not in r:
            # the worker process itself died or exceeded its own limit on this single input
            r = {"stages": {"worker": {"cls": "hang" if "TIMEOUT" in str(r.get("worker_error")) else "crash",
                                       "exc": "WorkerDied", "site": "?", "msg": str(r.get("worker_error"))[:300]}}}
        out.append(r)
    return out


def still_fails(ck: Check, inp: g.Input, candidates: List[Any], stage: str, sig: Tuple[str, str], limit: float,
                tag: str) -> List[bool]:
    """run several variants of the main file at once; True where the same failure shows"""
    inputs = []
    for c in candidates:
        files = dict(inp["files"])
        files[inp["main"]] = c
        inputs.append({"files": files, "main": inp["main"], "symlinks": inp.get("symlinks", {}),
                       "limit": inp.get("limit", limit),
                       "cli": stage in ("cli", "cli_check"), "cli_check": stage == "cli_check",
                       "cli_lang": inp.get("cli_lang", "py")})
    res = run_inputs(ck, inputs, limit, 0, tag)
    out = []
    for r in res:
        out.append(any(s == stage and signature(s, st) == sig for s, st in stage_failures(r)))
    return out


def shrink(ck: Check, inp: g.Input, stage: str, sig: Tuple[str, str], limit: float,
           max_rounds: int = 40) -> g.Input:
    """delta debugging on lines, then on characters, of the main file (batched ddmin)."""
    main = inp["files"][inp["main"]]
    binary = not isinstance(main, str)
    if binary:          # raw bytes: shrink them as Latin-1 characters and re-encode
        import base64
        main = base64.b64decode(main["b64"]).decode("latin-1")
        inp = dict(inp, files=dict(inp["files"]))

        def enc(t: str):
            return {"b64": base64.b64encode(t.encode("latin-1")).decode()}
    else:
        def enc(t: str):
            return t
    rounds = [0]

    def ddmin(units: List[str]) -> List[str]:
        n = 2
        while len(units) >= 2 and rounds[0] < max_rounds:
            rounds[0] += 1
            size = max(1, len(units) // n)
            chunks = [units[i:i + size] for i in range(0, len(units), size)]
            cands = [c for c in chunks] + [sum(chunks[:i] + chunks[i + 1:], []) for i in range(len(chunks))]
            cands = [c for c in cands if 0 < len(c) < len(units)]
            if not cands:
                break
            oks = still_fails(ck, inp, [enc("".join(c)) for c in cands], stage, sig, limit, f"shr{rounds[0]}_")
            hit = next((c for c, ok in zip(cands, oks) if ok), None)
            if hit is not None:
                units = hit
                n = max(2, n - 1) if len(hit) > size else 2
            elif size == 1:
                break
            else:
                n = min(len(units), n * 2)
        return units

    lines = ddmin(main.splitlines(keepends=True))
    text = "".join(lines)
    if len(text) <= 400:
        text = "".join(ddmin(list(text)))
    files = dict(inp["files"])
    files[inp["main"]] = enc(text)
    used = {inp["main"]} | {n for n in files if n in text}
    files = {n: v for n, v in files.items() if n in used}
    return {**inp, "files": files, "origin": inp.get("origin", "?") + " (shrunk)"}


# --------------------------------------------------------------------------------------
# corpus
# --------------------------------------------------------------------------------------

def load_corpus() -> List[Dict[str, Any]]:
    out = []
    for p in sorted(glob.glob(os.path.join(VERIF, "corpus", "C09", "*.json"))):
        try:
            j = json.load(open(p))
        except Exception:
            continue
        if "files" in j and "main" in j:
            j["_path"] = p
            out.append(j)
    return out


# --------------------------------------------------------------------------------------
# T2 ties
# --------------------------------------------------------------------------------------

def asc(cps: List[int]) -> str:
    return "(ascz " + clist(str(c) for c in cps) + ")"


def impl_term(r: Dict[str, Any], ok_val: Optional[str], ty: str) -> str:
    """the implementation's outcome as a term of type `outcome ty` (ok_val None: the value could not be
    represented, which can never equal a model outcome)"""
    c = r.get("cls")
    if c == "ok" and ok_val is not None:
        return f"(@Ok {ty} {ok_val})"
    if c == "parser_error":
        return f'(@ParserError {ty} "{r.get("error")}"%string)'
    if c == "crash":
        e = r.get("exc")
        return f"(@Crash {ty} {e if e in EXN else 'OtherExn'})"
    return f"(@Crash {ty} OtherExn)"


def hexlit(n: int) -> str:
    return ("(-" + hex(-n) + ")") if n < 0 else hex(n)


def t2_lexer(ck: Check, sh_small: pyside.Shards, sh_big: pyside.Shards, jobs: List[Dict[str, Any]],
             metas: List[Dict[str, Any]]) -> None:
    """jobs for the worker + how each result becomes a Coq case (filled after the run)"""
    rng = random.Random(ck.rng.getrandbits(64))
    for cps in g.string_literal_texts(rng, ck.n(500, 6000)):
        jobs.append({"kind": "lex", "id": len(jobs), "text": "".join(chr(c) for c in cps)})
        metas.append({"t": "str", "cps": cps})
    lim = 4300
    lens = [1, 2, 19, 20, 100, lim - 1, lim, lim + 1, lim + 700]
    for n in lens:
        for lead in (("9", "0") if n < 200 or n == lim else ("9",)):
            digits = (lead * (n - 1) + "7")[:n]
            jobs.append({"kind": "lex", "id": len(jobs), "text": digits + " x"})
            metas.append({"t": "int", "rule": "lex_int_literal", "tok": digits, "big": n > 200})
    for n in [1, 2, 3, lim - 1, lim, lim + 1, lim + 50]:
        for pre, rule in (("uint", "uint_rule"), ("int", "int_rule")):
            for lead in (("0", "1") if n < 200 else ("01"[(n + len(pre)) % 2],)):
                digits = (lead * (n - 1) + rng.choice("1234"))[:n] if n > 1 else rng.choice(["0", "1", "8"])
                if n == 2:
                    digits = rng.choice(["64", "65", "08", "32"])
                jobs.append({"kind": "lex", "id": len(jobs), "text": pre + digits + " x"})
                metas.append({"t": "cap", "rule": rule, "tok": pre + digits, "big": n > 200})
    for n in [1, 2, 16, 17, 200, 5000]:
        hx = "".join(rng.choice("0123456789abcdefABCDEF") for _ in range(n))
        jobs.append({"kind": "lex", "id": len(jobs), "text": "0x" + hx + " x"})
        metas.append({"t": "int", "rule": "lex_hex_literal", "tok": "0x" + hx, "big": n > 200})


def t2_lexer_cases(results: List[Dict[str, Any]], metas: List[Dict[str, Any]], sh_small: pyside.Shards,
                   sh_big: pyside.Shards) -> None:
    for r, m in zip(results, metas):
        if m["t"] == "str":
            ok = None
            if r.get("cls") == "ok" and r.get("type") == "STRING_LITERAL" and "str" in r.get("value", {}):
                v = r["value"]["str"]
                ok = f"({asc(v)}, {r['end']})" if all(c < 256 for c in v) else None
            impl = impl_term(r, ok, "(list ascii * Z)")
            txt = asc(m["cps"])
            # tie: whole rule;  also: what the real lexer accepted is in the generated token language
            lang = "true"
            if r.get("cls") == "ok" and isinstance(r.get("end"), int):
                lang = f"(str_token_ok (firstn {r['end']} {txt}))"
            expr = (f"(code (out_str_eqb (lex_string {txt}) {impl} && {lang}) (is_crash {impl}))")
            sh_small.add("", [expr], [("lex-str", m, r)])
        else:
            tok = asc([ord(c) for c in m["tok"]])
            ok = None
            if r.get("cls") == "ok":
                v = r.get("value", {})
                s = v.get("int") or v.get("cap")
                if s is not None and r.get("end") == len(m["tok"]):
                    ok = f"{s if s.startswith('0x') else int(s)}"
            impl = impl_term(r, ok, "Z")
            expr = f"(code (out_z_eqb ({m['rule']} {tok}) {impl}) (is_crash {impl}))"
            (sh_big if m.get("big") else sh_small).add("", [expr], [("lex-" + m["t"], m, r)])


def t2_exprs(ck: Check, jobs: List[Dict[str, Any]], metas: List[Dict[str, Any]]) -> None:
    rng = random.Random(ck.rng.getrandbits(64))
    for i in range(ck.n(400, 5000)):
        inside = i % 5 == 0          # zero divisors (regression stream of the fixed div-zero finding)
        e = g.gen_root_cexpr(rng, rng.choice([1, 2, 3, 4]), 0.45 if inside else 0.0)
        try:
            txt = e.text()
        except AssertionError:
            continue
        jobs.append({"kind": "expr", "id": len(jobs), "text": txt, "prelude": g.PRELUDE})
        metas.append({"t": "expr", "text": txt, "coq": e.coq()})


def t2_expr_cases(results, metas, sh: pyside.Shards) -> None:
    for r, m in zip(results, metas):
        ok = None
        if r.get("cls") == "ok" and "int" in r.get("value", {}):
            v = int(r["value"]["int"], 16)
            ok = hexlit(v)
        impl = impl_term(r, ok, "Z")
        expr = f"(code (out_z_eqb (ceval env0 {m['coq']}) {impl}) (is_crash {impl}))"
        sh.add("", [expr], [("expr", m, r)])


ITEM_TEXT = {
    "IAlias": "type T = uint3", "IConst": "const C = 1", "IProto": "proto q", "IImport": 'import "b.bitproto"',
    "IOption": "option max_bytes = 3", "IEnum": "enum F : uint2 { Q = 0 }", "IMessage": "message N { uint3 y = 1 }",
    "IField": "uint3 z = 2",
}

OPTION_CASES = [
    ("message", "max_bytes", "3", "OVInt 3"), ("message", "max_bytes", "0", "OVInt 0"),
    ("message", "max_bytes", "true", "OVBool true"), ("message", "max_bytes", '"x"', "OVStr (asc [120]%nat)"),
    ("message", "c.name_prefix", '"x"', "OVStr (asc [120]%nat)"), ("message", "nope", "1", "OVInt 1"),
    ("proto", "c.struct_packing_alignment", "8", "OVInt 8"), ("proto", "c.struct_packing_alignment", "9", "OVInt 9"),
    ("proto", "c.struct_packing_alignment", "false", "OVBool false"),
    ("proto", "c.name_prefix", '"p_"', "OVStr (asc [112; 95]%nat)"), ("proto", "c.name_prefix", "4", "OVInt 4"),
    ("proto", "go.package_path", '"a/b"', "OVStr (asc [97; 47; 98]%nat)"), ("proto", "py.module_name", "yes", "OVBool true"),
    ("proto", "max_bytes", "1", "OVInt 1"), ("proto", "unknown.opt", '"v"', "OVStr (asc [118]%nat)"),
]


def t2_compile_inputs(ck: Check) -> Tuple[List[g.Input], List[Dict[str, Any]]]:
    """small compile jobs whose outcome CLASS is compared with the model"""
    rng = random.Random(ck.rng.getrandbits(64))
    inputs: List[g.Input] = []
    metas: List[Dict[str, Any]] = []

    def add(main: Any, meta: Dict[str, Any]):
        inputs.append({"files": {"main.bitproto": main, "b.bitproto": g.IMPORTED}, "main": "main.bitproto",
                       "origin": "t2:" + meta["t"]})
        metas.append(meta)

    for item, txt in ITEM_TEXT.items():
        add(f"proto a\nenum E : uint3 {{\n A = 0\n {txt}\n}}\n", {"t": "item", "model": f"(enum_item_outcome {item})",
                                                                 "stage": "parse", "text": txt, "scope": "enum"})
        if item in ("IAlias", "IConst", "IProto", "IImport"):
            add(f"proto a\nmessage M {{\n uint3 x = 1\n {txt}\n}}\n",
                {"t": "item", "model": f"(message_item_outcome {item})", "stage": "parse", "text": txt,
                 "scope": "message"})
    for scope, name, val, coq in OPTION_CASES:
        if scope == "message":
            main = f"proto a\nmessage M {{\n option {name} = {val}\n uint3 x = 1\n}}\n"
        else:
            main = f"proto a\noption {name} = {val}\nmessage M {{ uint3 x = 1 }}\n"
        add(main, {"t": "option", "model": f'(option_check "{scope}"%string "{name}"%string ({coq}))',
                   "stage": "parse", "text": f"{scope}: option {name} = {val}"})
    # renderers: empty enums in every position; integer constants at the str() limit
    shapes = [
        ("enum E : uint3 {{{m}}}\nmessage M {{ E e = 1 }}\n", "(TMsg false [(1, TEnum 3 {ms})])"),
        ("enum E : uint3 {{{m}}}\nmessage M {{ uint2 a = 1; E[3] e = 2 }}\n",
         "(TMsg false [(1, TUint 2); (2, TArr false 3%nat (TEnum 3 {ms}))])"),
        ("enum E : uint3 {{{m}}}\ntype T = E[2]\nmessage M {{ T t = 1 }}\n",
         "(TMsg false [(1, TAlias (TArr false 2%nat (TEnum 3 {ms})))])"),
        ("message M {{ message N {{ enum E : uint3 {{{m}}} E e = 1 }} N n = 1 }}\n",
         "(TMsg false [(1, TMsg false [(1, TEnum 3 {ms})])])"),
        ("enum E : uint3 {{{m}}}\nmessage M {{ byte[2] b = 1 }}\n", "(TMsg false [(1, TArr false 2%nat TByte)])"),
    ]
    for tpl, ty in shapes:
        for m, ms in (("", "[]"), (" A = 0 ", "[0]"), (" A = 1; B = 0 ", "[1; 0]")):
            for lang in ("c", "go", "py"):
                add("proto a\n" + tpl.format(m=m),
                    {"t": "render", "model": f"(render L{'C' if lang == 'c' else 'Go' if lang == 'go' else 'Py'} "
                                             f"{ty.format(ms=ms)} [])", "stage": "render_" + lang,
                     "text": tpl.format(m=m)})
    for val, small in ((10 ** 4300 - 1, True), (10 ** 4300, False), (-(10 ** 4300 - 1), True), (2 ** 64, True)):
        expr = hex(abs(val)) if val >= 0 else "0 - " + hex(abs(val))
        for lang in ("c", "go", "py"):
            add(f"proto a\nconst A = {expr}\nmessage M {{ uint3 x = 1 }}\n",
                {"t": "render-int", "model": f"(render L{'C' if lang == 'c' else 'Go' if lang == 'go' else 'Py'} "
                                             f"(TMsg false [(1, TUint 3)]) [{hexlit(val)}])",
                 "stage": "render_" + lang, "text": f"const A = <{'10^4300-1' if small else 'big'}>", "big": True})
    # p_error formats the token value; p_array_type formats the capacity
    for val in (10 ** 4300 - 1, 10 ** 4300):
        add(f"proto a\nmessage M {{ uint8[{hex(val)}] x = 1 }}\n",
            {"t": "p_error-int", "stage": "parse", "big": True, "text": "uint8[<hex literal>]",
             "model": f"(p_error_int_outcome {hex(val)})"})
        add(f"proto a\nconst A = {hex(val)}\nmessage M {{ uint8[A] x = 1 }}\n",
            {"t": "array-token-int", "stage": "parse", "big": True, "text": "uint8[A], A huge",
             "model": f'(bind (array_type_token {hex(val)}) (fun _ => @ParserError unit "InvalidArrayCap"%string))'})
    # source decoding: random bytes inside a comment (no CR / LF)
    for i in range(ck.n(150, 2000)):
        n = rng.choice([1, 1, 2, 3, 4, 6])
        bs = [rng.choice(g.INTERESTING_BYTES + [0x80, 0xBF, 0xC0, 0xC1, 0xC2, 0xDF, 0xE0, 0xA0, 0x9F, 0xED, 0xEF, 0xF0,
                                                0x90, 0x8F, 0xF4, 0xF5]) if rng.random() < 0.8 else rng.randrange(256)
              for _ in range(n)]
        bs = [b for b in bs if b not in (10, 13, 0)] or [0x41]
        add(g.b64(b"proto a\n// " + bytes(bs) + b"\nmessage M { uint3 x = 1 }\n"),
            {"t": "utf8", "stage": "parse", "model": f"(read_source {clist(str(b) for b in bs)})",
             "text": bytes(bs).hex()})
    for path, coq in (("b\x00.bitproto", [98, 0]), ("b.bitproto", [98])):
        add(f'proto a\nimport "{path}"\n', {"t": "import-path", "stage": "parse", "model": f"(import_path {asc(coq)})",
                                           "text": repr(path)})
    return inputs, metas


def stage_term(r: Dict[str, Any], stage: str) -> Tuple[str, Dict[str, Any]]:
    """outcome term of one stage of a compile result (an earlier failing stage stands in)"""
    sts = r.get("stages", {})
    st = sts.get(stage)
    if st is None:
        st = sts.get("parse", {"cls": "crash", "exc": "?"})
    c = st.get("cls")
    if c == "ok":
        return "(@Ok unit tt)", st
    if c == "parser_error":
        return f'(@ParserError unit "{st.get("error")}"%string)', st
    if c == "renderer_error":       # a RendererError subclass: _main.py reports it
        return '(@ParserError unit "RendererError"%string)', st
    if c == "os_error":
        return '(@ParserError unit "OSError"%string)', st
    if c == "crash":
        e = st.get("exc")
        return f"(@Crash unit {e if e in EXN else 'OtherExn'})", st
    return "(@Crash unit OtherExn)", st


# --------------------------------------------------------------------------------------
# the check
# --------------------------------------------------------------------------------------

def run(ck: Check) -> None:
    ck.assumptions.extend(ASSUME)
    ck.coverage["trusted_base"] = ["Coq 8.16.1 kernel + vm_compute", "tools/translate_c09.py (T0)",
                                   "tools/run_c09.py + CPython 3.12 + ply 3.11 as executors",
                                   "no axioms (Print Assumptions: closed)",
                                   "ply's tokenizer and LALR driver: NOT modelled (search only)"]
    limit = 10.0 if ck.quick else 30.0
    scale = float(os.environ.get("VERIF_C09_SCALE", "1") or "1")     # debugging aid only

    def N(q: int, t: int) -> int:
        return max(1, int(ck.n(q, t) * scale))

    # ---- inputs of the search (generated first, in one place, from ck.rng) ----------------
    rng = random.Random(ck.rng.getrandbits(64))
    seed_list = g.seeds()
    seed_map = dict(seed_list)
    corpus = load_corpus()
    inputs: List[g.Input] = []
    for j in corpus:
        inputs.append({"files": j["files"], "main": j["main"], "symlinks": j.get("symlinks", {}),
                       "origin": "corpus:" + os.path.basename(j["_path"]), "cli": True, "corpus": j})
    n_corpus = len(inputs)
    valid = [g.seed_input(o, t, seed_map) for o, t in seed_list]
    for k, v in enumerate(valid):
        v["cli"] = (k % 8 == 0) or not ck.quick
    inputs.extend(valid)
    gen_valid = g.gen_schema_inputs(rng, N(30, 300))
    inputs.extend(gen_valid)
    idents = sorted({t for _, txt in seed_list for t in g.tokens(txt) if t[:1].isalpha() or t[:1] == "_"})
    idents = [t for t in idents if len(t) < 30][:400]
    pool = valid + gen_valid
    for i in range(N(1500, 20000)):
        base = rng.choice(pool)
        txt = base["files"][base["main"]]
        files = dict(base["files"])
        files[base["main"]] = g.b64(g.mutate_bytes(rng, txt))
        inputs.append({"files": files, "main": base["main"], "origin": "byte-mutation of " + base["origin"]})
    for i in range(N(1500, 20000)):
        base = rng.choice(pool)
        txt = base["files"][base["main"]]
        files = dict(base["files"])
        files[base["main"]] = g.mutate_tokens(rng, txt, idents)
        inputs.append({"files": files, "main": base["main"], "origin": "token-mutation of " + base["origin"]})
    trunc_budget = N(700, 12000)
    order = list(range(len(pool)))
    rng.shuffle(order)
    n_trunc = 0
    for k in order:
        base = pool[k]
        cuts = g.truncations(base["files"][base["main"]])
        if n_trunc + len(cuts) > trunc_budget:
            cuts = rng.sample(cuts, max(0, trunc_budget - n_trunc))
        for c in cuts:
            files = dict(base["files"])
            files[base["main"]] = c
            inputs.append({"files": files, "main": base["main"], "origin": "truncation of " + base["origin"]})
        n_trunc += len(cuts)
        if n_trunc >= trunc_budget:
            break
    for i in range(N(700, 10000)):
        inputs.append({"files": {"main.bitproto": g.random_token_sequence(rng, idents), "b.bitproto": g.IMPORTED},
                       "main": "main.bitproto", "origin": "random token sequence"})
    cover = g.grammar_cover()
    cover[0]["cli"] = True
    inputs.extend(cover)
    shapes = g.identifier_shapes()
    for k, sh in enumerate(shapes):         # the command line (normal with c / go, and -c) on a sample
        if k % (16 if ck.quick else 3) == 0:
            sh["cli"] = True
            sh["cli_check"] = True
            sh["cli_lang"] = ("c", "go")[(k // 16) % 2]
    inputs.extend(shapes)
    long_ids = g.long_identifier_shapes()
    inputs.extend(long_ids)
    inputs.extend(g.trailing_blank_like())
    inputs.extend(g.dotted_references())
    inputs.extend(g.directed(rng, N(240, 3000)))
    inputs.extend(g.inside_known(rng, ck.n(22, 110)))

    # ---- T2 inputs ------------------------------------------------------------------------
    lex_jobs: List[Dict[str, Any]] = []
    lex_metas: List[Dict[str, Any]] = []
    t2_lexer(ck, None, None, lex_jobs, lex_metas)
    n_lex = len(lex_jobs)
    t2_exprs(ck, lex_jobs, lex_metas)
    t2_inputs, t2_metas = t2_compile_inputs(ck)

    # ---- run the implementation while Coq builds --------------------------------------------
    box: Dict[str, Any] = {}

    timings: Dict[str, float] = {}

    def work():
        try:
            t0 = time.time()
            box["search"] = run_inputs(ck, inputs, limit, 100, "s")
            # second pass: the COMMAND LINE on one input per diagnostic class seen in-process (is every
            # ParserError / OSError class really turned into a diagnostic?)
            firsts: Dict[str, int] = {}
            for k, r in enumerate(box["search"]):
                p0 = r.get("stages", {}).get("parse", {})
                if p0.get("cls") in ("parser_error", "os_error") and "cli" not in r["stages"]:
                    firsts.setdefault(p0.get("error", "?"), k)
            order2 = sorted(firsts.values())
            again = run_inputs(ck, [dict(inputs[k], cli=True) for k in order2], limit, 0, "c")
            for k, r in zip(order2, again):
                if "cli" in r.get("stages", {}):
                    box["search"][k]["stages"]["cli"] = r["stages"]["cli"]
            box["cli_classes"] = len(order2)
            box["cover"] = run_workers("run_c09.py", [dict(kind="cover", id=0, dir=os.path.join(ck.dir, "cover"),
                                                           inputs=cover, limit=limit)], chunk=1, timeout=600,
                                       extra_env={"PYTHONUTF8": "1"})
            timings["search_s"] = round(time.time() - t0, 1)
            t0 = time.time()
            box["lex"] = run_workers("run_c09.py", lex_jobs, chunk=max(10, len(lex_jobs) // 32), timeout=600,
                                     extra_env={"PYTHONUTF8": "1"})
            box["t2c"] = run_inputs(ck, t2_inputs, limit, 0, "t")
            timings["t2_impl_s"] = round(time.time() - t0, 1)
        except BaseException as e:  # noqa
            box["error"] = repr(e)

    th = threading.Thread(target=work)
    th.start()
    t0 = time.time()
    # props/C09.v: the totality theorems (hold under their guards; survive a fix of a known finding)
    # props/C09_refuted.v: the witnesses of the known findings (stop compiling when a defect is fixed)
    ck.try_prove("C09.v", model_vo=("theories/Total.vo",))
    ck.try_prove("C09_refuted.v", model_vo=("theories/Total.vo",))
    timings["coq_build_s"] = round(time.time() - t0, 1)
    th.join()
    if "error" in box:
        raise Broken("C09 harness: the implementation could not be run", box["error"])

    # ---- the search: corpus first, then everything else -----------------------------------
    results = box["search"]
    dist: Dict[str, int] = {}
    classes: Dict[Tuple[str, str], Dict[str, Any]] = {}
    per_origin: Dict[str, int] = {}
    parser_errors: Dict[str, int] = {}
    distinct_texts = set()
    n_nontrivial = 0
    for idx, (inp, r) in enumerate(zip(inputs, results)):
        okind = inp["origin"].split(" of ")[0].split("#")[0].split(":")[0]
        if okind.endswith(".bitproto"):
            okind = "unmutated seed"
        per_origin[okind] = per_origin.get(okind, 0) + 1
        main = inp["files"][inp["main"]]
        key_txt = main if isinstance(main, str) else main["b64"]
        if key_txt not in distinct_texts:
            distinct_texts.add(key_txt)
            if len(key_txt) > 12:
                n_nontrivial += 1
        sts = r.get("stages", {})
        p = sts.get("parse", sts.get("worker", {}))
        outcome = p.get("cls", "?")
        if outcome == "parser_error":
            parser_errors[p.get("error", "?")] = parser_errors.get(p.get("error", "?"), 0) + 1
        if outcome == "ok":
            rend = [sts.get("render_" + l, {}).get("cls") for l in ("c", "go", "py")]
            outcome = "ok" if all(x == "ok" for x in rend) and sts.get("lint", {}).get("cls", "ok") == "ok" \
                else "ok-then-" + next((x for x in rend + [sts.get("lint", {}).get("cls")] if x not in ("ok", None)), "?")
        dist[outcome] = dist.get(outcome, 0) + 1
        # the CLI must agree with the in-process classification
        cli = sts.get("cli")
        if cli and cli.get("cls") == "ok" and p.get("cls") in ("parser_error", "os_error"):
            ck.broken(Broken(f"harness: CLI succeeded where parse() raised {p.get('error')} ({inp['origin']})"))
        for stage, st in stage_failures(r):
            sig = signature(stage, st)
            ent = classes.setdefault(sig, {"count": 0, "first": idx, "stage": stage, "st": st, "origins": {}})
            ent["count"] += 1
            ent["origins"][okind] = ent["origins"].get(okind, 0) + 1
        # corpus entries: the recorded expectation must still hold
        if idx < n_corpus:
            exp = inp["corpus"].get("expect", {})
            st = sts.get(exp.get("stage", "parse"), {})
            same = (st.get("cls") == "crash" and st.get("exc") == exp.get("exc")
                    and (exp.get("site_any") or st.get("site") == exp.get("site")))
            if exp.get("cls") == "crash" and not same:
                kf = [k for k in ck.known if k.get("key") == inp["corpus"].get("key")]
                if kf and kf[0].get("status") == "known":
                    ck.broken(Broken(f"known finding {inp['corpus'].get('key')}: its witness "
                                     f"{os.path.basename(inp['corpus']['_path'])} no longer fails as recorded "
                                     f"(observed {st.get('cls')} {st.get('exc', st.get('error', ''))}); "
                                     "update known_findings.jsonl, the guard and the _refuted theorem"))

    # long identifiers: CPU time of parse+lint+render must not explode with the run length
    fam: Dict[Any, List[Tuple[int, float, int]]] = {}
    for idx, (inp, r) in enumerate(zip(inputs, results)):
        if "family" in inp and "cpu_s" in r:
            fam.setdefault(tuple(inp["family"]), []).append((inp["run"], float(r["cpu_s"]), idx))
    growth_hits = []
    long_cpu: Dict[int, float] = {}
    for key, pts in fam.items():
        pts.sort()
        for (n1, t1, i1), (n2, t2, i2) in zip(pts, pts[1:]):
            long_cpu[n2] = max(long_cpu.get(n2, 0.0), t2)
            long_cpu[n1] = max(long_cpu.get(n1, 0.0), t1)
            if t2 >= 0.25 and t2 >= 8 * max(t1, 0.01):
                growth_hits.append((key, n1, t1, n2, t2, i1, i2))
    if growth_hits:
        # confirm alone (load), then report the first family
        key, n1, t1, n2, t2, i1, i2 = growth_hits[0]
        again = run_inputs(ck, [dict(inputs[i1]), dict(inputs[i2])], limit, 0, "grow")
        a1, a2 = float(again[0].get("cpu_s", 0)), float(again[1].get("cpu_s", 0))
        if a2 >= 0.25 and a2 >= 8 * max(a1, 0.01) and not any(
                st.get("cls") == "hang" for _, st in stage_failures(results[i2])):
            ck.violation(f"compilation time explodes with the length of an identifier ({key[0]}, as a {key[1]} name): "
                         f"{a1:.3f}s of CPU for a run of {n1}, {a2:.3f}s for a run of {n2}",
                         {"files": inputs[i2]["files"], "main": inputs[i2]["main"], "origin": inputs[i2]["origin"],
                          "shorter_input": inputs[i1]["files"], "cpu_seconds": {str(n1): a1, str(n2): a2},
                          "stage": "parse+lint+render", "exception": "SUPERLINEAR"}, found_input=True, key=None)

    # a HANG verdict is re-examined alone (the machine may have been loaded)
    unconfirmed = []
    for sig, ent in list(classes.items()):
        if ent["st"].get("cls") == "hang":
            inp = dict(inputs[ent["first"]])
            inp["cli"] = ent["stage"] in ("cli", "cli_check")
            inp["cli_check"] = ent["stage"] == "cli_check"
            inp["limit"] = float(inp.get("limit", limit)) * 2
            again = run_inputs(ck, [inp], limit * 2, 0, "hang")[0]
            if not any(st.get("cls") == "hang" for _, st in stage_failures(again)):
                unconfirmed.append({"stage": ent["stage"], "origin": inp.get("origin"), "count": ent["count"]})
                del classes[sig]

    known_seen: Dict[str, int] = {}
    n_viol = 0
    for sig, ent in sorted(classes.items(), key=lambda kv: kv[1]["first"]):
        st = ent["st"]
        key = crash_key(ck, st) if st.get("cls") == "crash" else None
        ent["key"] = key
        inp = inputs[ent["first"]]
        if key is not None:
            known_seen[key] = known_seen.get(key, 0) + ent["count"]
            ck.violation(f"{sig[0]} in {sig[1]}", {}, found_input=True, key=key)
            continue
        n_viol += 1
        if n_viol > 5:
            continue
        small = inp
        try:
            if st.get("cls") == "crash":
                small = shrink(ck, inp, ent["stage"], sig, limit)
            elif st.get("cls") == "hang" and "limit" in inp and n_viol <= 2:
                # only inputs with a small own budget are shrunk (every test may run into the limit)
                small = shrink(ck, inp, ent["stage"], sig, float(inp["limit"]), max_rounds=14)
        except Exception:  # noqa
            small = inp
        what = (f"HANG: no result within {limit:.0f}s in stage {ent['stage']}" if st.get("cls") == "hang" else
                f"compilation is not total: {sig[0]} escapes from {sig[1]} (stage {ent['stage']}) instead of a "
                f"parser error")
        ck.violation(what, {"files": small["files"], "main": small["main"], "symlinks": small.get("symlinks", {}),
                            "origin": inp["origin"], "stage": ent["stage"], "exception": sig[0], "raised_in": sig[1],
                            "chain": st.get("chain"), "message": st.get("msg"), "traceback": st.get("trace"),
                            "occurrences": ent["count"], "unshrunk_files": inp["files"] if small is not inp else None,
                            "how_to_replay": "write `files` into a directory and run "
                                             "`python -m bitproto._main py <main>` with PYTHONPATH=/repo/compiler"},
                     found_input=True, key=None)

    # ---- T2 -------------------------------------------------------------------------------------
    tie_counts: Dict[str, int] = {}
    n_t2 = 0
    try:
        if ck.model_ok:
            sh_small = pyside.Shards(ck, "c09_a", per_shard=400)
            sh_big = pyside.Shards(ck, "c09_big", per_shard=2)
            sh_expr = pyside.Shards(ck, "c09_e", per_shard=400)
            sh_cmp = pyside.Shards(ck, "c09_c", per_shard=300)
            sh_cbig = pyside.Shards(ck, "c09_cbig", per_shard=4)
            lex_res = box["lex"]
            t2_lexer_cases(lex_res[:n_lex], lex_metas[:n_lex], sh_small, sh_big)
            t2_expr_cases(lex_res[n_lex:], lex_metas[n_lex:], sh_expr)
            for r, m, inp in zip(box["t2c"], t2_metas, t2_inputs):
                impl, st = stage_term(r, m["stage"])
                m = dict(m, input=inp)
                expr = f"(code (same_class {m['model']} {impl}) (is_crash {impl}))"
                (sh_cbig if m.get("big") else sh_cmp).add("", [expr], [("cmp-" + m["t"], m, st)])
            hdr_e = HEADER + f"Definition env0 := {g.PRELUDE_ENV}.\n"
            out = (sh_small.run(header=HEADER) + sh_big.run(header=HEADER) + sh_expr.run(header=hdr_e)
                   + sh_cmp.run(header=HEADER) + sh_cbig.run(header=HEADER))
            n_t2 = len(out)
            reported = set()
            for (kind, m, r), code in out:
                tie_counts[f"{kind}:{code}"] = tie_counts.get(f"{kind}:{code}", 0) + 1
                desc = {k: v for k, v in m.items() if k in ("cps", "tok", "text", "rule", "model", "scope")}
                if isinstance(desc.get("tok"), str) and len(desc["tok"]) > 80:
                    desc["tok"] = desc["tok"][:40] + f"...({len(desc['tok'])} chars)"
                if code & 1:
                    ck.broken(Broken(f"tie T2 ({kind}): the model and the implementation disagree",
                                     json.dumps({"case": desc, "implementation": {k: v for k, v in r.items()
                                                                                 if k != "trace"}}, default=str)[:1500]))
                if code & 2:
                    st = r if "exc" in r else {}
                    key = crash_key(ck, st)
                    sig = (kind, st.get("exc"), st.get("site"))
                    if key is not None:
                        known_seen[key] = known_seen.get(key, 0) + 1
                    if key is None and sig in reported:
                        continue
                    reported.add(sig)
                    replay = {"case": desc, "stage": kind, "exception": st.get("exc"), "raised_in": st.get("site"),
                              "traceback": st.get("trace")}
                    if "input" in m:
                        replay["files"] = m["input"]["files"]
                        replay["main"] = m["input"]["main"]
                    ck.violation(f"compilation is not total: {st.get('exc')} escapes from {st.get('site')} ({kind})",
                                 replay, found_input=True, key=key)
    except Broken as b:
        ck.broken(b)

    # ---- evidence ---------------------------------------------------------------------------
    cov = ck.coverage
    cov["evaluations"] = len(inputs) + n_t2
    cov["distinct_nontrivial"] = n_nontrivial
    cov["rule"] = ("SEARCH (supports, does not replace, the theorems): real parse()+lint()+render(c,go,py) in-process "
                   f"under a {limit:.0f}s limit per stage, plus the CLI on every 100th input, the corpus and every 8th "
                   "unmutated seed (all of them in the thorough tier); inputs = committed corpus, every .bitproto of /repo, schema_gen schemas, byte-level "
                   "mutations (1-5 edits: insert/delete/replace/flip/duplicate/cut, biased to quotes, backslashes, "
                   "NUL, UTF-8 lead/continuation bytes), token-level mutations (delete/insert/replace/swap/duplicate over "
                   "the language's vocabulary + identifiers of the seeds), truncations at every token boundary, random "
                   "token sequences, directed damage (unbalanced braces, stray characters, bad escapes, unterminated "
                   "strings, long literals below the digit limit, deep nesting, long lines, identifier shapes (every "
                   "definition kind x leading/trailing/doubled underscores, single characters, digits, ALLCAPS, mixedCase, "
"300-character names; lint + c/go/py, CLI normal and -c on a sample), long identifiers (runs of 16..64 "
                   "capitals / digits / underscores followed by another class, repeated groups; budget 3 CPU-seconds per "
                   "stage, and CPU time compared across run lengths), blank-like characters (\\f \\v 0x1c-0x1f NEL NBSP "
                   "U+2028 U+3000 ...) where only blanks follow up to the end of input, dotted references (every definition "
                   "kind as first / middle / last component x type / capacity / constant / option positions), imports of missing / self / "
                   "cyclic / directory / symlink-loop / damaged files) and a small stream inside each known class. "
                   "distinct = distinct main-file contents, non-trivial = longer than 12 characters. "
                   "T2 cases are evaluated by Coq against the model (see tie).")
    cov["distribution"] = {"outcome_class": dist, "by_generator": per_origin,
                           "parser_error_classes": dict(sorted(parser_errors.items(), key=lambda kv: -kv[1])[:40]),
                           "crash_classes": [{"exception": s[0], "site": s[1], "count": e["count"],
                                              "stage": e["stage"], "known_finding": e.get("key"),
                                              "generators": e["origins"]}
                                             for s, e in sorted(classes.items(), key=lambda kv: -kv[1]["count"])]}
    try:
        import ast as _ast
        import translate_c09 as t9
        _, tp = t9._src("compiler/bitproto/parser.py")
        _, tg = t9._src("compiler/bitproto/grammars.py")
        rules = t9.parse_grammar(tg)
        want = set()
        for n in tp.body:
            if isinstance(n, _ast.ClassDef) and n.name == "Parser":
                for fn in n.body:
                    if isinstance(fn, _ast.FunctionDef) and fn.name.startswith("p_") and fn.name != "p_error":
                        rl = [d.args[0].id for d in fn.decorator_list if isinstance(d, _ast.Call) and d.args
                              and isinstance(d.args[0], _ast.Name)]
                        for alt in rules.get(rl[0], ("", []))[1] if rl else []:
                            want.add((fn.name, len(alt) + 1))
        got = {tuple(x) for x in (box.get("cover") or [{}])[0].get("pairs", [])}
        cov["grammar_cover"] = {"action_length_pairs_in_grammar": len(want), "exercised_by_the_cover_stream": len(want & got),
                                "missing": sorted(want - got)[:20]}
    except Exception as e:  # noqa
        cov["grammar_cover"] = {"error": repr(e)}
    cov["cli_runs_per_diagnostic_class"] = box.get("cli_classes")
    cov["long_identifier_cpu_s_by_run_length"] = {str(k): v for k, v in sorted(long_cpu.items())}
    cov["timings"] = timings
    cov["unconfirmed_hangs"] = unconfirmed
    cov["tie"] = {**cov.get("tie", {}), "t2_cases": n_t2, "codes": tie_counts, "corpus": n_corpus,
                  "known_findings_seen": known_seen,
                  "t2_kinds": "lex-str (real Lexer vs lex_string + token language), lex-int / lex-cap (int(), "
                              "int(,16), uint<n>/int<n> around the digit limit), expr (parse_string of constant "
                              "expressions vs ceval), cmp-item / cmp-option / cmp-render / cmp-render-int / "
                              "cmp-p_error-int / cmp-array-token-int / cmp-utf8 / cmp-import-path (outcome class of the "
                              "real parse()/render() vs the model)"}
    samples = []
    for idx in (n_corpus, n_corpus + len(valid) + len(gen_valid) + 3, len(inputs) - 400):
        if 0 <= idx < len(inputs):
            main = inputs[idx]["files"][inputs[idx]["main"]]
            samples.append({"origin": inputs[idx]["origin"],
                            "main_file": (main if isinstance(main, str) else main)[:300] if isinstance(main, str)
                            else {"b64": main["b64"][:300]},
                            "observed": {k: {kk: vv for kk, vv in v.items() if kk in ("cls", "error", "exc", "site")}
                                         for k, v in results[idx].get("stages", {}).items()}})
    if lex_metas and "lex" in box:
        samples.append({"t2_case": {k: v for k, v in lex_metas[20].items()}, "lexer_observed": box["lex"][20]})
    cov["samples"] = samples
    lexstage.lex_stage(ck, "C09_lex.v", 1, 8, "C09")    # text level: the tokenizer (tools/lexstage.py)
    # the LR driver on the validated tables: no IndexError/KeyError, linear fuel bound (tools/lrstage.py)
    import lrstage
    lrstage.lr_stage(ck, "C09_lr.v", lrstage.QUICK_C09, lrstage.THOROUGH_C09, "lr")
