"""C19 — Go standard-mode output describes the same messages as the Python output.

Proof (coq/props/C19.v) + ties: T0 tools/translate_go.py (Go runtime helpers, `ito` formulas,
skeleton digests of every other declaration of lib/go/bitproto.go, the compiler's nbytes /
get_nbits_of_integer), T1 tools/t1_go.py on the emitted .go files compared in Coq with the
renderer model `go_proc_of (norm t)` AND with the Python module's tables (tools/t1_py.py) of
the same schema.  Go is never executed: in addition the Go runtime MODEL (GoRt.go_enc/go_dec,
built on the translated helpers) is evaluated on the EMITTED tables and compared with Spec.wire.
"""
import json
import os
import random
from typing import Any, Dict, List, Optional, Tuple

import c19_gen
import pyside
import pywire
import schema_gen as sg
import t1_go
import t1_py
from vlib import Broken, Check, clist, coq_eval_file, parse_zlist, run_workers

LEVEL = "proof"

ASSUME = [
    "Coq 8.16.1 kernel and its vm_compute (sweeps, correspondence evaluation)",
    "Go is never executed (no toolchain): Go's typed-integer semantics (wrap-around at the operand type, "
    "arithmetic >> on signed, truncating / and %, operator precedence) are modelled in tools/translate_go.py "
    "and coq/theories/GoRt.v, not observed",
    "tools/translate_go.py (T0) reads lib/go/bitproto.go correctly; shift counts are non-negative and divisors "
    "non-zero where Go would panic; every declaration it does not translate is pinned by a token digest "
    "(coq/ref/skeletons_go.json) and hand-modelled in GoRt.v",
    "tools/t1_go.py / tools/t1_py.py (T1) parse the emitted files faithfully; unknown shapes are rejected",
    "the Go compiler would reject ill-typed emitted code; the model marks such code TypeError/AttributeError",
    "&(m.F[..]) pointer mutation is modelled as read / write-back of the child value",
]

HEADER = """From Coq Require Import ZArith List Bool.
From BP Require Import Bits Schema Spec PyRt Eqb PyDecProofs GoRt GoEqb.
Import ListNotations.
Open Scope Z_scope.
"""

DIFF = {1: "struct field types / struct field order differ from the smallest-covering types in field-number order",
        2: "BYTES_LENGTH_ size constant differs from ceil(nbits/8)",
        3: "BpGetByte switch table differs (field number / array depth / bool form)",
        4: "BpSetByte switch table differs (field number / array depth / conversion type / |= vs =)",
        5: "BpProcessInt sign-extension table differs (fields sign-extended / shift distance / array depth)",
        6: "BpGetAccessor switch table differs (field number / array depth)",
        7: "BpProcessor tree differs (field numbers / widths / capacities / extensible flags / nesting / nbits)"}


def go_name(name: str) -> Optional[str]:
    """pascal_case of a field name, for names on which it is unambiguous (lower-case letters only)."""
    if name.isalpha() and name.islower():
        return name[0].upper() + name[1:]
    return None


def _strip(t: sg.T) -> sg.T:
    while t.kind in ("alias", "arr"):
        t = t.t
    return t


def check_names(t: sg.T, info: Dict[str, Any], path: str = "") -> Optional[str]:
    """struct field names / json tags / order against the schema (names outside [a-z]+ are C15's)."""
    want = sorted(t.fields, key=lambda f: f[0])
    got = info["fields"]
    if info["size"] != info["size_method"]:
        return (f"{path}{info['name']}: Size() returns {info['size_method']} but the BYTES_LENGTH_ constant is "
                f"{info['size']}")
    if [f["number"] for f in got] != [n for n, _, _ in want]:
        return f"{path}{info['name']}: struct fields are not in field-number order: {[f['number'] for f in got]}"
    for (n, nm, ft), g in zip(want, got):
        gn = go_name(nm)
        if gn is not None and (g["go_name"] != gn or g["tag"] != nm):
            return (f"{path}{info['name']}: field {n} `{nm}` is declared as {g['go_name']} `json:\"{g['tag']}\"` "
                    f"(expected {gn} `json:\"{nm}\"`)")
        inner = _strip(ft)
        if (inner.kind == "msg") != (g["message"] is not None):
            return f"{path}{info['name']}: field {n}: message nesting differs"
        if inner.kind == "msg":
            r = check_names(inner, g["message"], path + info["name"] + ".")
            if r:
                return r
    return None


def generator_invalid(s: sg.Schema) -> Optional[str]:
    """tools/schema_gen.py (read-only here) can draw the same `import <name>` twice in one file;
    such a text is not a valid schema and is not a case of this property."""
    for f in s.files:
        names = [(a or s.files[fi].proto) for fi, a in f.imports]
        if len(set(names)) != len(names):
            return f"file {f.base}: duplicate import names {names}"
    return None


def conv_type_outside_imports(s: sg.Schema) -> Optional[str]:
    """Class of the finding `go-missing-import` (a necessary condition, by call site and cause):
    some message field's accessor conversion type (the innermost named single type reached
    through aliases and arrays, see BlockMessageMethodBpSetByteItem) is referenced from an alias
    defined in ANOTHER file than the message's and is itself defined outside the message's file;
    the emitted qualifier is then the name under which some other file imports that proto.
    Returns a description or None."""
    seen = set()

    def walk_msg(m: sg.T) -> Optional[str]:
        if id(m) in seen:
            return None
        seen.add(id(m))
        for num, name, ft in m.fields:
            t, conv, ref_file = ft, None, m.file
            while True:
                if t.kind == "alias":
                    if t.t.kind == "arr":
                        ref_file = t.file
                        t = t.t
                        continue
                    conv = t
                    break
                if t.kind == "arr":
                    t = t.t
                    continue
                break
            if conv is None and t.kind == "enum":
                conv = t
            if conv is not None and ref_file != m.file and conv.file != m.file:
                return (f"message {m.name} (file {s.files[m.file].base}) field {name}: conversion type {conv.name} "
                        f"(defined in {s.files[conv.file].base}) is referenced from an alias of file "
                        f"{s.files[ref_file].base}")
            inner = _strip(ft)
            if inner.kind == "msg":
                r = walk_msg(inner)
                if r:
                    return r
        return None

    return walk_msg(s.top) if len(s.files) > 1 else None


class Shards(pyside.Shards):
    """pyside.Shards with a serial retry of a shard whose coqc run failed (time-out on a loaded
    machine); a shard that fails twice is a broken obligation, the other shards still count."""

    def run(self, header: str = HEADER, timeout: int = 900):  # type: ignore[override]
        from concurrent.futures import ThreadPoolExecutor
        import vlib
        files, layout = [], []
        for si in range(0, len(self.items), self.per):
            chunk = self.items[si:si + self.per]
            path = os.path.join(self.ck.dir, f"{self.tag}_{si // self.per}.v")
            body, exprs, metas = [header], [], []
            for defs, ex, me in chunk:
                body.append(defs)
                exprs.extend(ex)
                metas.extend(me)
            body.append("Definition results : list Z := " + clist(exprs) + ".")
            body.append("Eval vm_compute in results.")
            with open(path, "w") as f:
                f.write("\n".join(body) + "\n")
            files.append(path)
            layout.append(metas)

        def one(p):
            try:
                return coq_eval_file(p, timeout)
            except Broken as b:
                return b

        with ThreadPoolExecutor(max_workers=vlib.NCPU) as ex:
            outs = list(ex.map(one, files))
        res = []
        for path, metas, out in zip(files, layout, outs):
            if isinstance(out, Broken):
                out = one(path)                       # retry, now alone
            if isinstance(out, Broken):
                self.ck.broken(out)
                continue
            codes = parse_zlist(out, path)
            if len(codes) != len(metas):
                self.ck.broken(Broken(f"case file {os.path.basename(path)}: {len(metas)} cases but {len(codes)} results",
                                      out[-1500:]))
                continue
            res.extend(zip(metas, codes))
        return res


def excerpt(gen: Dict[str, str], limit: int = 6000) -> Dict[str, str]:
    return {k: (v if len(v) <= limit else v[:limit] + "\n...[truncated]") for k, v in gen.items()}


def run(ck: Check) -> None:
    ck.assumptions.extend(ASSUME)
    ck.coverage["trusted_base"] = ["Coq 8.16.1 kernel + vm_compute", "tools/translate_go.py", "tools/t1_go.py",
                                   "tools/t1_py.py", "hand-written Go semantics in coq/theories/GoRt.v",
                                   "no axioms (Print Assumptions: closed)"]
    ck.try_prove("C19.v", model_vo=("theories/GoEqb.vo", "theories/PyDecProofs.vo"))

    ns, nv = (120, 2) if ck.quick else (1500, 6)
    cases: List[Tuple[sg.Schema, List[Any], str]] = []
    for j in pywire.load_corpus(ck.prop):
        s = sg.schema_from_json(j["schema"])
        vals = [sg.value_from_json(s.top, v) for v in j.get("values", [])]
        cases.append((s, vals, "corpus:" + os.path.basename(j["_path"])))
    for kf in ck.known:
        wp = os.path.join(pywire.VERIF, "corpus", ck.prop, "known", kf.get("key", "") + ".json")
        if os.path.exists(wp):
            j = json.load(open(wp))
            s = sg.schema_from_json(j["schema"])
            cases.append((s, [sg.value_from_json(s.top, v) for v in j.get("values", [])],
                          "known-finding-witness:" + kf["key"]))
    n_corpus = len(cases)
    # directed classes (tools/c19_gen.py): Go-defined identifiers as field names, array pairs with
    # coinciding bit totals, alias chains with 5..8 array dimensions
    n_dir = 8 if ck.quick else 80
    for cname, fn in c19_gen.CLASSES:
        for k in range(n_dir):
            rng = random.Random(f"{ck.prop}:{ck.seed}:{cname}:{k}")
            s = fn(rng)
            vals = [sg.gen_value(s.top, rng, m) for m in (["random"] if ck.quick else ["random", "max", "min"])]
            cases.append((s, vals, f"{cname}#{k}"))
    n_invalid = 0
    for c in pywire.gen_cases(ck, ns, nv):
        if generator_invalid(c[0]):
            n_invalid += 1
        else:
            cases.append(c)

    jobs = [dict(id=i, dir=os.path.join(ck.dir, f"s{i}"), files=s.texts) for i, (s, _, _) in enumerate(cases)]
    results = run_workers("run_go.py", jobs, chunk=max(5, len(jobs) // 32))

    sh = Shards(ck, "c19", per_shard=8 if ck.quick else 5)
    n_eval = 0
    distinct = set()
    impl_fail = 0
    t1_fail: Dict[int, str] = {}
    n_struct = 0
    for i, ((s, vals, origin), r) in enumerate(zip(cases, results)):
        if "go" not in r or "py" not in r:
            impl_fail += 1
            err = r.get("compile_error") or r.get("worker_error") or "?"
            ck.violation(f"the compiler could not process a valid schema: {err}",
                         {"schema": sg.schema_to_json(s), "error": err, "origin": origin,
                          "obligation": "tie T1 (nothing emitted)"}, found_input=True)
            continue
        base = s.files[0].base + "_bp"
        top_name = sg.py_type_name(s, s.top, 0)
        try:
            g1 = t1_go.GoT1(r["go"])
            gterm, info = g1.message(g1.files[base], go_msg_name(g1, base, s.top, top_name))
        except t1_go.T1Mismatch as e:
            n_struct += 1
            ck.violation("emitted Go does not describe the schema's message: the accessor methods contradict the "
                         "struct declared in the same file: " + "; ".join(e.issues[:3]),
                         {"schema": sg.schema_to_json(s), "origin": origin, "where": e.where, "issues": e.issues,
                          "go": excerpt(r["go"])}, found_input=True)
            continue
        except t1_go.T1Unresolved as e:
            cls = conv_type_outside_imports(s)
            if cls is None and origin == "known-finding-witness:go-missing-import":
                cls = "committed witness of the finding"
            if cls is None:
                t1_fail[i] = f"emitted Go: {e}"
            else:
                ck.violation(f"emitted Go refers to a package its file does not import (Go: undefined: "
                             f"{e.expr.split('.')[0]}): {e}; {cls}",
                             {"schema": sg.schema_to_json(s), "origin": origin, "unresolved": e.expr,
                              "file": e.file + ".go", "class": cls, "go": excerpt(r["go"])},
                             found_input=True, key="go-missing-import")
            continue
        except (t1_go.T1Error, KeyError, IndexError, StopIteration) as e:
            t1_fail[i] = f"emitted Go: {type(e).__name__}: {e}"
            continue
        try:
            p1 = t1_py.PyT1(r["py"])
            pterm = p1.message_proc(p1.mods[base], top_name)
            py_bl = p1.bytes_length(base, top_name)
        except (t1_py.T1Error, KeyError) as e:
            t1_fail[i] = f"emitted Python: {type(e).__name__}: {e}"
            continue
        bad = check_names(s.top, info)
        if bad:
            ck.violation("Go struct declaration (field names / json tags / order / Size()) does not follow the schema: " + bad,
                         {"schema": sg.schema_to_json(s), "origin": origin, "detail": bad,
                          "go": excerpt(r["go"])}, found_input=True)
        defs = (f"Definition t_{i} : ty := {s.coq_ty()}.\n"
                f"Definition g_{i} : gproc := {gterm}.\n"
                f"Definition p_{i} : proc := {pterm}.\n")
        exprs = [f"(gproc_diff g_{i} (go_proc_of (norm t_{i})))",
                 f"(py_go_agree p_{i} g_{i})",
                 f"(if (go_size_of g_{i} =? {py_bl}) && ({py_bl} =? nbytes t_{i}) then 0 else 1)",
                 f"(if shape_ok (norm t_{i}) && wf (norm t_{i}) then 0 else 1)",
                 f"(if proc_eqb p_{i} (proc_of (norm t_{i})) then 0 else 1)"]
        metas: List[Any] = [(i, "model", None), (i, "pygo", None), (i, "size", None), (i, "hyp", None),
                            (i, "pymodel", None)]
        n_eval += 1
        distinct.add(s.texts[s.main])
        for k, v in enumerate(vals):
            cv = sg.coq_val(s.top, v)
            exprs.append(f"(if res_bytes_eqb (go_encode_proc g_{i} {cv}) (Ok (wire t_{i} {cv})) then 0 else 1)")
            metas.append((i, "enc", k))
            # exactly the right-hand side of C19_go_accessors_spec_decode (canonical Go storage of v)
            exprs.append(f"(if res_val_eqb (go_decode_proc g_{i} (go_default (norm t_{i})) (wire t_{i} {cv})) "
                         f"(Ok (canon (norm t_{i}) {cv})) then 0 else 1)")
            metas.append((i, "dec", k))
        sh.add(defs, exprs, metas)

    out = sh.run(header=HEADER, timeout=900 if ck.quick else 2400) if ck.model_ok else []
    counts: Dict[str, int] = {}
    n_model = n_prop = 0
    for (i, kind, k), code in out:
        counts[f"{kind}:{code}"] = counts.get(f"{kind}:{code}", 0) + 1
        if code == 0:
            continue
        s, vals, origin = cases[i]
        r = results[i]
        rep = {"schema": sg.schema_to_json(s), "origin": origin, "stage": kind, "code": code}
        if kind == "model":
            n_prop += 1
            rep["go"] = excerpt(r["go"])
            ck.violation("emitted Go differs from the proved renderer model: " + DIFF.get(code, str(code)), rep,
                         found_input=True)
        elif kind == "pygo":
            n_prop += 1
            rep["go"] = excerpt(r["go"])
            rep["py"] = excerpt(r["py"])
            ck.violation("Go output and Python output of the same schema disagree: " +
                         ("processor trees differ" if code == 1 else "accessor tables address different fields/depths"),
                         rep, found_input=True)
        elif kind == "size":
            n_prop += 1
            ck.violation("Go size constant, Python BYTES_LENGTH and ceil(nbits/8) are not all equal", rep,
                         found_input=True)
        elif kind == "hyp":
            ck.broken(Broken(f"generator produced a schema outside the theorems' hypotheses (shape_ok/wf) on {origin}",
                             json.dumps(s.texts)[:1500]))
        elif kind == "pymodel":
            n_model += 1
            ck.broken(Broken(f"tie T1 (emitted Python vs PyRt.proc_of) broken on schema {origin}",
                             json.dumps(s.texts)[:1500]))
        else:
            n_prop += 1
            rep["value"] = sg.value_to_json(s.top, vals[k])
            rep["go"] = excerpt(r["go"])
            ck.violation({"enc": "the Go runtime model run on the EMITTED accessor tables does not produce the specified wire",
                          "dec": "the Go runtime model run on the EMITTED accessor tables does not decode the specified "
                                 "wire back to the value"}[kind], rep, found_input=True)
    for i, msg in list(t1_fail.items())[:4]:
        s, vals, origin = cases[i]
        ck.broken(Broken(f"tie T1: {msg} (schema {origin})", json.dumps(s.texts)[:2000]))

    cov = ck.coverage
    cov["evaluations"] = n_eval
    cov["distinct_nontrivial"] = len(distinct)
    cov["rule"] = ("schemas from tools/schema_gen.py (resolved tree first: nesting, aliases of scalars and arrays, "
                   "enums, imports, extensible markers, permuted field numbers, widths weighted to "
                   "1,7,8,9,15,16,17,31,32,33,63,64); each compiled by the real compiler to Go and to Python; "
                   "plus directed classes from tools/c19_gen.py (field names = identifiers the generated Go defines or "
                   "predeclares, in snake/camel/Pascal/UPPER; array pairs with cap*(w2-w1) in {16,0} across "
                   "extensible/plain and signed/unsigned in one Go type; alias chains with 5..8 array dimensions); "
                   "a case is one schema (distinct main-file texts counted; every schema has >= 1 field); per schema: "
                   "the four accessors vs the struct declared in the same .go file (member, index depth = array "
                   "rank, scalar/message kind), "
                   "emitted Go tables vs renderer model, vs emitted Python tables, sizes, and the Go runtime model "
                   "evaluated on the emitted tables for values in modes random/max/min: encode vs Spec.wire and "
                   "decode of the wire vs canon (norm t) v (the right-hand sides of the proved theorems "
                   "C19_go_accessors_spec_encode / _decode)")
    cov["tie"] = {**cov.get("tie", {}), "schemas": len(cases), "corpus": n_corpus,
                  "t1_parsed": len(cases) - impl_fail - len(t1_fail), "t1_rejected": len(t1_fail),
                  "codes": counts, "property_mismatches": n_prop, "model_mismatches": n_model,
                  "impl_failures": impl_fail, "accessor_vs_struct_mismatches": n_struct,
                  "directed_classes": {c: n_dir for c, _ in c19_gen.CLASSES}, "generator_invalid_skipped": n_invalid, "go_executed": False}
    cov["distribution"] = sg.distribution([c[0] for c in cases])
    for (s, vals, origin), r in list(zip(cases, results))[:2]:
        if "go" in r:
            cov["samples"].append({"schema": s.texts, "origin": origin,
                                   "go_excerpt": r["go"].get(s.files[0].base + "_bp.go", "")[-1500:]})


def go_msg_name(g1: "t1_go.GoT1", base: str, top: sg.T, py_name: str) -> str:
    """Go struct name of the top message: the Python class name with the scope separators removed
    (pascal case); found by normalised comparison among the structs of the main file."""
    want = py_name.replace("_", "").lower()
    c = [nm for nm, d in g1.files[base].types.items() if d[0] == "struct" and nm.replace("_", "").lower() == want]
    if len(c) != 1:
        raise t1_go.T1Error(f"{base}.go: cannot identify the struct of message {py_name}: candidates {c}")
    return c[0]
