"""C15 — Generated API names follow the documented scheme.

proof:  coq/props/C15.v over the string model coq/theories/Names.v (closed under the global context)
T0:     tools/translate_names.py -> coq/gen/GenNames.v (regex classes, case tables, templates)
T2:     the real utils.snake_case / pascal_case / upper_case on ALL strings up to length 5 (quick) /
        7 (thorough) over {a,b,A,B,1,_} and on random longer identifiers, compared in Coq with the
        model (tie) and with the theorems' conclusions (property)
T1/T2:  style-guide-named schemas compiled by the real compiler for c, c -O, go, py; every
        identifier declared in the output compared in Coq with the model's list (both
        directions) and with the documented names (specification namer), plus file names.
"""
from __future__ import annotations

import glob
import json
import os
import random
import string
from typing import Any, Dict, List, Optional, Tuple

import names_gen as ng
import names_parse as np_
from names_coq import eval_results
from vlib import (COQ, NCPU, VERIF, Broken, Check, coq_build, run_workers)
from vlib import run as sh_run

LEVEL = "proof"
KEY = "digit-names"
ALPHABET = "abAB1_"

HEADER = """From Coq Require Import List String NArith Ascii Bool.
From BP Require Import NamesBase Names NamesSpec NamesT2.
From BPGen Require Import GenNames.
Import ListNotations.
Open Scope string_scope.
Open Scope N_scope.
"""

ASSUME = [
    "Coq 8.16.1 kernel and its vm_compute (character sweeps over all 256 ascii values, witnesses, correspondence)",
    "tools/translate_names.py (T0) reads utils.py / formatter.py / block.py / the three renderers correctly; "
    "CPython's re._parser gives the character classes of the nine _snakecase_re_* patterns",
    "regular-expression semantics of re.sub / search / match / fullmatch for the nine pattern SHAPES the scanners of "
    "Names.v implement (validated by the exhaustive T2 comparison on every run)",
    "strings are 8-bit; characters >= 128 are caseless in the model (Python's Unicode case mapping is not modelled; "
    "bitproto identifiers are ASCII by the lexer, option c.name_prefix values are assumed ASCII)",
    "tools/names_parse.py (T1) extracts declared identifiers from .h/.c/.go/.py text faithfully; unknown top-level "
    "shapes are rejected",
    "'declared name' means the name in the declaration text; for C the function names are additionally compared with "
    "the symbols of the gcc-compiled object, for Python the methods with the attributes of the imported module; Go is "
    "never compiled",
]


def cstr(s: str) -> str:
    return '"' + s.replace('"', '""') + '"'


def coq_eval_many(vpaths: List[str], timeout: int = 900) -> Dict[str, str]:
    """vlib.coq_eval_many with -noglob (the .glob of a data-only file costs as much as its evaluation)."""
    from concurrent.futures import ThreadPoolExecutor

    def one(vpath: str) -> str:
        rc, out, err = sh_run(["timeout", str(timeout), "coqc", "-noglob", "-Q", os.path.join(COQ, "theories"), "BP",
                            "-Q", os.path.join(COQ, "gen"), "BPGen", vpath],
                           cwd=os.path.dirname(vpath), timeout=timeout + 30)
        if rc != 0:
            raise Broken(f"coqc failed on {os.path.basename(vpath)}", (out + err)[-4000:])
        return out

    with ThreadPoolExecutor(max_workers=NCPU) as ex:
        return dict(zip(vpaths, ex.map(one, vpaths)))


# ------------------------------------------------------------------------------------------------
# T2: converters
# ------------------------------------------------------------------------------------------------

def block_list(maxlen: int) -> List[Tuple[str, int]]:
    import itertools
    out = [("", n) for n in range(0, min(maxlen, 4) + 1)]
    for L in range(5, maxlen + 1):
        for pre in itertools.product(ALPHABET, repeat=L - 4):
            out.append(("".join(pre), 4))
    return out


def block_input(pre: str, n: int, idx: int) -> str:
    digits = []
    for _ in range(n):
        digits.append(ALPHABET[idx % 6])
        idx //= 6
    return pre + "".join(reversed(digits))


def random_inputs(rng: random.Random, n: int) -> List[str]:
    out = []
    ident = string.ascii_letters + string.digits + "_"
    clean = ng.NameGen(rng, False)
    known = ng.NameGen(rng, True)
    while len(out) < n:
        k = rng.random()
        if k < 0.30:
            L = rng.choice([6, 7, 8, 9, 10, 12, 16, 24])
            s = "".join(rng.choice(ident) for _ in range(L))
        elif k < 0.40:
            L = rng.randrange(6, 14)
            s = "".join(rng.choice("abAB1_") for _ in range(L))
        elif k < 0.50:
            L = rng.randrange(1, 16)
            s = "".join(rng.choice(ident + "--__") for _ in range(L))
        elif k < 0.55:
            L = rng.randrange(1, 12)
            s = "".join(rng.choice(ident + "-.$\n\"") for _ in range(L))
        elif k < 0.85:
            g = rng.choice([clean, clean, known])
            parts = []
            if rng.random() < 0.4:
                parts.append((g.prefix() or "my_")[:-1])
            for _ in range(rng.randrange(0, 3)):
                parts.append(g.pascal())
            parts.append(rng.choice([g.pascal, g.snake, g.upper])())
            s = "_".join(parts)
        else:
            g = rng.choice([clean, known])
            s = "".join(g.pascal() for _ in range(rng.randrange(1, 4)))
        out.append(s)
    return out


def line_of(fields: Any) -> Optional[str]:
    if not isinstance(fields, list) or len(fields) != 5 or not all(isinstance(x, str) for x in fields):
        return None
    if any(" " in x for x in fields):
        return None
    return " ".join(fields)


def run_converters(ck: Check, maxlen: int, n_random: int, corpus_inputs: List[str]) -> Dict[str, Any]:
    blocks = block_list(maxlen)
    jobs = [{"op": "block", "pre": p, "n": n, "alphabet": ALPHABET} for p, n in blocks]
    rnd = corpus_inputs + random_inputs(ck.rng, n_random)
    per = 500
    case_chunks = [rnd[i:i + per] for i in range(0, len(rnd), per)]
    jobs += [{"op": "cases", "inputs": ch} for ch in case_chunks]
    results = run_workers("run_names.py", jobs, chunk=max(1, len(jobs) // 48))
    files: List[str] = []
    metas: List[Any] = []
    cur: List[str] = []
    cur_meta: List[Any] = []
    cur_size = 0
    fidx = 0

    def flush():
        nonlocal cur, cur_meta, cur_size, fidx
        if not cur:
            return
        path = os.path.join(ck.dir, f"conv_{fidx}.v")
        with open(path, "w") as f:
            f.write(HEADER + "\n".join(cur) + "\n")
        files.append(path)
        metas.append(cur_meta)
        cur, cur_meta, cur_size = [], [], 0
        fidx += 1

    n_inputs = 0
    for bi, ((pre, n), r) in enumerate(zip(blocks, results[:len(blocks)])):
        lines = r.get("lines") if isinstance(r, dict) else None
        strs = [line_of(x) for x in lines] if isinstance(lines, list) else None
        if strs is None or len(strs) != 6 ** n or any(s is None for s in strs):
            raise Broken("tie T2: the real case converters could not be run on an enumeration block",
                         json.dumps(r)[:600])
        n_inputs += len(strs)
        cur.append(f"Definition outs_{bi} : list string := [" + ";\n".join(cstr(s) for s in strs) + "].")
        cur.append(f"Eval vm_compute in (check_block {cstr(pre)} {n}%nat outs_{bi}).")
        cur_meta.append(("block", pre, n, lines))
        cur_size += len(strs)
        if cur_size >= 2400:
            flush()
    flush()
    for ci, (chunk, r) in enumerate(zip(case_chunks, results[len(blocks):])):
        lines = r.get("lines") if isinstance(r, dict) else None
        if not isinstance(lines, list) or len(lines) != len(chunk):
            raise Broken("tie T2: the real case converters could not be run on random identifiers", json.dumps(r)[:600])
        pairs = []
        for s, x in zip(chunk, lines):
            ln = line_of(x)
            if ln is None:
                ck.violation("a case converter raised or returned a non-string on an identifier",
                             {"input": s, "observed": x, "obligation": "tie T2 (converters)"}, found_input=True)
                ln = "? ? ? ? ?"
            pairs.append(f"({cstr(s)}, {cstr(ln)})")
        n_inputs += len(chunk)
        cur.append(f"Definition cases_{ci} : list (string * string) := [" + ";\n".join(pairs) + "].")
        cur.append(f"Eval vm_compute in (check_cases cases_{ci}).")
        cur_meta.append(("cases", chunk, lines))
        flush()
    outs = coq_eval_many(files, timeout=900)
    counts = [0] * 8
    n_known = 0
    known_sample: Optional[Dict[str, Any]] = None
    tie_bad: List[Dict[str, Any]] = []
    spec_bad: List[Dict[str, Any]] = []
    nontriv = 0
    sample = None
    for m_ in metas:
        for meta in m_:
            if meta[0] == "cases" and sample is None:
                sample = [{"input": s_, "real_outputs": o_} for s_, o_ in list(zip(meta[1], meta[2]))[-3:]]
    for path, fm in zip(files, metas):
        vals = eval_results(outs[path])
        if len(vals) != len(fm):
            raise Broken(f"case file {os.path.basename(path)}: {len(fm)} evaluations but {len(vals)} results",
                         outs[path][-1500:])
        for meta, v in zip(fm, vals):
            if meta[0] == "block":
                _, pre, n, lines = meta
                for k, c in enumerate(v["br_counts"]):
                    counts[k] += c
                nontriv += v["br_counts"][7]
                n_known += v["br_known"]
                if v["br_known_first"] and known_sample is None:
                    i = v["br_known_first"][0]
                    known_sample = {"input": block_input(pre, n, i), "observed": lines[i]}
                bad = [(block_input(pre, n, i), lines[i], code) for i, code in v["br_bad"]]
            else:
                _, chunk, lines = meta
                pairs, nt = v
                nontriv += nt
                bad = []
                for i, code in pairs:
                    if code & 3:
                        bad.append((chunk[i], lines[i], code))
                    elif code & 4:
                        n_known += 1
                        if known_sample is None:
                            known_sample = {"input": chunk[i], "observed": lines[i]}
            for s, obs, code in bad:
                rec = {"input": s, "observed": dict(zip(["snake_case", "pascal_case", "upper_case",
                                                         "snake_case(pascal_case)", "upper_case(snake_case)"],
                                                        obs if isinstance(obs, list) else [obs] * 5)), "code": code}
                if code & 2:
                    spec_bad.append(rec)
                if code & 1:
                    tie_bad.append(rec)
    for rec in spec_bad[:5]:
        ck.violation("a name of the style guide is not reproduced by the case converters "
                     "(identity / hump splitting / Go tag round trip)",
                     {**rec, "stage": "converters", "obligation": "theorems C15_*_identity, C15_go_field_and_tag"},
                     found_input=True)
    if tie_bad:
        ck.broken(Broken(f"tie T2: utils.snake_case/pascal_case/upper_case differ from the model on {len(tie_bad)} "
                         f"input(s), e.g. {tie_bad[0]['input']!r}", json.dumps(tie_bad[:5])[:2500]))
    if n_known and known_sample is not None:
        ck.violation("style-guide names with digits / adjacent one-letter words are renamed",
                     {**known_sample, "stage": "converters", "count": n_known}, found_input=True, key=KEY)
    return {"inputs": n_inputs, "blocks": len(blocks), "random": len(rnd), "counts": counts, "known": n_known,
            "tie_mismatches": len(tie_bad), "spec_mismatches": len(spec_bad), "nontrivial": nontriv,
            "files": len(files), "sample": sample}


# ------------------------------------------------------------------------------------------------
# T1/T2: generated code
# ------------------------------------------------------------------------------------------------

MODES = [("c", "LC", "false", ["ext_c_h", "ext_c_c"]), ("co", "LC", "true", ["ext_c_h", "ext_c_c"]),
         ("go", "LGo", "false", ["ext_go"]), ("py", "LPy", "false", ["ext_py"])]


def inherited_methods() -> List[str]:
    """Public methods bitprotolib.bp.MessageBase defines (read from its source text)."""
    import ast
    from vlib import REPO
    tree = ast.parse(open(os.path.join(REPO, "lib/py/bitprotolib/bp.py")).read())
    for n in tree.body:
        if isinstance(n, ast.ClassDef) and n.name == "MessageBase":
            return [m.name for m in n.body if isinstance(m, ast.FunctionDef) and not m.name.startswith("_")
                    and not m.name.startswith("bp_")]
    raise Broken("tie T1: class MessageBase not found in lib/py/bitprotolib/bp.py")


def observed_idents(key: str, o: Dict[str, Any], importable: bool = True,
                    inherited: Optional[List[str]] = None) -> List[np_.Ident]:
    """Identifiers declared in the generated text.  For Python also the public methods the message
    classes of the IMPORTED module really have (to_json / to_dict are inherited, not generated);
    when the module cannot be imported because of the C10 defect py-nested-import, the methods
    bp.MessageBase defines (from its source) stand in for every class deriving from it."""
    ids = np_.parse_mode(key, o["files"])
    if key == "py":
        seen = set(ids)
        if importable:
            if "runtime_methods" not in o:
                raise np_.T1Error("the generated module could not be imported: " + str(o.get("toolchain_error", "?")))
            extra = [("IMethod", cls, meth) for cls, meth in o["runtime_methods"]]
        else:
            msg_classes = sorted({x[1] for x in ids if x[0] == "IAttr" and x[2] == "BYTES_LENGTH"})
            extra = [("IMethod", cls, m) for cls in msg_classes for m in (inherited or [])]
        for x in extra:
            if x not in seen:
                seen.add(x)
                ids.append(x)
    return ids


def load_corpus() -> List[Dict[str, Any]]:
    out = []
    for p in sorted(glob.glob(os.path.join(VERIF, "corpus", "C15", "*.json"))):
        j = json.load(open(p))
        j["_path"] = p
        out.append(j)
    return out


def run_schemas(ck: Check, cases: List[Tuple[Dict[str, Any], str]]) -> Dict[str, Any]:
    jobs = [{"op": "compile", "dir": os.path.join(ck.dir, f"s{i}"), "files": c["files"], "main": c["main"],
             "py_importable": c.get("py_importable", True)} for i, (c, _) in enumerate(cases)]
    inherited = inherited_methods()
    results = run_workers("run_names.py", jobs, chunk=max(1, len(jobs) // 32))
    files: List[str] = []
    metas: List[List[Tuple[int, str]]] = []
    per = 12
    n_cmp = 0
    impl_fail = 0
    t1_fail = 0
    n_gcc = n_gcc_rejected = n_imported = 0
    for start in range(0, len(cases), per):
        body = [HEADER]
        meta: List[Tuple[int, str]] = []
        for i in range(start, min(start + per, len(cases))):
            c, origin = cases[i]
            r = results[i]
            if "out" not in r:
                impl_fail += 1
                ck.broken(Broken(f"tie T2: the compiler could not be run on schema {origin}", json.dumps(r)[:800]))
                continue
            body.append(f"Definition p_{i} : proton := {c['proton']}.")
            for key, lang, opt, exts in MODES:
                o = r["out"][key]
                if "error" in o:
                    impl_fail += 1
                    ck.broken(Broken(f"tie T2: the compiler failed on a style-guide schema ({origin}, {key}): "
                                     f"{o['error']}", json.dumps(c["files"])[:1500]))
                    continue
                try:
                    ids = observed_idents(key, o, c.get("py_importable", True), inherited)
                    if key == "py" and "runtime_methods" in o:
                        n_imported += 1
                except np_.T1Error as e:
                    t1_fail += 1
                    ck.broken(Broken(f"tie T1: cannot read the generated {key} code of schema {origin}: {e}",
                                     json.dumps(c["files"])[:1500]))
                    continue
                if key in ("c", "co"):
                    if "symbols" in o:
                        n_gcc += 1
                        text_funcs = sorted(x[2] for x in ids if x[0] == "IFunc")
                        if text_funcs != sorted(o["symbols"]):
                            t1_fail += 1
                            ck.broken(Broken(
                                f"tie T1: function names read from the generated {key} text of schema {origin} differ "
                                f"from the symbols gcc exports", json.dumps({"text": text_funcs, "nm": o["symbols"]})[:1500]))
                    else:
                        n_gcc_rejected += 1
                body.append(f"Definition obs_{i}_{key} : list ident := Eval vm_compute in "
                            f"(decode_idents {cstr(np_.encode_idents(ids))}).")
                listed = "[" + "; ".join("Str " + cstr(f) for f in o["listed"]) + "]"
                for ext in exts:
                    body.append(f"Eval vm_compute in (check_idents {lang} {opt} p_{i} obs_{i}_{key} "
                                f"(Str {cstr(c['basename'])}) (Str {cstr(c['stem'])}) {ext} {listed}).")
                    meta.append((i, key + ":" + ext))
                    n_cmp += 1
        path = os.path.join(ck.dir, f"idents_{start // per}.v")
        with open(path, "w") as f:
            f.write("\n".join(body) + "\n")
        files.append(path)
        metas.append(meta)
    outs = coq_eval_many(files, timeout=900)
    n_tie = n_spec = n_known = n_inclass = 0
    known_case = None
    for path, meta in zip(files, metas):
        vals = eval_results(outs[path])
        if len(vals) != len(meta):
            raise Broken(f"case file {os.path.basename(path)}: {len(meta)} evaluations but {len(vals)} results",
                         outs[path][-1500:])
        for (i, tag), v in zip(meta, vals):
            c, origin = cases[i]
            key = tag.split(":")[0]
            if v["ir_in_class"]:
                n_inclass += 1
            def mk_replay(i=i, c=c, tag=tag, origin=origin, key=key) -> Dict[str, Any]:
                return {"files": c["files"], "main": c["main"], "proton": c["proton"], "basename": c["basename"],
                        "stem": c["stem"], "prefix_documented": c.get("prefix_documented", True),
                        "mode": tag, "origin": origin, "stage": "generated code",
                        "observed_identifiers": [list(x) for x in
                                                 observed_idents(key, results[i]["out"][key],
                                                                 c.get("py_importable", True), inherited)][:400]}
            if v["ir_model_missing"] or v["ir_extra"] or not v["ir_file_model"]:
                n_tie += 1
                if n_tie <= 3:
                    obs = observed_idents(key, results[i]["out"][key], c.get("py_importable", True), inherited)
                    extra = [obs[k] for k in v["ir_extra"][:6] if k < len(obs)]
                    ck.broken(Broken(
                        f"tie T1/T2: identifiers declared in the generated {tag} code of schema {origin} differ from "
                        f"the model (model idents missing at {v['ir_model_missing'][:6]}, unpredicted declared "
                        f"{extra}, file name ok={v['ir_file_model']})", json.dumps(c["files"])[:2000]))
            prefix_documented = v["ir_prefix_spec"]
            if prefix_documented and (v["ir_spec_bad"] or not v["ir_file_spec"]):
                n_spec += 1
                if n_spec > 12:
                    continue
                ck.violation("a documented identifier is missing from the generated code (definition(s): "
                             + ", ".join(v["ir_spec_bad"][:6]) + ("" if v["ir_file_spec"] else "; output file name") + ")",
                             {**mk_replay(), "definitions": v["ir_spec_bad"], "file_name_ok": v["ir_file_spec"],
                              "listed_files": results[i]["out"][key]["listed"]}, found_input=True)
            if prefix_documented and v["ir_spec_known"]:
                n_known += 1
                if known_case is None:
                    known_case = {**mk_replay(), "definitions": v["ir_spec_known"]}
    if known_case is not None:
        ck.violation("style-guide names with digits / adjacent one-letter words are renamed in generated code",
                     known_case, found_input=True, key=KEY)
    return {"schemas": len(cases), "comparisons": n_cmp, "impl_failures": impl_fail, "t1_failures": t1_fail,
            "tie_mismatches": n_tie, "spec_mismatches": n_spec, "known_hits": n_known,
            "c_outputs_compiled_by_gcc_and_symbols_compared": n_gcc, "c_outputs_rejected_by_gcc": n_gcc_rejected,
            "python_modules_imported": n_imported,
            "comparisons_all_names_in_theorem_languages": n_inclass}


STREAMS_QUICK = (("main", 32), ("known", 8), ("odd-prefix", 4), ("prefix-shapes", 10), ("collide", 8))
STREAMS_THOROUGH = (("main", 340), ("known", 60), ("odd-prefix", 30), ("prefix-shapes", 90), ("collide", 70))


def gen_schema_cases(ck: Check, streams) -> List[Tuple[Dict[str, Any], str]]:
    """Streams: main (all names in the theorems' languages), known (digit names), odd-prefix
    (prefixes outside every class: model tie only), prefix-shapes (name prefixes sharing their
    leading characters with a message that has nested definitions 2-3 deep), collide (2-3 imports
    whose `as` names, proto names and file base names coincide pairwise)."""
    cases = []
    dist: Dict[str, int] = {}
    for stream, n in streams:
        for i in range(n):
            rng = random.Random(f"C15:{ck.seed}:{stream}:{i}")
            g = ng.SchemaGen(rng, stream=stream)
            s = g.schema()
            j = ng.to_json(s)
            cases.append((j, f"{stream}#{i}"))
            for k, v in s.stats().items():
                dist[k] = max(dist.get(k, 0), v) if k == "max_depth" else dist.get(k, 0) + v
            dist["schemas_" + stream] = dist.get("schemas_" + stream, 0) + 1
    ck.coverage["distribution"] = dist
    return cases


def run(ck: Check) -> None:
    ck.assumptions.extend(ASSUME)
    ck.coverage["trusted_base"] = ["Coq 8.16.1 kernel + vm_compute", "tools/translate_names.py (T0)",
                                   "tools/names_parse.py (T1)", "tools/run_names.py + CPython 3.12 (T2)",
                                   "no axioms (Print Assumptions: closed)"]
    import time
    t0 = time.time()
    ck.try_prove("C15.v", model_vo=("theories/NamesT2.vo",))
    ok, log = coq_build(["theories/NamesT2.vo"])
    if not ok:
        raise Broken("the executable naming model (Names.v / NamesT2.v) does not build", log[-2500:])

    t1 = time.time()
    corpus = load_corpus()
    if ck.replay_file:
        j = json.load(open(ck.replay_file))
        corpus = [j]
    corpus_inputs: List[str] = []
    cases: List[Tuple[Dict[str, Any], str]] = []
    for j in corpus:
        origin = "corpus:" + os.path.basename(j.get("_path", ck.replay_file or "?"))
        corpus_inputs += j.get("inputs", [])
        if "input" in j:
            corpus_inputs.append(j["input"])
        if "files" in j or "schema" in j:
            c = dict(j)
            if "schema" in j and "files" not in j:
                c["files"] = j["schema"]
            if "proton" in c:
                c.setdefault("basename", c["main"])
                c.setdefault("stem", c["main"].rsplit(".", 1)[0])
                cases.append((c, origin))
    n_corpus = len(cases)
    if ck.replay_file:
        conv = run_converters(ck, 0, 0, corpus_inputs)
        gen = run_schemas(ck, cases) if cases else {}
    else:
        conv = run_converters(ck, 5 if ck.quick else 7, ck.n(2000, 30000), corpus_inputs)
        t2 = time.time()
        cases += gen_schema_cases(ck, STREAMS_QUICK if ck.quick else STREAMS_THOROUGH)
        gen = run_schemas(ck, cases)
        ck.coverage["tie"]["timing_s"] = {"prove": round(t1 - t0, 1), "converters": round(t2 - t1, 1),
                                          "generated_code": round(time.time() - t2, 1)}

    cov = ck.coverage
    cov["evaluations"] = conv["inputs"] + gen.get("comparisons", 0)
    cov["distinct_nontrivial"] = conv["nontrivial"] + gen.get("comparisons", 0)
    cov["rule"] = ("converters: ALL strings of length <= %d over {a,b,A,B,1,_} (5 real outputs each: snake, pascal, "
                   "upper, snake(pascal), upper(snake)) + random identifiers (letters/digits/_/-; style-guide shaped "
                   "joins); non-trivial = the input lies in a style-guide language (is_pascal/is_lower_snake/"
                   "is_upper_snake/sg_*), measured in Coq.  generated code: (schema, language/mode, output file) "
                   "comparisons of declared identifiers, schemas from tools/names_gen.py (nesting depth <= 3, "
                   "imports with/without alias, option c.name_prefix on ~60%% of protos; streams main / known "
                   "(digit names) / odd-prefix / prefix-shapes (prefixes sharing leading characters with a message "
                   "that has nested definitions, in capitals / Capitalised / small letters, with and without the "
                   "final _) / collide (2-3 imports whose as-names, proto names and file base names coincide "
                   "pairwise))" % (5 if ck.quick else 7))
    cov["tie"] = {**cov.get("tie", {}), "converters": conv, "generated_code": gen, "corpus": n_corpus}
    cov["tie"]["T0"] = ("coq/gen/GenNames.v re-translated by tools/translate_names.py: 9 regex patterns -> character "
                        "classes, 3 case-style tables (18 entries), 30 literal templates/constants, 22 AST digests of "
                        "hand-modelled functions (coq/ref/skeletons_names.json)")
    cov["samples"] = []
    if cases:
        c0, origin = cases[min(n_corpus, len(cases) - 1)]
        cov["samples"].append({"origin": origin, "schema": c0["files"], "main": c0["main"],
                               "names_given_to_the_model": c0["proton"][:1500]})
    if conv.get("sample"):
        cov["samples"].append({"converter_cases": conv["sample"],
                               "order": ["snake_case", "pascal_case", "upper_case", "snake_case(pascal_case)",
                                         "upper_case(snake_case)"]})
