"""C13 — Constants evaluate arithmetically and reach every target language intact.

proof (coq/props/C13.v) + T0 (tools/translate_c13.py -> coq/gen/GenC13.v) + T2: generated
programs of constant declarations are compiled by the real compiler; the values the parser
computed, the literals the three renderers emitted and what CPython / gcc read back from them
are compared IN COQ with the token evaluator (model), `denote` (specification), the literal
formatters (model) and the per-language readers.  Go is never executed here (no toolchain):
for Go the reader model is the observer, which is stated in the evidence.
"""
from __future__ import annotations

import glob
import json
import os
from typing import Any, Dict, List, Optional, Tuple

import c13_gen as G
import pyside
import vlib
from vlib import Broken, Check

LEVEL = "proof"

HEADER = """From Coq Require Import ZArith List Bool String.
From BP Require Import ConstLit ConstExpr.
Import ListNotations.
Open Scope list_scope.
Open Scope Z_scope.
Definition optv_eqb (a : option cvalue) (b : cvalue) : bool :=
  match a with Some x => cvalue_eqb x b | None => false end.
Definition ropt_int (a : option Z) (b : rd) : bool := false.
Definition oz_eqb (a : option Z) (b : option Z) : bool :=
  match a, b with Some x, Some y => x =? y | None, None => true | _, _ => false end.
Definition ob_eqb (a : option bool) (b : option bool) : bool :=
  match a, b with Some x, Some y => Bool.eqb x y | None, None => true | _, _ => false end.
Definition file_res (fs : list (list stmt)) (k : nat) : res (env * list cvalue) :=
  nth k (run_files [] fs) (Err EBadImport).
Definition file_env (fs : list (list stmt)) (k : nat) : env :=
  match file_res fs k with Ok p => fst p | Err _ => [] end.
Definition file_uses (fs : list (list stmt)) (k : nat) : list cvalue :=
  match file_res fs k with Ok p => snd p | Err _ => [] end.
Definition file_err (fs : list (list stmt)) (k : nat) : Z :=
  match file_res fs k with Ok _ => 0 | Err e => err_code e end.
Definition den_code (r : res Z) : Z := match r with Ok _ => 0 | Err e => err_code e end.
Definition spec_lex_string (raw : text) : res cvalue :=
  match spec_unescape raw [] with
  | LexOk v => Ok (VStr v) | LexInvalidEscape => Err EInvalidEscape | LexIndexError => Err ECrashIndex end.
Definition spec_lex_bool (sp : text) : res cvalue :=
  match spec_bool sp with Some b => Ok (VBool b) | None => Err EGrammar end.
"""

LANGS = (("c", "LC"), ("go", "LGo"), ("py", "LPy"))
UNSAFE = {"c": {10, 13, 34, 92}, "go": {0, 10, 34, 92}, "py": {0, 10, 13, 34, 92}}
C_MAX = 2 ** 63 - 1

ASSUME = [
    "ply's regex tokenizer and LALR driver are not modelled: the evaluator stands for the automaton of the "
    "calculation_expression rules with conflicts resolved by Parser.precedence (tied by T2 on every run)",
    "CPython: int(text, base), `//` on ints, '{0}'.format(int) = decimal digits, str concatenation in the escape loop",
    "the C reader is ISO C string/integer literal syntax with gcc's choices (tied to gcc 12 by T2); the Python "
    "reader is CPython 3.12 lexical analysis with int_max_str_digits = 4300 (tied to ast.literal_eval by T2)",
    "Go is never executed in this sandbox (no Go toolchain): go_read_int / go_read_string follow the Go "
    "specification (integer literals, interpreted string literals, constant representability in int) and are not tied",
    "bytes >= 0x80 are passed through by every reader (well-formed UTF-8, no BOM)",
    "no length assumption: emit_const / format_str / the readers and C13_string_literal hold for strings of any "
    "length; the minimum translation limits of ISO C (509 characters per string literal in C90, 4095 in C99) are "
    "NOT modelled - gcc, CPython and the Go specification impose none - and are exercised by the long-strings "
    "catalogue (boundaries 255/256, 509/510, 1018, 4095 with every escape kind at every offset around them)",
    "hand-modelled control flow pinned by AST digests (coq/ref/skeletons_c13.json): t_STRING_LITERAL loop and regex, "
    "p_const, p_option_value, p_constant_reference*, _lookup_referenced_member, Formatter.format_value, "
    "Constant/Option.reflect_subclass_by_value, BlockBindConstant.constant_value",
]

ERR_CODE = {  # implementation exception class -> ConstExpr.err_code
    "GrammarError": 1, "ReferencedConstantNotDefined": 2, "CalculationExpressionError": 3,
    "ZeroDivisionError": 5, "DuplicatedDefinition": 7, "InvalidEscapingChar": 8, "IndexError": 9,
}


def impl_err_code(pe: Dict[str, Any]) -> int:
    cls = pe["cls"]
    if cls == "CalculationExpressionError" and "zero" in pe.get("msg", "").lower():
        return 4                                        # a diagnosed division by zero
    return ERR_CODE.get(cls, 99)


def load_corpus() -> List[Dict[str, Any]]:
    out = []
    for p in sorted(glob.glob(os.path.join(vlib.VERIF, "corpus", "C13", "*.json"))):
        j = json.load(open(p))
        j["_path"] = p
        out.append(j)
    return out


def main_file(prog) -> Dict[str, Any]:
    return prog["files"][-1]


def const_names(f) -> List[str]:
    return [s["name"] for s in f["stmts"] if s["k"] == "const"]


def make_job(ck: Check, i: int, prog) -> Dict[str, Any]:
    files = G.program_files(prog)
    order = [f["name"] + ".bitproto" for f in prog["files"]]
    return dict(id=i, dir=os.path.join(ck.dir, f"p{i}"), files=files, order=order, main=order[-1],
                consts=const_names(main_file(prog)), kinds={}, c_whole=[], c_slices=[])


def expected_kinds(prog) -> Dict[str, str]:
    """kind of each constant of the main file as far as the generator knows (references resolved)"""
    per_file: List[Dict[str, str]] = []
    for f in prog["files"]:
        kinds: Dict[str, str] = {}
        for s in f["stmts"]:
            if s["k"] == "import":
                for k, v in per_file[s["file"]].items():
                    if "." not in k:
                        kinds[f"{s['alias']}.{k}"] = v
            elif s["k"] == "const":
                r = s["rhs"]
                k = {"calc": "int", "toks": "int", "bool": "bool", "str": "str"}.get(r["k"])
                if k is None:
                    k = kinds.get(r["ref"], "int")
                kinds[s["name"]] = k
        per_file.append(kinds)
    return {k: v for k, v in per_file[-1].items() if "." not in k}


def run(ck: Check) -> None:
    ck.assumptions.extend(ASSUME)
    ck.coverage["trusted_base"] = ["Coq 8.16.1 kernel + vm_compute", "tools/translate_c13.py (fail-closed)",
                                   "tools/run_c13.py + CPython 3.12 + gcc 12", "tools/c13_gen.py (generator; its "
                                   "pretty-printer is compared with Coq's on every minimal case)",
                                   "no axioms (Print Assumptions: closed)"]
    import time
    t0 = time.time()
    ck.try_prove("C13.v", model_vo=("theories/ConstExpr.vo",))
    timings = {"prove_s": round(time.time() - t0, 1)}
    if any("translat" in b["what"] for b in ck.broken_obligations):
        # the source no longer translates: the LAST ACCEPTED translation (coq/ref/GenC13.v) stands in
        # for the model while the implementation is searched for a concrete failing input
        import shutil
        shutil.copy(os.path.join(vlib.COQ, "ref", "GenC13.v"), os.path.join(vlib.COQ, "gen", "GenC13.v"))
        ok, log = vlib.coq_build(["theories/ConstExpr.vo"])
        ck.model_ok = ok
        ck.coverage["tie"]["model_from_reference_translation"] = True

    rng = ck.rng
    progs: List[Dict[str, Any]] = []
    origins: List[str] = []
    for j in load_corpus():
        progs.append(j["program"])
        origins.append("corpus:" + os.path.basename(j["_path"]))
    n_corpus = len(progs)
    if ck.replay_file:
        j = json.load(open(ck.replay_file))
        if "program" in j:
            progs.append(j["program"])
            origins.append("replay:" + os.path.basename(ck.replay_file))
    n_main, n_str, n_dz, n_err = (ck.n(60, 1200), ck.n(20, 300), ck.n(6, 80), ck.n(10, 120))
    k = 0
    for _ in range(n_main):
        progs.append(G.gen_main_program(rng, k)); origins.append(f"gen#{k}"); k += 1
    for _ in range(n_str):
        progs.append(G.gen_string_program(rng, k)); origins.append(f"hard-strings#{k}"); k += 1
    sweep = G.escape_sweep_programs(k)
    if ck.quick:
        sweep = rng.sample(sweep, 2)
    for sp in sweep:
        progs.append(sp); origins.append(f"escape-sweep#{k}"); k += 1
    for lp in G.long_string_programs(k, ck.quick):
        progs.append(lp); origins.append(f"long-strings#{k}"); k += 1
    for _ in range(n_dz):
        progs.append(G.gen_divzero_program(rng, k)); origins.append(f"zero-divisor#{k}"); k += 1
    for _ in range(n_err):
        progs.append(G.gen_error_program(rng, k)); origins.append(f"error#{k}"); k += 1

    # ---- pass 1: run the compiler --------------------------------------------------------------
    jobs = []
    for i, prog in enumerate(progs):
        job = make_job(ck, i, prog)
        kinds = expected_kinds(prog)
        job["kinds"] = kinds
        jobs.append(job)
    # which constants gcc should print: every boolean and string of main-stream programs, integers
    # inside the C range (the range is the theorem's hypothesis); strings of the hard-strings
    # stream are compiled one by one because a broken literal breaks the whole header
    for job, prog in zip(jobs, progs):
        stream = prog.get("stream", "main")
        names = job["consts"]
        kinds = job["kinds"]
        if stream == "main":
            job["c_whole"] = "auto"      # the worker prints every constant whose PARSED value fits the C range
        elif stream == "str-inside":
            job["c_whole"] = []
            job["c_slices"] = [n for n in names if kinds.get(n) == "str"]
        else:
            job["c_whole"] = []
    t0 = time.time()
    results = vlib.run_workers("run_c13.py", jobs, chunk=max(2, len(jobs) // 32), timeout=900)
    timings["implementation_s"] = round(time.time() - t0, 1)

    # ---- pass 2: Coq case files ------------------------------------------------------------------
    sh = pyside.Shards(ck, "c13", per_shard=ck.n(9, 24))
    deferred: List[Tuple[str, Dict[str, Any]]] = []
    stats: Dict[str, int] = {}
    samples: List[Any] = []
    distinct = set()
    n_eval = 0
    go_cases = 0

    def bump(key: str, n: int = 1) -> None:
        stats[key] = stats.get(key, 0) + n

    for i, (prog, origin, r) in enumerate(zip(progs, origins, results)):
        stream = prog.get("stream", "main")
        texts = G.program_files(prog)
        if "worker_error" in r:
            ck.violation("the compiler could not be run on a generated program: " + r["worker_error"][:200],
                         {"program": prog, "files": texts, "origin": origin, "error": r["worker_error"]},
                         found_input=True)
            continue
        nfiles = len(prog["files"])
        last = nfiles - 1
        defs = [f"Definition fs_{i} : list (list stmt) := [" +
                "; ".join(G.coq_stmts(f) for f in prog["files"]) + "]."]
        exprs: List[str] = []
        metas: List[Any] = []
        mf = main_file(prog)

        if "parse_error" in r:
            # the implementation stopped: model outcome vs implementation outcome, and the
            # specification's verdict when the failing constant has a tree
            pe = r["parse_error"]
            code = impl_err_code(pe)
            bump("outcome:" + pe["cls"])
            if not stream.startswith(("error", "divzero")):
                # a program of the valid stream: the specification accepts it (Coq confirms below
                # that the model does, or the tie is reported)
                # registered after the value comparisons, so that the (minimal) corpus cases lead the report
                deferred.append((f"the compiler {'rejected' if pe.get('parser_error') else 'crashed on'} a valid program of "
                                 f"constant declarations: {pe['cls']}: {pe.get('msg', '')[:160]}",
                                 {"program": prog, "files": texts, "origin": origin, "implementation_outcome": pe}))
                exprs.append(f"(if file_err fs_{i} {last}%nat =? {code} then 0 else 1)")
                metas.append((i, "outcome", None, None))
                sh.add("\n".join(defs), exprs, metas)
                continue
            exprs.append(f"(if file_err fs_{i} {last}%nat =? {code} then 0 else 1)")
            metas.append((i, "outcome", None, None))
            st = [s for s in mf["stmts"] if s["k"] == "const"][-1]
            if st["rhs"]["k"] == "calc":
                # environment for denote: the constants declared before, evaluated by the model of
                # the same run (they are integer literals in these streams)
                before = [G.coq_stmts(f) for f in prog["files"][:-1]] + [G.coq_stmts({"stmts": mf["stmts"][:-1]})]
                envterm = f"(file_env [{'; '.join(before)}] {last}%nat)"
                exprs.append(f"(if den_code (denote {G.coq_expr(st['rhs']['expr'])} {envterm}) =? {code} then 0 else 2)")
                metas.append((i, "outcome-spec", st["name"], None))
                n_eval += 1
                distinct.add(("err", json.dumps(st["rhs"]["expr"])))
            sh.add("\n".join(defs), exprs, metas)
            continue

        if stream.startswith(("error", "divzero")):
            # the implementation accepted a program the generator meant to be rejected
            exprs.append(f"(if file_err fs_{i} {last}%nat =? 0 then 0 else 1)")
            metas.append((i, "outcome", None, None))

        # observed environment (values the real parser computed), dependencies first
        obs_by_file = []
        for fi, f in enumerate(prog["files"]):
            ent = r["consts"].get(f["name"] + ".bitproto", [])
            obs_by_file.append(ent)
            defs.append(f"Definition obs_{i}_{fi} : env := [" +
                        "; ".join(f"({G.cstr(nm)}, {G.coq_value(kd, v)})" for nm, kd, v in ent) + "].")
        imports = [(s["alias"], s["file"]) for s in mf["stmts"] if s["k"] == "import"]
        obsenv = f"(obs_{i}_{last}" + "".join(f" ++ prefix_env {G.cstr(a)} obs_{i}_{fj}" for a, fj in imports) + ")"
        defs.append(f"Definition obsenv_{i} : env := {obsenv}.")
        # tie, whole files: every constant of every file
        for fi in range(nfiles):
            exprs.append(f"(if env_eqb (file_env fs_{i} {fi}%nat) obs_{i}_{fi} then 0 else 1)")
            metas.append((i, "file-env", fi, None))
        # uses: option values and capacities in source order
        obs_uses = []
        spec_uses = []
        umap = {u["message"]: u for u in r.get("uses", [])}
        for s in mf["stmts"]:
            if s["k"] != "message":
                continue
            u = umap.get(s["name"], {"options": [], "caps": []})
            if s.get("opt") is not None:
                ov = [v for (nm, v) in u["options"] if nm == "max_bytes"]
                obs_uses.append(G.coq_value(ov[0][0], ov[0][1]) if ov else "(VStr [])")
                spec_uses.append(s["opt"])
            caps = dict((nm, v) for nm, v in u["caps"])
            for fld in s["fields"]:
                obs_uses.append(G.coq_value("int", caps.get(fld["name"], "-1")))
                spec_uses.append(fld["cap"])
        if obs_uses:
            defs.append(f"Definition obsuses_{i} : list cvalue := [{'; '.join(obs_uses)}].")
            exprs.append(f"(if values_eqb (file_uses fs_{i} {last}%nat) obsuses_{i} then 0 else 1)")
            metas.append((i, "uses-tie", None, None))
            # specification: a use IS the value of the constant it names (or of the literal)
            sp = []
            for u in spec_uses:
                if "ref" in u:
                    sp.append(f"match lookup {G.cstr(u['ref'])} obsenv_{i} with Some v => v | None => VStr [] end")
                else:
                    sp.append(f"VInt {int(u['int'])}")
            exprs.append(f"(if values_eqb [{'; '.join(sp)}] obsuses_{i} then 0 else 2)")
            metas.append((i, "uses-spec", None, None))
            bump("uses", len(obs_uses))
            n_eval += len(obs_uses)

        obs_main = {nm: (kd, v) for nm, kd, v in obs_by_file[last]}
        for s in mf["stmts"]:
            if s["k"] != "const":
                continue
            nm = s["name"]
            if nm not in obs_main:
                continue
            kd, v = obs_main[nm]
            cv = G.coq_value(kd, v)
            rhs = s["rhs"]
            if rhs["k"] == "calc":
                e = G.coq_expr(rhs["expr"])
                toks = G.coq_tokens(rhs["toks"])
                # bit0 model(eval_tokens on the printed tokens) vs implementation; bit1 denote vs implementation;
                # bit2 the generator's minimal printing is Coq's pretty
                x = (f"((if resv_eqb (bind (eval_tokens obsenv_{i} {toks}) (fun z => Ok (VInt z))) (Ok {cv}) then 0 else 1) + "
                     f"(if resv_eqb (bind (denote {e} obsenv_{i}) (fun z => Ok (VInt z))) (Ok {cv}) then 0 else 2)")
                if rhs.get("minimal"):
                    x += f" + (if tokens_eqb (pretty {e}) {toks} then 0 else 4)"
                x += ")"
                exprs.append(x)
                metas.append((i, "calc", nm, None))
                n_eval += 1
                bump("calc:minimal" if rhs.get("minimal") else "calc:redundant")
                bump(f"depth:{G.depth(rhs['expr'])}")
                if G.count_nodes(rhs["expr"]) > 1:
                    distinct.add(("calc", json.dumps(rhs["expr"]), rhs["text"]))
            elif rhs["k"] == "str":
                raw = G.ccodes(rhs["raw"])
                # bit0: the escape-loop model on the source spelling = the parsed value
                exprs.append(f"((if resv_eqb (lex_string {raw}) (Ok {cv}) then 0 else 1) + "
                             f"(if resv_eqb (spec_lex_string {raw}) (Ok {cv}) then 0 else 2))")
                metas.append((i, "str-lex", nm, None))
                n_eval += 1
                distinct.add(("str", bytes(rhs["raw"]).hex()))
                bump("strings")

            elif rhs["k"] == "bool":
                sp = G.ccodes(rhs["spelling"].encode())
                exprs.append(f"((if resv_eqb (lex_bool {sp}) (Ok {cv}) then 0 else 1) + "
                             f"(if resv_eqb (spec_lex_bool {sp}) (Ok {cv}) then 0 else 2))")
                metas.append((i, "bool-lex", nm, None))
                n_eval += 1
                bump("bools")
            elif rhs["k"] == "ref":
                # specification: `const X = Y` gives X the value of Y
                exprs.append(f"(if optv_eqb (lookup {G.cstr(rhs['ref'])} obsenv_{i}) {cv} then 0 else 2)")
                metas.append((i, "ref", nm, None))
                n_eval += 1
                bump("lone-references")

            # ---- emission and read-back, per language ---------------------------------------
            defs.append(f"Definition cv_{i}_{nm} : cvalue := {cv}.")
            cv = f"cv_{i}_{nm}"
            lit_defs: Dict[bytes, str] = {}
            for lang, L in LANGS:
                em = r.get("emit", {}).get(lang, {}).get(nm)
                if em is None:
                    why = (r.get("render_error", {}).get(lang) or r.get("slice_error", {}).get(lang) or "no output")
                    ck.violation(f"constant {nm} could not be found in the emitted {lang} file: {why}",
                                 {"program": prog, "files": texts, "origin": origin, "constant": nm, "language": lang,
                                  "error": why}, found_input=True)
                    continue
                line = em["line"]
                lit = line[em["lit_at"]:]
                key_l = bytes(lit)
                if key_l not in lit_defs:                      # the three literals are usually identical: one term
                    lit_defs[key_l] = f"lt_{i}_{nm}_{lang}"
                    defs.append(f"Definition lt_{i}_{nm}_{lang} : text := {G.ccodes(lit)}.")
                ltname = lit_defs[key_l]
                lnterm = f"({G.ccodes(line[:em['lit_at']])} ++ {ltname})"
                terms = [f"(if text_eqb (emit_const {L} {G.ccodes(nm.encode())} {cv}) {lnterm} then 0 else 8)"]
                observed = None
                if lang == "py":
                    src = "py_whole" if stream == "main" else "py_slices"
                    if src == "py_whole" and "py_whole_error" in r:
                        observed = ["error", r["py_whole_error"]]
                    else:
                        observed = r.get(src, {}).get(nm, ["error", "missing"])
                elif lang == "c":
                    in_c_range = kd != "int" or abs(int(v)) <= C_MAX
                    if jobs[i]["c_whole"] == "auto" and in_c_range:
                        w = r.get("c_whole", {})
                        observed = w["values"].get(nm, ["error", "missing"]) if "values" in w else ["error", w.get("error", "?")]
                    elif nm in (jobs[i]["c_slices"] or []):
                        observed = r.get("c_slices", {}).get(nm, ["error", "missing"])
                reader, expect = _reader_terms(kd, L, ltname, cv, v)
                if observed is not None:
                    ob = _observed_term(kd, observed)
                    if ob is not None:
                        # bit 16: reader model vs the real language; bit 32: real language vs declared value
                        terms.append(f"(if {_eq(kd)} {reader} {ob} then 0 else "
                                     f"(if {_unmodelled(kd, reader)} then 0 else 16))")
                        terms.append(f"(if {_eq(kd)} {ob} {expect} then 0 else 32)")
                        terms.append(f"(if {_unmodelled(kd, reader)} then 64 else 0)")
                    bump(f"readback:{lang}")
                else:
                    # no execution (Go; C integers outside the C range): the reader model is the observer
                    if lang == "go" and kd == "int" and not (-2 ** 63 <= int(v) < 2 ** 63):
                        bump("skipped:go-int-out-of-range")
                    elif lang == "go":
                        terms.append(f"(if {_eq(kd)} {reader} {expect} then 0 else "
                                     f"(if {_unmodelled(kd, reader)} then 64 else 32))")
                        go_cases += 1
                        bump("readback:go(model only)")
                    else:
                        bump("skipped:c-int-out-of-range")
                exprs.append("(" + " + ".join(terms) + ")")
                metas.append((i, "emit", nm, lang))
                n_eval += 1
        sh.add("\n".join(defs), exprs, metas)
        if len(samples) < 2 and stream == "main":
            samples.append({"files": texts, "parsed_constants": r["consts"], "uses": r.get("uses"), "origin": origin})
        elif stream != "main" and len(samples) < 4 and not any(x.get("stream") == stream for x in samples):
            samples.append({"stream": stream, "files": texts,
                            "outcome": r.get("parse_error", {}).get("cls", "accepted"), "origin": origin})

    t0 = time.time()
    out = sh.run(header=HEADER) if ck.model_ok else []
    timings["coq_cases_s"] = round(time.time() - t0, 1)
    if not ck.model_ok:
        ck.broken(Broken("the executable model (theories/ConstExpr.vo) could not be built", ""))

    # ---- pass 3: decode ------------------------------------------------------------------------
    counts: Dict[str, int] = {}
    tie_bad = spec_bad = 0
    unmodelled = 0
    for (i, kind, nm, lang), code in out:
        counts[f"{kind}:{code}"] = counts.get(f"{kind}:{code}", 0) + 1
        if code & 64:
            unmodelled += 1
            code &= ~64
        if code == 0:
            continue
        prog, origin, r = progs[i], origins[i], results[i]
        texts = G.program_files(prog)
        base = {"program": prog, "files": texts, "origin": origin, "constant": nm, "language": lang, "check": kind}
        if kind == "emit":
            em = r["emit"][lang][nm]
            base["emitted"] = bytes(em["line"]).decode("utf-8", "replace")
            base["declared_value"] = _decl(r, prog, nm)
            base["read_back"] = {"py": r.get("py_whole", {}).get(nm) or r.get("py_slices", {}).get(nm)
                                       or r.get("py_whole_error"),
                                 "c": (r.get("c_whole", {}).get("values", {}) or {}).get(nm)
                                      or r.get("c_slices", {}).get(nm) or r.get("c_whole", {}).get("error")}
        if kind in ("outcome", "outcome-spec"):
            base["implementation_outcome"] = r.get("parse_error", {"cls": "accepted"})
        if code & 4:
            tie_bad += 1
            ck.broken(Broken(f"generator: the minimal printing of {nm} ({origin}) is not Coq's pretty", texts[list(texts)[-1]][:800]))
        if code & 1:
            tie_bad += 1
            what = {"outcome": "outcome (accepted / error class) of the whole program",
                    "bool-lex": f"value of boolean constant {nm}",
                    "file-env": f"constant values of file #{nm}", "uses-tie": "array capacities / option values",
                    "calc": f"value of constant {nm}", "str-lex": f"escape decoding of string constant {nm}"}.get(kind, kind)
            ck.broken(Broken(f"tie T2: the model (ConstExpr) and the real parser disagree on the {what} ({origin})",
                             json.dumps({"files": texts, "implementation": r.get("consts") or r.get("parse_error")})[:2500]))
        if code & 8:
            tie_bad += 1
            ck.broken(Broken(f"tie T1: the emitted {lang} line of constant {nm} is not the model's emit_const ({origin})",
                             json.dumps({"emitted": base.get("emitted"), "value": base.get("declared_value")})[:1500]))
        if code & 16:
            tie_bad += 1
            ck.broken(Broken(f"tie T2: the {lang} literal reader model and the real language disagree on constant {nm} ({origin})",
                             json.dumps({"emitted": base.get("emitted"), "read_back": base.get("read_back")})[:1500]))
        if code & 2:
            spec_bad += 1
            key = None
            if kind == "outcome-spec" and r.get("parse_error", {}).get("cls") == "ZeroDivisionError":
                key = "div-zero"
                what = (f"constant {nm}: the expression divides by zero and the compiler crashes with a Python "
                        f"ZeroDivisionError instead of a diagnosis")
            elif kind == "outcome-spec":
                what = f"constant {nm}: the parser's outcome differs from the specified one"
            elif kind == "uses-spec":
                what = "an array capacity or option value is not the value of the constant it names"
            elif kind == "str-lex":
                what = f"string constant {nm}: the parsed value is not what the escapes in the source denote"
            elif kind == "bool-lex":
                what = f"boolean constant {nm}: the parsed value is not what the spelling means"
            elif kind == "ref":
                what = f"constant {nm} = <reference>: the parsed value is not the value of the referenced constant"
            else:
                what = f"constant {nm}: the value computed by the parser is not the arithmetic value of the expression"
            ck.violation(what, base, found_input=True, key=key)
        if code & 32:
            spec_bad += 1
            kd, v = _decl(r, prog, nm)
            key = None
            if kd == "str" and any(c in UNSAFE[lang] for c in v):
                key = "str-escape"
            ck.violation(f"constant {nm}: the literal emitted into {lang} does not denote the declared value",
                         base, found_input=True, key=key)

    for what, replay in deferred:
        ck.violation(what, replay, found_input=True)

    cov = ck.coverage
    cov["evaluations"] = n_eval
    cov["distinct_nontrivial"] = len(distinct)
    cov["rule"] = ("programs from tools/c13_gen.py: an imported library file + a main file with 4-9 constants "
                   "(integer expression trees of depth <= 6 over decimal/hex literals of magnitudes 0..2^90 and "
                   "references to earlier constants incl. alias.NAME across the import; in 60% of the programs the main file "
                   "re-declares names of the imported file with other values after the imported file used its own, in 40% a "
                   "third file is imported by the library under the same alias the main file uses for the library; printed either with Coq's "
                   "minimal parentheses or with redundant parentheses / leading zeros / mixed-case hex / irregular "
                   "blanks and tabs; booleans in all four spellings; strings over printable ASCII, tab, quote ', "
                   "control characters, UTF-8; lone references `const X = Y`), a message whose max_bytes option and "
                   "uint8[CONST] capacities name constants; half of the strings of the main stream and all of the "
                   "hard-strings / escape-sweep streams contain \" \\ LF CR NUL and escape-looking sequences (the class of "
                   "the fixed finding str-escape: read back one by one as well as through the whole module/header); "
                   "a boundary catalogue of LONG strings (plain strings of length 254..256, 508..510, 1017..1019, 4095 and, for "
                   "each escape kind - quote, backslash, LF, control characters written in octal, DEL, NUL; thorough: also "
                   "TAB, CR, 0x1f - a string whose escape starts at each escaped offset -4..+1 around 255, 509, 1018, 4095, "
                   "and strings ending with an escape exactly on the boundary; quick tier thins the grid at 1018/4095) plus "
                   "random long strings (runs of letters with escapes, escaped length steered to multiples of 509 +-3) in "
                   "half of the hard-strings programs, all read back by gcc, CPython and the Go reader model; "
                   "expressions with a zero divisor (class of the fixed finding div-zero: must be the diagnosed error) and "
                   "other diagnosed errors (undefined / non-integer reference, duplicate, bad escape, syntax). One evaluation = "
                   "one compared item (constant value, use, emitted literal x language); distinct_nontrivial = distinct "
                   "(expression tree, source text) pairs with at least one operator + distinct string spellings")
    cov["samples"] = samples
    cov["tie"] = {**cov.get("tie", {}), "programs": len(progs), "corpus": n_corpus, "codes": counts,
                  "tie_mismatches": tie_bad, "spec_mismatches": spec_bad,
                  "reader_unmodelled_cases": unmodelled, "timings": timings,
                  "go": f"{go_cases} literals checked with the Go reader MODEL only (no Go toolchain in the sandbox)"}
    cov["distribution"] = stats


# ---- helpers --------------------------------------------------------------------------------------

def _decl(r, prog, nm) -> Tuple[str, Any]:
    for n2, kd, v in r["consts"].get(main_file(prog)["name"] + ".bitproto", []):
        if n2 == nm:
            return kd, v
    return "?", None


def _eq(kd: str) -> str:
    return {"int": "oz_eqb", "bool": "ob_eqb", "str": "rd_eqb"}[kd]


def _reader_terms(kd: str, L: str, lit: str, cv: str, v: Any) -> Tuple[str, str]:
    if kd == "int":
        z = int(v)
        return f"(read_int {L} {lit})", f"(Some ({z}))"
    if kd == "bool":
        return f"(read_bool {L} {lit})", f"(Some {'true' if v else 'false'})"
    return f"(read_string {L} {lit})", f"(match {cv} with VStr s => RdOk s | _ => RdErr end)"


def _unmodelled(kd: str, reader: str) -> str:
    if kd == "str":
        return f"rd_eqb {reader} RdUnmodelled"
    return "false"


def _observed_term(kd: str, ob) -> Optional[str]:
    tag = ob[0]
    if tag == "multi":                                   # more than one statement: outside the reader model
        return "RdUnmodelled" if kd == "str" else "None"
    if kd == "int":
        return f"(Some ({int(ob[1])}))" if tag == "int" else "None"
    if kd == "bool":
        return f"(Some {'true' if ob[1] else 'false'})" if tag == "bool" else "None"
    if tag == "str":
        return f"(RdOk {G.ccodes(ob[1])})"
    return "RdErr"
