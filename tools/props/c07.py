"""C07 — encoding touches exactly its bytes, and each field exactly its bits.
C half (C runtime, generated C, size constants of the three emitters): tools/cside.py;
Python half (out-of-range integers, buffer length, decode in bounds): tools/c07_py.py."""
import cside
import pywire
from c07_py import run_py_half

LEVEL = "proof"


def run_c_half(ck):
    return cside.run_c07_c_half(ck)


def run(ck):
    import cboundary
    cboundary.install(ck, big=False, junk=2)    # deterministic edge catalogue with overdriven storage
    parts = run_c_half(ck)            # proves props/C07.v (both halves) and runs the C ties
    cside.fill_coverage(ck, parts, getattr(ck, "_c07_items", []), cside.RULE)
    ck.assumptions.extend(a for a in pywire.ASSUME if a not in ck.assumptions)
    ck.coverage["rule"] = (ck.coverage.get("rule") or "") + (
        " | Python half: generated schemas x values whose integer leaves are out of range (too large, negative for "
        "unsigned, huge) paired with the in-range value of the same low bits")
    run_py_half(ck)
    # optimization mode: every emitted -O statement against the plan whose single-field theorem is
    # stated for every object content (C04_single_field_enc); -O code executed incl. negative /
    # all-ones values whose bits above the declared width must not leak
    from opstage import opmode_stage
    opmode_stage(ck, "C07.v", (25, 20, 4), (400, 800, 6), "opmode_containment")
