"""C07 — encoding touches exactly its bytes, each field exactly its bits."""
import pywire
from c07_py import run_py_half

LEVEL = "proof"


def run(ck):
    ck.assumptions.extend(pywire.ASSUME)
    ck.coverage["trusted_base"] = ["Coq 8.16.1 kernel + vm_compute", "tools/translate.py", "tools/run_py.py + CPython 3.12",
                                   "no axioms (Print Assumptions: closed)"]
    ck.coverage["rule"] = ("generated schemas x values whose integer leaves are out of range (too large, negative for unsigned, "
                           "huge) paired with the in-range value of the same low bits; distinct = distinct (schema, value)")
    ck.try_prove("C07.v")
    run_py_half(ck)
    try:
        from c07_c import run_c_half      # provided by the C runtime module when merged
    except ImportError:
        run_c_half = None
    if run_c_half:
        run_c_half(ck)
