"""C07 — encoding touches exactly its bytes, and each field exactly its bits.
run_c_half: the C runtime / generated C part and the size constants of the three emitters.
(The Python half is added by the main session.)"""
import cside

LEVEL = "proof"


def run_c_half(ck):
    return cside.run_c07_c_half(ck)


def run(ck):
    parts = run_c_half(ck)
    cside.fill_coverage(ck, parts, getattr(ck, "_c07_items", []), cside.RULE)
