"""C04 — optimization mode (-O) changes how, never what, is encoded (C and Go):
proof over the statement generator (coq/props/C04.v) + T0 (translate_opmode) + T1 (every emitted
statement vs the plan) + T2 (gcc-built -O code, four build configurations)."""
import opwire

LEVEL = "proof"


def run(ck):
    opwire.run_opmode(ck, "C04.v")
