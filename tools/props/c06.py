"""C06 — the wire is little-endian whatever the host byte order.
Runtime half: the BP_BIG_ENDIAN paths of lib/c/bitproto.c (theorem at (B,E)=(BE,BE), tie at (BE,LE)).
Optimization-mode half: the value-based big-endian branch of -O output (theorems C04_c_be_*,
C04_endian_select re-stated in props/C06.v); executed through the C04 harness under
--endian big and --endian both with -DBP_BIG_ENDIAN (and little / default for comparison)."""
import cside
from opstage import opmode_stage

LEVEL = "proof"


def run(ck):
    cside.run_c06(ck)
    opmode_stage(ck, "C06.v", (25, 15, 3), (400, 600, 5), "opmode_big_endian_branch")
