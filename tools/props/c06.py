"""C06 — the wire is little-endian whatever the host byte order (runtime half: the
BP_BIG_ENDIAN paths of lib/c/bitproto.c; theorem at (B,E)=(BE,BE), tie at (BE,LE))."""
import cside

LEVEL = "proof"


def run(ck):
    cside.run_c06(ck)
