"""C17 — -O and -F restrict what is generated without altering it.

proof:  props/C17.v over Main.v + gen/GenCli.v (T0: _main.main -> decide, traditional-mode
        plumbing, renderer registry / support table, every optimization-mode dispatcher).
T2:     the real command line on generated file sets: all subsets of the message names x
        {c, go, py} x {-O absent / present} x --endian values; exit status, diagnostic class,
        cited position, which functions each output file contains (compared in Coq with the
        model AND with the property's own reading), and textual identity of function bodies
        and declarations between invocations (compared here)."""
from __future__ import annotations

import itertools
import os
import random
from typing import Any, Dict, List, Optional, Tuple

import cli_gen as cg
import cliside as cs
import pyside
from vlib import Broken, Check, run_workers

LEVEL = "proof"
ENDIANS = [None, "both", "little", "big"]
ROOT = "root.bitproto"


def gen_schema(ck: Check, i: int, stream: str) -> cg.Schema:
    for attempt in range(50):
        rng = random.Random(f"{ck.prop}:{ck.seed}:{stream}:{i}:{attempt}")
        if stream == "valid":
            p = cg.Params(n_imports=i % 3, nested_import=(i % 4 == 1), max_msgs=3, max_nested=2,
                          dup_simple_names=(i % 2 == 0), perturb=0.0, markers=0.0)
        elif stream == "marker_import":
            p = cg.Params(n_imports=1 + i % 2, nested_import=(i % 2 == 0), markers=0.0, markers_import=0.25, max_msgs=2)
        else:  # marker anywhere
            p = cg.Params(n_imports=i % 2, nested_import=False, markers=0.2, markers_import=0.1, max_msgs=2)
        s = cg.Gen(rng, p).schema()
        names = {d.name for d in s.root_messages()}
        if len(names) > 5:
            continue
        if stream == "marker_import" and not (s.any_marker() and not any(f[0] == "flag" and f[1] for f in s.files[0].flags)):
            continue
        if stream == "marker" and not s.any_marker():
            continue
        return s
    raise Broken("C17 generator could not produce a schema for stream " + stream)


def decorate(rng: random.Random, subset: Tuple[str, ...], others: List[str]) -> str:
    parts = list(subset)
    r = rng.random()
    if r < 0.15:
        parts.append(rng.choice(["Nope", "nope", ""] + others))
    elif r < 0.25 and parts:
        parts.append(parts[0])
    rng.shuffle(parts)
    sep = rng.choice([",", ",", ", ", " ,"])
    s = sep.join(parts)
    if rng.random() < 0.15:
        s = " " + s + " "
    return s


def plan(ck: Check, s: cg.Schema, idx: int, full: bool) -> List[Dict[str, Any]]:
    rng = random.Random(f"{ck.prop}:{ck.seed}:plan:{idx}")
    runs: List[Dict[str, Any]] = []

    def add(lang, O=False, F=None, endian=None, check=False, quiet=False):
        runs.append(dict(lang=lang, O=O, F=F, endian=endian, check=check, quiet=quiet))

    names = sorted({d.name for d in s.root_messages()})
    others = [d.name for d in s.files[0].defs if d.kind in ("enum", "alias")][:2]
    if s.any_marker():
        for lang in ("c", "go", "py"):
            add(lang, O=True, endian=rng.choice(ENDIANS))
            add(lang, O=False)
        add("c", O=True, F=names[0] if names else "X")
        add(None, O=True, check=True)
        add("go", O=True, check=True, quiet=True)
        return runs
    # baselines: every language x -O x endian
    for lang in ("c", "go", "py"):
        for O in (False, True):
            for e in (ENDIANS if (O or full) else [None, rng.choice(ENDIANS[1:])]):
                add(lang, O=O, endian=e)
    add(None)                       # no language
    add(None, O=True, check=True)   # check mode never renders
    subsets = [c for k in range(0, len(names) + 1) for c in itertools.combinations(names, k)]
    for j, sub in enumerate(subsets):
        raw = decorate(rng, sub, others) if sub else rng.choice(["", ",", " "])
        if full:
            for lang in ("c", "go", "py"):
                for e in ENDIANS:
                    add(lang, O=True, F=raw, endian=e)
                add(lang, O=False, F=raw, endian=rng.choice(ENDIANS))
        else:
            add("c", O=True, F=raw, endian=ENDIANS[j % 4])
            add("go", O=True, F=raw, endian=ENDIANS[(j + 1) % 4])
            k = j % 4
            if k == 0:
                add("py", O=True, F=raw)
            else:
                add(["c", "go", "py"][k - 1], O=False, F=raw, endian=ENDIANS[(j + 2) % 4])
    return runs


def argv(run: Dict[str, Any], out: str) -> List[str]:
    a: List[str] = []
    if run["lang"]:
        a.append(run["lang"])
    a.append(ROOT)
    if run["lang"]:
        a.append(out)
    if run["O"]:
        a.append("-O")
    if run["F"] is not None:
        a += ["-F", run["F"]]
    if run["endian"]:
        a += ["--endian", run["endian"]]
    if run["check"]:
        a.append("-c")
    if run["quiet"]:
        a.append("-q")
    return a


def py_parse_F(raw: Optional[str]) -> Optional[List[str]]:
    if not raw:
        return None
    return [x.strip() for x in raw.split(",")]


def run(ck: Check) -> None:
    import time
    t0 = time.time()
    timing: Dict[str, float] = {}
    ck.try_prove("C17.v", model_vo=cs.MODEL_VO)
    model = cs.build_model(ck) if ck.model_ok else False
    timing["proof_s"] = round(time.time() - t0, 1)

    schemas: List[Tuple[cg.Schema, str]] = []
    for j in cs.load_corpus("C17"):
        schemas.append((cg.Schema.from_json(j["schema"]), "corpus:" + os.path.basename(j["_path"])))
    n_valid, n_mi, n_m = ck.n(10, 60), ck.n(5, 25), ck.n(5, 25)
    for i in range(n_valid):
        schemas.append((gen_schema(ck, i, "valid"), f"valid#{i}"))
    for i in range(n_mi):
        schemas.append((gen_schema(ck, i, "marker_import"), f"marker_import#{i}"))
    for i in range(n_m):
        schemas.append((gen_schema(ck, i, "marker"), f"marker#{i}"))

    jobs = []
    index: List[Tuple[int, int]] = []     # job -> (schema index, first run index)
    plans: List[List[Dict[str, Any]]] = []
    for si, (s, tag) in enumerate(schemas):
        runs = plan(ck, s, si, full=not ck.quick)
        plans.append(runs)
        for k in range(0, len(runs), 10):
            chunk = runs[k:k + 10]
            jobs.append({"op": "cli", "dir": os.path.join(ck.dir, f"s{si}_{k // 10}"), "files": s.texts,
                         "runs": [{"args": argv(r, f"o{k + n}"), "out": f"o{k + n}" if r["lang"] else None}
                                  for n, r in enumerate(chunk)]})
            index.append((si, k))
    t1 = time.time()
    results = run_workers("run_cli.py", jobs, chunk=1, timeout=900)
    timing["cli_runs_s"] = round(time.time() - t1, 1)
    observed: List[List[Optional[Dict[str, Any]]]] = [[None] * len(p) for p in plans]
    for (si, k), res in zip(index, results):
        if "worker_error" in res:
            ck.broken(Broken("C17 worker failed", res["worker_error"]))
            continue
        if not res["impl"].startswith(os.environ.get("VERIF_REPO", "/repo")):
            raise Broken("worker imported bitproto from " + res["impl"])
        for n, r in enumerate(res["runs"]):
            if r.get("timeout"):
                ck.broken(Broken("a CLI run did not finish within 10 minutes", str(jobs[index.index((si, k))]["runs"][n]["args"])))
                continue
            observed[si][k + n] = r

    shards = pyside.Shards(ck, "c17", per_shard=4)
    stats = {"runs": 0, "refused": 0, "rendered": 0, "filtered_nontrivial": 0, "marker_cited": 0, "subsets": 0}
    text_checks = 0
    samples: List[str] = []
    for si, (s, tag) in enumerate(schemas):
        root_defs = s.files[0].defs
        name_uid = {"".join(d.qual): d.uid for d in root_defs if d.kind == "message"}
        defs_name = f"s{si}_defs"
        head = (f"Definition s{si}_root : list ftree := {cg.coq_ftree(s.ftree())}.\n"
                f"Definition s{si}_lw : nat := Eval vm_compute in List.length (lint {cg.coq_ldefs(root_defs)}).\n"
                f"Definition {defs_name} : list bdef := {cg.coq_bdefs(root_defs)}.\n")
        exprs, metas = [], []
        parsed: Dict[int, Dict[str, Tuple[List[Tuple[str, str, str]], str]]] = {}
        for ri, (r, o) in enumerate(zip(plans[si], observed[si])):
            if o is None:
                continue
            stats["runs"] += 1
            rendered = bool(o["files"])
            obs_funcs: List[List[int]] = []
            if rendered:
                stats["rendered"] += 1
                per: Dict[str, Tuple[List[Tuple[str, str, str]], str]] = {}
                try:
                    for fn, text in o["files"].items():
                        kind = cs.file_kind(fn)
                        if kind in ("c_src", "c_hdr", "go"):
                            per[kind] = cs.split_output(kind, text)
                        elif kind == "py":
                            per["py"] = ([], text)
                        else:
                            raise Broken("unexpected output file " + fn)
                except Broken as b:
                    ck.broken(b)
                    continue
                parsed[ri] = per
                if r["O"]:
                    for kind in (("c_src", "c_hdr") if r["lang"] == "c" else ("go",)):
                        if kind not in per:
                            ck.violation(f"-O output file of kind {kind} missing", {"schema": s.to_json(), "run": r, "tag": tag})
                            obs_funcs.append([-7])
                            continue
                        uids = []
                        for owner, what, _ in per[kind][0]:
                            uids.append(name_uid.get(owner, -9))
                        obs_funcs.append(uids)
            elif o["rc"] != 0:
                stats["refused"] += 1
            ef, el = cs.error_position(o, s)
            if ef >= 0:
                stats["marker_cited"] += 1
            fraw = "None" if r["F"] is None else f"(Some {cg.coq_string(r['F'])})"
            exprs.append(
                f"(c17_case {cs.lang_term(r['lang'])} {cs.cbool(r['quiet'])} {cs.cbool(r['check'])} {cs.cbool(r['O'])} "
                f"{fraw} {cs.ENDIAN[r['endian']]} s{si}_root s{si}_lw {defs_name} {o['rc']} {cs.stderr_class(o)} "
                f"{cs.cbool(rendered)} [{'; '.join(cs.zlist(u) for u in obs_funcs)}] ({ef}) ({el}))")
            metas.append((si, ri))
            sel = py_parse_F(r["F"])
            if r["O"] and rendered and sel:
                msgs = [d for d in root_defs if d.kind == "message"]
                k = sum(1 for d in msgs if d.name in sel)
                if 0 < k < len(msgs):
                    stats["filtered_nontrivial"] += 1
        if model and exprs:
            shards.add(head, exprs, metas)

        # ---- textual comparisons between invocations (the property itself, on this input) ----
        def eff(e):
            return e or "both"
        base: Dict[Tuple[str, bool, str], int] = {}
        for ri, r in enumerate(plans[si]):
            if ri in parsed and r["F"] in (None, "") and not r["check"]:
                base.setdefault((r["lang"], r["O"], eff(r["endian"])), ri)
        for ri, r in enumerate(plans[si]):
            if ri not in parsed:
                continue
            b = base.get((r["lang"], r["O"], eff(r["endian"])))
            if b is None:
                continue
            text_checks += 1
            sel = py_parse_F(r["F"])
            for kind, (chunks, residual) in parsed[ri].items():
                bchunks, bres = parsed[b][kind]
                want = [c for c in bchunks if (not sel) or any(
                    d.name in sel for d in root_defs if d.kind == "message" and "".join(d.qual) == c[0])]
                if [c[2] for c in chunks] != [c[2] for c in want]:
                    ck.violation("functions generated with -F are not textually the selected subset of those generated without",
                                 {"schema": s.to_json(), "run": r, "baseline": plans[si][b], "file_kind": kind, "tag": tag,
                                  "got": [c[:2] for c in chunks], "want": [c[:2] for c in want]})
                if residual != bres:
                    ck.violation("declarations differ between -F and no -F (or between runs that must agree)",
                                 {"schema": s.to_json(), "run": r, "baseline": plans[si][b], "file_kind": kind, "tag": tag})
                if kind == "c_src" and r["O"]:
                    for owner, what, text in chunks:
                        if cs.c_endian_shape(text) != eff(r["endian"]):
                            ck.violation("--endian not honoured by an optimization-mode C function",
                                         {"schema": s.to_json(), "run": r, "function": what + owner, "tag": tag,
                                          "shape": cs.c_endian_shape(text)})
            # outputs that must not depend on --endian: standard mode, and Go in any mode
            if not r["O"] or r["lang"] == "go":
                b2 = base.get((r["lang"], r["O"], "both"))
                if b2 is not None and r["F"] in (None, "") and {k: v[1] for k, v in parsed[ri].items()} != \
                        {k: v[1] for k, v in parsed[b2].items()}:
                    ck.violation("--endian changes an output it must not affect",
                                 {"schema": s.to_json(), "run": r, "tag": tag})
        # python-only fallback of the exit-status specification when the Coq model is unavailable
        if not model:
            for r, o in zip(plans[si], observed[si]):
                if o is None or r["check"]:
                    continue
                refused = (r["O"] and s.any_marker()) or (r["O"] and r["lang"] == "py") or (not r["O"] and bool(py_parse_F(r["F"])))
                if refused != (o["rc"] != 0) and r["lang"]:
                    ck.violation("refusal conditions and exit status disagree", {"schema": s.to_json(), "run": r, "rc": o["rc"], "tag": tag})
        if len(samples) < 4 and plans[si]:
            r0 = plans[si][-1]
            samples.append(f"{tag}: bitproto {' '.join(argv(r0, 'out'))} -> rc={observed[si][-1]['rc'] if observed[si][-1] else '?'}")

    bits = {1: "exit status", 2: "diagnostic class", 4: "rendered", 8: "emitted functions", 32: "cited position",
            1024: "SPEC: refusal <-> exit", 2048: "SPEC: exactly the named messages"}
    if model:
        t2 = time.time()
        coded = shards.run(header=cs.HEADER)
        timing["coq_eval_s"] = round(time.time() - t2, 1)
        for (si, ri), code in coded:
            if code == 0:
                continue
            s, tag = schemas[si]
            r, o = plans[si][ri], observed[si][ri]
            what = ", ".join(v for k, v in bits.items() if code & k)
            replay = {"schema": s.to_json(), "run": r, "argv": argv(r, "out"), "rc": o["rc"], "stderr": o["stderr"][-800:],
                      "code": code, "tag": tag}
            if code & (1024 | 2048):
                ck.violation("C17 fails on a concrete invocation: " + what, replay)
            else:
                ck.broken(Broken("C17 model/implementation tie broken: " + what, str(replay)[:1500]))
    ck.coverage["evaluations"] = stats["runs"]
    ck.coverage["distinct_nontrivial"] = stats["filtered_nontrivial"] + stats["refused"]
    ck.coverage["rule"] = ("every real CLI run: exit status, diagnostic class, rendered?, owners of the emitted encoder/decoder "
                           "functions per output file and cited error position equal the Coq model's; refusal <-> non-zero "
                           "exit and 'exactly the named messages' hold; function texts with -F == selected texts without; "
                           "residual declarations identical; --endian shape of every C function")
    ck.coverage["samples"] = samples
    ck.coverage["tie"].update({"T0": "gen/GenCli.v", "T2_runs": stats["runs"], "text_comparisons": text_checks, "timing": timing})
    ck.coverage["distribution"] = {**stats, "schemas": len(schemas)}
    ck.assumptions = cs.ASSUME_COMMON + [
        "an emitted block's text depends only on (block class, definition, formatter, --endian): argued from "
        "GenCli.filter_readers (the complete list of code reading the -F filter, re-derived every run) and checked "
        "textually on every generated case",
    ]
