"""C18 — Compilation is deterministic.  PARTIAL BY NATURE:

  proved (Coq, props/C18.v)  the in-process half: the memoisation machinery is transparent for
                             every history of operations (incl. GC + id() re-use, interleaving);
                             static purity rules over tables extracted from the source (T0);
  tied to the code (T2)      the same operation histories run on the REAL decorators and are
                             re-evaluated in Coq against the model and the uncached reference;
                             the real parser's discipline and the transparency of every memoised
                             method are audited on the AST objects the renderers used;
  SAMPLED only               process-level behaviour of CPython: sha256 of all outputs under other
                             PYTHONHASHSEEDs, cwd (incl. working directories that hold decoy files under the
                             imports' relative names), relative/absolute paths, outdir and what the outdir
                             held before the run, -q, repeated and interleaved in-process compilation.
"""
from __future__ import annotations

import glob
import json
import os
import random
import re
from typing import Any, Dict, List, Optional, Tuple

import pyside
import schema_gen as sg
import translate_memo
import vlib
from vlib import Broken, Check, cbool, clist, cz, run_workers

LEVEL = "proof"

HEADER = """From Coq Require Import ZArith List Bool.
From BPGen Require Import GenMemo.
From BP Require Import Memo MemoCase.
Import ListNotations.
Open Scope Z_scope.
"""

ASSUME = [
    "Coq 8.16.1 kernel and its vm_compute (witnesses, rule evaluation, correspondence evaluation)",
    "tools/translate_memo.py (T0) reads utils.py/_ast.py correctly; unknown shapes are rejected; the purity scan "
    "is syntactic (it bounds where process-level inputs can enter the generator, not what flows through allowed sites)",
    "functools.cache (CPython): lookup by hash+equality of the argument tuple, strong references to keys, "
    "exceptions are not stored — modelled in Memo.v, validated by T2 on every run (hit/miss counters, liveness)",
    "CPython object model: id() of live objects is unique; an object referenced from a live container is not freed; "
    "str.format of distinct ints gives distinct strings and their 64-bit hashes do not collide",
    "a memoised method reads only the downward view of its node (tag/value/frozen flag/children); pinned by the "
    "digest of every memoised method and the `reads` rule; nested memoised calls are linearised in completion order",
    "PROCESS-LEVEL NONDETERMINISM OF CPYTHON IS NOT MODELLED: hash seed, cwd, paths, outdir, -q and process reuse "
    "are sampled, not proved",
]

# ------------------------------------------------------------------------------------------------
# memo histories
# ------------------------------------------------------------------------------------------------

def gen_history(rng: random.Random, disciplined: bool, nmax: int = 9, nops: int = 44) -> List[list]:
    ops: List[list] = []
    info: Dict[int, Dict[str, Any]] = {}
    nxt = 0

    def usable() -> List[int]:
        return [n for n, i in info.items() if not i["dropped"]]

    def deps_frozen(n: int) -> bool:
        return all(info[d]["frozen"] for d in info[n]["deps"])

    for _ in range(nops):
        r = rng.random()
        us = usable()
        if r < 0.20 or not us:
            if nxt >= nmax:
                continue
            deps = rng.sample(us, k=min(len(us), rng.choice([0, 0, 1, 1, 2])))
            tag, val = rng.randint(0, 3), rng.randint(-5, 9)
            ops.append(["alloc", nxt, tag, val, deps])
            info[nxt] = dict(frozen=False, dropped=False, deps=list(deps))
            n = nxt
            nxt += 1
            # classes frozen by __init__ (post_init=True): alloc immediately followed by freeze
            if rng.random() < 0.45 and (not disciplined or deps_frozen(n)):
                ops.append(["freeze", n])
                info[n]["frozen"] = True
        elif r < 0.30:
            n = rng.choice(us)
            ops.append(["setval", n, rng.randint(-5, 9)])
        elif r < 0.40:
            n = rng.choice(us)
            older = [d for d in us if d < n]
            if not older or len(info[n]["deps"]) >= 3:
                continue
            d = rng.choice(older)
            ops.append(["push", n, d])
            if not info[n]["frozen"]:
                info[n]["deps"].append(d)
        elif r < 0.54:
            cand = [n for n in us if (not disciplined or deps_frozen(n))]
            if not cand:
                continue
            n = rng.choice(cand)
            ops.append(["freeze", n])
            info[n]["frozen"] = True
        elif r < 0.90:
            n = rng.choice(us)
            # f3 calls itself on the children THROUGH the decorator; the model treats every method as a
            # function of the node's view, which is exact for such nested calls only while the table is sound
            # (what the theorem proves for disciplined histories): it is not issued in undisciplined ones
            fids = [0, 0, 0, 1, 2, 3, 3] if disciplined else [0, 0, 0, 1, 2]
            ops.append(["call", rng.choice(fids), n, rng.randint(-2, 4)])
        elif r < 0.98:
            n = rng.choice(us)
            ops.append(["drop", n])
            info[n]["dropped"] = True
        else:
            k = rng.choice(["setval", "freeze", "call", "drop", "alloc"])
            ghost = rng.choice([99] + [n for n, i in info.items() if i["dropped"]])
            if k == "setval":
                ops.append(["setval", ghost, 1])
            elif k == "freeze":
                ops.append(["freeze", ghost])
            elif k == "call":
                ops.append(["call", 0, ghost, 1])
            elif k == "drop":
                ops.append(["drop", ghost])
            elif info:
                ops.append(["alloc", rng.choice(list(info)), 1, 1, []])      # name re-use
    return ops


def op_term(op: list) -> str:
    k = op[0]
    if k == "alloc":
        _, n, a, tag, val, deps = op
        return f"alloc {n} {cz(a)} {cz(tag)} {cz(val)} {clist(str(d) for d in deps)}"
    if k == "setval":
        return f"setval {op[1]} {cz(op[2])}"
    if k == "push":
        return f"push {op[1]} {op[2]}"
    if k == "freeze":
        return f"freeze {op[1]}"
    if k == "call":
        return f"call {op[1]} {max(op[2], 0)} {cz(op[3])}"
    if k == "drop":
        return f"drop {op[1]}"
    if k == "reclaim":
        return f"reclaim {cz(op[1])}"
    raise Broken("run_memo returned an unknown operation", str(op))


def out_term(e: Dict[str, Any]) -> str:
    o = e["out"]
    if o == "ok":
        return "OOk"
    if o == "err":
        return "OErr"
    if o == "bad":
        return "OBad"
    if isinstance(o, list) and o[0] == "res":
        return "(ORes None)" if o[1] is None else f"(ORes (Some {cz(int(o[1]))}))"
    raise Broken("run_memo returned an unknown outcome", str(e))


def aux_term(e: Dict[str, Any]) -> str:
    if e["op"][0] == "reclaim":
        return "AReclaimed"
    a = e.get("aux")
    return {None: "ANone", "hit": "AHit", "miss": "AMiss", "direct": "ADirect", "exec": "AExec"}.get(a, "ARefused")


def history_stats(log: List[Dict[str, Any]]) -> Dict[str, int]:
    st = dict(hit=0, miss=0, direct=0, err=0, reclaim=0, reuse=0, raised=0, nested=0)
    seen = set()
    for e in log:
        k = e["op"][0]
        if k == "call" and e.get("aux") in st:
            st[e["aux"]] += 1
        if k == "call" and e["out"] == ["res", None]:
            st["raised"] += 1
        if e["out"] == "err":
            st["err"] += 1
        if k == "reclaim":
            st["reclaim"] += 1
        if k == "alloc" and e["out"] == "ok":
            if e["op"][2] in seen:
                st["reuse"] += 1
            seen.add(e["op"][2])
    return st


def run_histories(ck: Check, items: List[Tuple[str, List[list], Optional[str]]]) -> Dict[str, Any]:
    """items: (label, abstract ops, expectation) with expectation None | "stale" (a refutation
    witness: the real decorators must return a value that differs from the reference, exactly as
    the model predicts)."""
    jobs = [{"kind": "history", "id": i, "ops": ops} for i, (_l, ops, _e) in enumerate(items)]
    res = run_workers("run_memo.py", jobs, chunk=12, timeout=300)
    sh = pyside.Shards(ck, "memo", per_shard=60)
    agg = dict(histories=0, ops=0, calls=0, hit=0, miss=0, direct=0, err=0, reclaim=0, reuse=0, raised=0, nested=0)
    nontrivial = 0
    for i, ((label, ops, expect), r) in enumerate(zip(items, res)):
        if "log" not in r:
            ck.broken(Broken("run_memo worker failed on a history", json.dumps(r)[:1500]))
            continue
        log = r["log"]
        st = history_stats(log)
        for k, v in st.items():
            agg[k] += v
        agg["histories"] += 1
        agg["ops"] += len(log)
        agg["calls"] += sum(1 for e in log if e["op"][0] == "call")
        if st["hit"] and st["miss"]:
            nontrivial += 1
        defs = (f"Definition h_{i} : list op := {clist(op_term(e['op']) for e in log)}.\n"
                f"Definition io_{i} : list (out * aux) := "
                f"{clist('(' + out_term(e) + ', ' + aux_term(e) + ')' for e in log)}.\n"
                f"Definition alive_{i} : list Z := {clist(cz(a) for a in r['alive'])}.\n")
        sh.add(defs, [f"memo_case h_{i} io_{i} alive_{i}"], [(label, ops, expect, log)])
    agg["distinct_nontrivial"] = nontrivial
    if not sh.items:
        return agg
    for (label, ops, expect, log), code in sh.run(header=HEADER, timeout=600):
        tie = code & (1 | 4 | 8 | 16)
        if tie:
            what = []
            if code & 1:
                what.append("outputs")
            if code & 4:
                what.append("hit/miss/direct/reclaimed")
            if code & 8:
                what.append("objects alive at the end")
            if code & 16:
                what.append("allocator returned an address the model considers live")
            ck.broken(Broken(f"memo machine (Memo.v) and the real decorators disagree on {label}: " + ", ".join(what),
                             json.dumps({"ops": ops, "log": log})[:2500]))
        if code & 2:
            ck.violation("memoisation is not transparent: a cached method returned a value that differs from a fresh "
                         "evaluation, in a history that respects the parser's discipline",
                         {"kind": "history", "label": label, "ops": ops, "log": log, "code": code}, found_input=True)
        if expect == "stale" and not (code & 32):
            ck.broken(Broken(f"refutation witness {label} no longer reproduces on the real decorators "
                             "(the model says the value goes stale)", json.dumps({"ops": ops, "log": log})[:2000]))
    return agg


def run_tables(ck: Check) -> int:
    res = run_workers("run_memo.py", [{"kind": "tables"}], chunk=1, timeout=120)[0]
    if "cond_rows" not in res:
        ck.broken(Broken("run_memo worker failed on the decision tables", json.dumps(res)[:1500]))
        return 0
    if not str(res.get("file", "")).startswith(vlib.REPO + "/"):
        ck.broken(Broken("worker imported bitproto from somewhere else", str(res.get("file"))))
    exprs, metas = [], []
    for row in res["cond_rows"]:
        exprs.append("cond_row " + " ".join(cbool(bool(b)) for b in row))
        metas.append(("cache_if_frozen_condition", row))
    which = {"setattr": 0, "delattr": 1, "freeze": 2, "push": 3}
    for name, fr, raised in res["decisions"]:
        exprs.append(f"decision_row {which[name]} {cbool(fr)} {cbool(raised)}")
        metas.append((name, [fr, raised]))
    sh = pyside.Shards(ck, "tables", per_shard=10)
    sh.add("", exprs, metas)
    for (name, row), code in sh.run(header=HEADER, timeout=300):
        if code != 0:
            ck.broken(Broken(f"translated decision {name} disagrees with the real function", str(row)))
    for cname, idhash, distinct, eqv in res["hashes"]:
        if not (idhash is True and distinct is True):
            ck.broken(Broken(f"AST class {cname} is not hashed by identity", str([cname, idhash, distinct, eqv])))
    eq, same, _n1, _n2, hits, misses = res["share"]
    if not (eq is True and same is False and hits == 0 and misses == 2):
        ck.broken(Broken("two equal-valued distinct frozen nodes shared a memo entry (or the probe changed)",
                         str(res["share"])))
    if res["pinned"] is not True:
        ck.broken(Broken("a memo key did not keep its node alive (the model's pinning assumption)", ""))
    return len(exprs) + len(res["hashes"]) + 2


# ------------------------------------------------------------------------------------------------
# process-level sampling
# ------------------------------------------------------------------------------------------------

PATH_VARIANTS = ["rel", "cwd", "dots", "lint", "copy", "nooutdir"]
# what the output directory holds before the run: nothing / empty files / a shorter earlier revision (a line-wise
# prefix of the new output) / a longer later revision / garbage under the output's names / the very same output
PRE_VARIANTS = ["pre_empty", "pre_prefix", "pre_longer", "pre_garbage", "pre_same"]
VARIANT_DOC = {
    "seed": "fresh process, another PYTHONHASHSEED",
    "rel": "cwd = parent directory (which also holds DECOY files under the imports' relative names), relative input "
           "path, relative outdir",
    "cwd": "cwd = /", "dots": "input path written with ./ and ../ segments, cwd = parent directory (with decoys)",
    "lint": "without -q", "copy": "the same files under another absolute path",
    "nooutdir": "no outdir argument, cwd = a directory with decoys",
    "decoycwd": "cwd = an unrelated directory that contains DIFFERENT files under the relative names the schema imports",
    "pre_empty": "the output directory already holds EMPTY files with the outputs' names",
    "pre_prefix": "the output directory already holds the first 2/3 of the lines of each output (an earlier, shorter "
                  "revision)",
    "pre_longer": "the output directory already holds each output plus extra trailing lines (a later revision)",
    "pre_garbage": "the output directory already holds garbage under the outputs' names",
    "pre_same": "the output directory already holds exactly the expected outputs",
}
IMPORT_RE = re.compile(r'^[ \t]*import\s+(?:[A-Za-z_]\w*\s+)?"([^"\n]+)"', re.M)


def _widen(text: str) -> str:
    """A different but still valid version of a schema file: every integer width changed by one."""
    def w(m):
        n = int(m.group(2))
        return f"{m.group(1)}{n + 1 if n < 64 else n - 1}"
    t2 = re.sub(r"\b(uint|int)(\d+)\b", w, text)
    if t2 == text:
        t2 = re.sub(r"\bbool\b", "uint2", text)
    return t2


def decoys_for(files: Dict[str, str]) -> Dict[str, str]:
    """For every relative import "p" written in any file of the schema: a DIFFERENT file (widths changed) to be
    placed at <some working directory>/p.  A compiler that resolves imports against the cwd picks it up."""
    out: Dict[str, str] = {}
    for key, text in files.items():
        base = os.path.dirname(key)
        for p in IMPORT_RE.findall(text):
            if os.path.isabs(p):
                continue
            target = os.path.normpath(os.path.join(base, p))
            rel = os.path.normpath(p)
            if target in files and not rel.startswith(".."):
                d = _widen(files[target])
                if d != files[target]:
                    out[rel] = d
    return out


def gen_import_graph(rng: random.Random, dup: bool) -> Tuple[Dict[str, str], str]:
    """A hub file importing 3-5 files that live in DIFFERENT directories; with `dup`, two of them (in different
    directories, imported under different `as` names) have the same file name and declare the same proto name, so
    they map to the same output/header name; one imported file imports a sibling of its own directory."""
    files: Dict[str, str] = {}
    k = rng.randint(3, 5)
    dirs = ["", "v1", "v2", "lib", "lib/deep", "old"]
    widths = [2, 3, 5, 7, 9, 12, 13, 16, 24, 31, 32, 40, 63]
    letters = "abcdefghijklmnopqrstuvwxyz"
    tagc = [0]

    def tag() -> str:
        tagc[0] += 1
        return letters[rng.randrange(26)] + letters[rng.randrange(26)] + str(tagc[0])

    def leaf_text(proto: str, t: str, extra_import: str = "", extra_field: str = "") -> str:
        ew = rng.choice([2, 3, 4, 8])
        vals = sorted(rng.sample(range(1, 2 ** ew), k=min(2, 2 ** ew - 1)))
        txt = f"proto {proto}\n\n{extra_import}"
        txt += f"enum Kind{t} : uint{ew} {{\n    KIND_{t.upper()}_NONE = 0\n"
        for i, v in enumerate(vals):
            txt += f"    KIND_{t.upper()}_V{i} = {v}\n"
        txt += "}\n\n"
        txt += f"message Msg{t} {{\n    uint{rng.choice(widths)} x = 1\n    Kind{t} kind = 2\n"
        txt += f"    int{rng.choice(widths)} y = {rng.randint(3, 9)}\n{extra_field}}}\n"
        return txt

    entries: List[Tuple[Optional[str], str, str, str]] = []      # (as name, relative path, proto name, type name)
    dup_at = sorted(rng.sample(range(k), 2)) if dup else []
    dup_dirs = rng.sample([d for d in dirs if d], 2) if dup else []
    shared = "shared" + letters[rng.randrange(26)]
    used_paths = set()
    for i in range(k):
        t = tag()
        if i in dup_at:
            dd = dup_dirs[dup_at.index(i)]
            rel, proto, as_name = f"{dd}/{shared}.bitproto", shared, f"s{dup_at.index(i) + 1}"
        else:
            dd = rng.choice(dirs)
            proto = "leaf" + t
            rel = (dd + "/" if dd else "") + proto + ".bitproto"
            as_name = rng.choice([None, None, "q" + t])
        extra_import = extra_field = ""
        if dd and rng.random() < 0.6:
            # a sibling in the imported file's own directory, imported by its bare name
            bt = tag()
            bproto = "base" + bt
            files[f"{dd}/{bproto}.bitproto"] = leaf_text(bproto, bt)
            extra_import = f'import "{bproto}.bitproto"\n\n'
            extra_field = f"    {bproto}.Msg{bt} base = 12\n"
        files[rel] = leaf_text(proto, t, extra_import, extra_field)
        used_paths.add(rel)
        entries.append((as_name, rel, proto, f"Msg{t}"))
    hub = "hub" + letters[rng.randrange(26)] + letters[rng.randrange(26)]
    txt = f"proto {hub}\n\n"
    for as_name, rel, _proto, _t in entries:
        txt += f'import {as_name + " " if as_name else ""}"{rel}"\n'
    ext = "'" if rng.random() < 0.3 else ""
    txt += f"\nmessage Hub{ext} {{\n"
    nums = rng.sample(range(1, 40), k=len(entries) + 2)
    for (as_name, _rel, proto, t), n in zip(entries, nums):
        ref = f"{as_name or proto}.{t}"
        txt += f"    {ref}{'[2]' if rng.random() < 0.3 else ''} f{n} = {n}\n"
    txt += f"    uint{rng.choice(widths)} own = {nums[-2]}\n    bool last = {nums[-1]}\n}}\n"
    files[hub + ".bitproto"] = txt
    return files, hub + ".bitproto"


def repo_schema_sets() -> List[Tuple[str, Dict[str, str], str]]:
    """(label, files of the directory, main file) for every .bitproto under example/ and tests/."""
    out = []
    for root in ("example", "tests"):
        for d, _dirs, files in sorted(os.walk(os.path.join(vlib.REPO, root))):
            bps = sorted(f for f in files if f.endswith(".bitproto"))
            if not bps:
                continue
            texts = {}
            for f in bps:
                try:
                    texts[f] = open(os.path.join(d, f)).read()
                except OSError:
                    pass
            for f in bps:
                out.append((os.path.relpath(os.path.join(d, f), vlib.REPO), texts, f))
    return out


def is_traditional(files: Dict[str, str]) -> bool:
    return not any("'" in t for t in files.values())


def targets_for(files: Dict[str, str]) -> List[list]:
    t = [["c", False], ["go", False], ["py", False]]
    if is_traditional(files):
        t += [["c", True], ["go", True]]
    return t


def run_process_level(ck: Check, sets: List[Tuple[str, Dict[str, str], str]], nvariants: int,
                      group_size: int, methods: List[list]) -> Dict[str, Any]:
    jobs = []
    for i, (label, files, main) in enumerate(sets):
        rng = random.Random(f"C18:{ck.seed}:fresh:{i}")
        tg = targets_for(files)
        decoys = decoys_for(files)
        graph = label.startswith("graph#") or "import" in label
        full = bool(ck.replay_file) or not ck.quick
        # several hash seeds where a hash-ordered container is most likely to matter (import graphs);
        # quick tier: one path variant + one outdir-content variant (+ the decoy cwd when the schema has relative
        # imports) on two of the targets only
        nseeds = 4 if full else (3 if graph else 1)
        variants = (PATH_VARIANTS + PRE_VARIANTS if full else
                    rng.sample(PATH_VARIANTS, k=min(max(1, nvariants - 1), len(PATH_VARIANTS))) +
                    rng.sample(PRE_VARIANTS[:4], k=1)) + (["decoycwd"] if decoys else [])
        jobs.append(dict(kind="fresh", id=i, dir=os.path.join(ck.dir, f"f{i}"), files=files, main=main,
                         targets=tg, seeds=[rng.randrange(1, 2 ** 32) for _ in range(nseeds)], decoys=decoys,
                         variants=variants,
                         variant_targets=(None if full else sorted(rng.sample(range(len(tg)), k=2)))))
    res = run_workers("run_det.py", jobs, chunk=1, timeout=900)
    _t(ck, "fresh_processes")
    stats = dict(schemas=len(sets), compilations=0, outputs=0, ok_targets=0, failing_targets=0, inproc_steps=0,
                 audit_nodes=0, audit_compared=0, freezes=0)
    distinct = set()
    base: Dict[Tuple[int, str, bool], Dict[str, Any]] = {}
    for (label, files, main), j, r in zip(sets, jobs, res):
        if "targets" not in r:
            ck.broken(Broken(f"run_det worker failed on {label}", json.dumps(r)[:1500]))
            continue
        for t in r["targets"]:
            stats["compilations"] += 1 + t["variants"]
            stats["outputs"] += len(t["base"]) * (1 + t["variants"])
            stats["ok_targets" if t["rc"] == 0 else "failing_targets"] += 1
            for h in t["base"].values():
                distinct.add(h)
            base[(j["id"], t["lang"], t["opt"])] = t
            for dv in t["diffs"]:
                ck.violation(
                    f"output differs between two fresh compilations of the same schema ({dv['variant']})",
                    {"kind": "schemas", "label": label, "files": files, "main": main, "lang": t["lang"],
                     "optimize": t["opt"], "variant": dv["variant"],
                     "variant_means": VARIANT_DOC.get("seed" if dv["variant"].startswith("seed") else dv["variant"], ""),
                     "decoys": j["decoys"], "seeds": j["seeds"], "base_rc": t["rc"],
                     "base": t["base"], "got_rc": dv["rc"], "got": dv["got"], "stderr": dv.get("stderr", "")},
                    found_input=True)
            for name, needle in t["leaks"]:
                ck.violation("generated text contains the directory it was compiled in",
                             {"kind": "schemas", "label": label, "files": files, "main": main, "lang": t["lang"],
                              "optimize": t["opt"], "file": name, "found": needle}, found_input=True)
    # ---- repeated / interleaved in-process compilation --------------------------------------------------
    okids = [j["id"] for j, r in zip(jobs, res) if "targets" in r]
    rng = random.Random(f"C18:{ck.seed}:inproc")
    # corpus groups (label "group:<name>:...") stay together; everything else is shuffled
    fixed: Dict[str, List[int]] = {}
    ids = []
    for sid in okids:
        lab = sets[sid][0]
        if lab.startswith("group:"):
            fixed.setdefault(lab.split(":")[1], []).append(sid)
        else:
            ids.append(sid)
    rng.shuffle(ids)
    groups = list(fixed.values()) + [ids[g:g + group_size] for g in range(0, len(ids), group_size)]
    ijobs = []
    for grp in groups:
        plan = []
        for gi, sid in enumerate(grp):
            for lang, opt in jobs[sid]["targets"]:
                for _rep in range(2):
                    plan.append([gi, lang, opt, rng.random() < 0.5])
        rng.shuffle(plan)
        ijobs.append(dict(kind="inproc", id=len(ijobs), dir=os.path.join(ck.dir, f"i{len(ijobs)}"),
                          group=[dict(files=jobs[s]["files"], main=jobs[s]["main"]) for s in grp], plan=plan,
                          seed=rng.randrange(0, 2 ** 32), methods=methods, _sids=grp))
    ires = run_workers("run_det.py", [{k: v for k, v in j.items() if k != "_sids"} for j in ijobs], chunk=1,
                       timeout=900)
    for j, r in zip(ijobs, ires):
        if "steps" not in r:
            ck.broken(Broken("run_det in-process child failed", json.dumps(r)[:1500]))
            continue
        if not str(r.get("file", "")).startswith(vlib.REPO + "/"):
            ck.broken(Broken("in-process child imported bitproto from somewhere else", str(r.get("file"))))
        for si, st in enumerate(r["steps"]):
            stats["inproc_steps"] += 1
            sid = j["_sids"][st["gi"]]
            b = base[(sid, st["lang"], st["opt"])]
            label = sets[sid][0]
            if (st["err"] is None) != (b["rc"] == 0) or (b["rc"] == 0 and st["hashes"] != b["base"]):
                ck.violation(
                    "in-process (repeated / interleaved) compilation differs from a fresh process",
                    {"kind": "interleaving", "label": label, "step": si, "plan": j["plan"], "hashseed": j["seed"],
                     "group": [dict(label=sets[s][0], files=sets[s][1], main=sets[s][2]) for s in j["_sids"]],
                     "lang": st["lang"], "optimize": st["opt"], "fresh": b["base"], "fresh_rc": b["rc"],
                     "inproc": st["hashes"], "inproc_err": st["err"]}, found_input=True)
        a = r["audit"]
        stats["audit_nodes"] += a["nodes"]
        stats["audit_compared"] += a["compared"]
        stats["freezes"] += r["discipline"]["freezes"]
        if a["mismatches"]:
            ck.violation("a memoised AST method returns something else than a fresh evaluation of the same method "
                         "on the objects the renderers used",
                         {"kind": "audit", "mismatches": a["mismatches"], "plan": j["plan"],
                          "group": [dict(label=sets[s][0], files=sets[s][1], main=sets[s][2]) for s in j["_sids"]]},
                         found_input=True)
        if a["unfrozen"]:
            ck.broken(Broken("the parser returned a tree with unfrozen nodes (the model's invariant 'everything reachable "
                             "from a frozen node is frozen' fails on the real compiler)", json.dumps(a)[:800]))
        if r["discipline"]["violations"]:
            ck.broken(Broken("the real parser froze a node before what it points to (the discipline the transparency "
                             "theorem assumes)", json.dumps(r["discipline"]["violations"])))
    stats["distinct_outputs"] = len(distinct)
    return stats


# ------------------------------------------------------------------------------------------------
# corpus
# ------------------------------------------------------------------------------------------------

def load_corpus() -> List[Dict[str, Any]]:
    out = []
    for p in sorted(glob.glob(os.path.join(vlib.VERIF, "corpus", "C18", "*.json"))):
        try:
            j = json.load(open(p))
        except Exception as e:     # noqa
            raise Broken(f"corpus file {p} unreadable", str(e))
        j["_path"] = p
        out.append(j)
    return out


def _t(ck: Check, what: str) -> None:
    import sys
    import time
    ck.coverage.setdefault("timing_s", {})[what] = round(time.time() - ck.t0, 1)
    if os.environ.get("VERIF_VERBOSE"):
        print(f"[C18] {what}: {time.time() - ck.t0:.1f}s", file=sys.stderr)


def run(ck: Check) -> None:
    ck.try_prove("C18.v", model_vo=("theories/MemoCase.vo",))
    _t(ck, "proved")
    ck.assumptions = list(ASSUME)
    cov = ck.coverage
    if not ck.model_ok:
        raise Broken("the executable model (theories/MemoCase.vo) does not build", "")
    try:
        methods = [list(m) for m in translate_memo.tables().get("cached_methods", [])]
    except Broken:
        # the source no longer translates (already recorded by try_prove): audit with the table of the last
        # accepted translation so that the search for a concrete failing input still runs
        import re
        ref = open(os.path.join(vlib.COQ, "ref", "GenMemo.v")).read()
        body = ref[ref.index("Definition cached_methods"):]
        body = body[:body.index("].")]
        methods = [list(m) for m in re.findall(r'\("(\w+)", "(\w+)", "(\w+)", \[', body)]

    corpus = load_corpus()
    if ck.replay_file:
        rp = json.load(open(ck.replay_file))
        corpus = [rp]
    hist_items: List[Tuple[str, List[list], Optional[str]]] = []
    sets: List[Tuple[str, Dict[str, str], str]] = []
    for c in corpus:
        if c.get("kind") == "history":
            hist_items.append((os.path.basename(c.get("_path", "replay")), c["ops"], c.get("expect")))
        elif c.get("kind") in ("schemas",):
            sets.append((c.get("label", os.path.basename(c.get("_path", "replay"))), c["files"], c["main"]))
        elif c.get("kind") in ("interleaving", "audit"):
            gname = os.path.basename(c.get("_path", "replay")).replace(":", "_")
            for g in c["group"]:
                sets.append((f"group:{gname}:{g['label']}", g["files"], g["main"]))

    evaluations = 0
    if not ck.replay_file:
        evaluations += run_tables(ck)
        nh = ck.n(200, 3000)
        for i in range(nh):
            rng = random.Random(f"C18:{ck.seed}:h:{i}")
            hist_items.append((f"gen#{i}", gen_history(rng, disciplined=(i % 5 != 0)), None))
    _t(ck, "tables")
    agg = run_histories(ck, hist_items) if hist_items else {}
    _t(ck, "histories")
    evaluations += agg.get("ops", 0)

    if not ck.replay_file and os.environ.get("C18_ONLY") != "memo":
        repo_sets = repo_schema_sets()
        rng = random.Random(f"C18:{ck.seed}:repo")
        if ck.quick:
            must = [s for s in repo_sets if s[0].startswith("example/")]
            enc = [s for s in repo_sets if "encoding-cases" in s[0]]
            rest = [s for s in repo_sets if s not in must and s not in enc]
            repo_sets = must + rng.sample(enc, k=min(5, len(enc))) + rng.sample(rest, k=min(4, len(rest)))
        sets.extend(repo_sets)
        for i in range(ck.n(8, 100)):
            r2 = random.Random(f"C18:{ck.seed}:s:{i}")
            params = sg.Params(allow_ext=False) if i % 3 == 0 else (
                sg.Params(max_depth=4, max_fields=8) if i % 3 == 1 else sg.Params())
            s = sg.Gen(r2, params).schema()
            sets.append((f"gen#{i}", s.texts, s.main))
        # import graphs over several directories, two of three with equal file / proto names in different directories
        for i in range(ck.n(3, 30)):
            r2 = random.Random(f"C18:{ck.seed}:g:{i}")
            files, main = gen_import_graph(r2, dup=(i % 3 != 2))
            sets.append((f"graph#{i}", files, main))
    stats = run_process_level(ck, sets, nvariants=ck.n(2, 6), group_size=4, methods=methods) if sets else {}
    evaluations += stats.get("compilations", 0) + stats.get("inproc_steps", 0) + stats.get("audit_compared", 0)
    _t(ck, "process_level")

    cov["evaluations"] = evaluations
    cov["distinct_nontrivial"] = agg.get("distinct_nontrivial", 0) + stats.get("distinct_outputs", 0)
    cov["rule"] = ("memo histories: random operation sequences over <= 9 nodes (alloc/setattr/push_member/freeze/call/"
                   "drop, 4 methods incl. a raising, an unconditionally cached and a self-recursive one; 4 of 5 respect "
                   "the parser's discipline) run on the real decorators, nontrivial = at least one hit and one miss; "
                   "process level: every generated/example/tests schema and generated multi-directory import graphs (equal "
                   "file/proto names in different directories, sibling imports) x {c, go, py, c -O, go -O} x {fresh "
                   "process with 1-4 other PYTHONHASHSEEDs, path/cwd/outdir/-q variants, cwd = a directory holding DIFFERENT "
                   "files under the imports' relative names, output directory pre-filled with empty files / a line-wise "
                   "prefix / a longer version / garbage / the same output}, then 2x repeated, shuffled in-process "
                   "compilation in groups of 4 with a transparency audit of every memoised method on every AST node; "
                   "nontrivial = distinct output hashes")
    cov["tie"] = {
        "T0": "gen/GenMemo.v re-translated: cache_if_frozen_condition, conditional_cache, frozen, safe_hash, push_member "
              "guard, class / cached-method / impure-site tables; 26 skeleton digests (skeletons_memo.json)",
        "T2_memo": {k: agg.get(k, 0) for k in ("histories", "ops", "calls", "hit", "miss", "direct", "raised", "err",
                                                "reclaim", "reuse")},
        "T2_process": stats,
        "partial": "hash-seed / process / path independence is sampled, not proved",
    }
    cov["distribution"] = sg.distribution([]) if False else {
        "memo": {k: agg.get(k, 0) for k in ("hit", "miss", "direct", "raised", "err", "reclaim", "reuse")},
        "process": {k: stats.get(k, 0) for k in ("schemas", "ok_targets", "failing_targets", "compilations",
                                                 "inproc_steps", "audit_nodes", "audit_compared", "freezes")}}
    cov["samples"] = [
        {"history": hist_items[-1][1][:12] if hist_items else []},
        {"schema": sets[-1][0] if sets else None, "main": sets[-1][2] if sets else None},
    ]
    cov["trusted_base"] = ["coqc 8.16.1", "tools/translate_memo.py", "CPython 3.12 functools.cache / weakref / id()"]
