"""C03 — C standard mode writes/reads the same bytes as the specification and Python
(proof over the source-level model CRt + T0 translation + T2 execution through ctypes)."""
import cside

LEVEL = "proof"


def run(ck):
    import cboundary
    cboundary.install(ck, big=True, junk=0)     # deterministic edge catalogue, runs with the corpus
    cside.run_c03(ck)
