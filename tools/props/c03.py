"""C03 — C standard mode writes/reads the same bytes as the specification and Python
(proof over the source-level model CRt + T0 translation + T2 execution through ctypes)."""
import cside

LEVEL = "proof"


def run(ck):
    cside.run_c03(ck)
