"""C14 — every width x bit-offset x signedness combination is bit-exact in every runtime.
The space {bool, byte, uint1..64, int1..64} x offsets 0..7 x {scalar, array element, alias}
x basis values is finite: the thorough tier executes ALL of it (quick: a 1/16 slice chosen by
the seed) on the real runtimes, against Spec evaluated in Coq; the theorems (corollaries of
C01/C02 and their C / op-mode counterparts) hold for all values, not only the basis."""
from __future__ import annotations

from typing import Any, List, Tuple

import pywire
import schema_gen as sg

LEVEL = "proof"

T = sg.T


def leaf_types() -> List[T]:
    out = [T("bool"), T("byte")]
    out += [T("uint", n=n) for n in range(1, 65)]
    out += [T("int", n=n) for n in range(1, 65)]
    return out


def type_text(t: T) -> str:
    return t.kind if t.kind in ("bool", "byte") else f"{t.kind}{t.n}"


def basis(t: T) -> List[Any]:
    if t.kind == "bool":
        return [False, True]
    n = 8 if t.kind == "byte" else t.n
    if t.kind == "int":
        vals = [0, -1, -(1 << (n - 1)), (1 << (n - 1)) - 1] + [1 << k for k in range(n - 1)]
    else:
        vals = [0, (1 << n) - 1] + [1 << k for k in range(n)]
    seen, out = set(), []
    for v in vals:
        if v not in seen:
            seen.add(v)
            out.append(v)
    return out


def patterns(t: T) -> List[Any]:
    """Value patterns beyond the single-bit basis: extremes, alternating bits, the two top bits differing."""
    if t.kind == "bool":
        return [False, True]
    n = 8 if t.kind == "byte" else t.n
    alt = int("10" * 32, 2) & ((1 << n) - 1)
    raw = [(1 << n) - 1, 1 << (n - 1), alt, alt >> 1, (1 << (n - 1)) | 1, ((1 << n) - 1) ^ (1 << (n - 1)) if n > 1 else 0]
    out, seen = [], set()
    for r in raw:
        v = r - (1 << n) if (t.kind == "int" and r >> (n - 1)) else r
        if v not in seen:
            seen.add(v)
            out.append(v)
    return out


def make_cases(t: T, k: int, only=None) -> List[Tuple[sg.Schema, List[Any], str]]:
    """Three messages in one file: scalar, array element (3 elements: later elements sit at
    further offsets; standard widths take the batch path in C), alias."""
    base = f"w{type_text(t)}o{k}"
    tt = type_text(t)
    pad = f"    uint{k} pad = 1\n" if k else ""
    text = (f"proto {base}\n\ntype Al = {tt}\n\nmessage Sc {{\n{pad}    {tt} x = 2\n}}\n\n"
            f"message Ar {{\n{pad}    {tt}[3] x = 2\n}}\n\nmessage Li {{\n{pad}    Al x = 2\n}}\n\n"
            f"message Fo {{\n{pad}    {tt} x = 2\n    uint64 f1 = 3\n    uint64 f2 = 4\n}}\n")
    padf = [(1, "pad", T("uint", n=k))] if k else []
    bs = basis(t)
    out = []
    padv = {1: (1 << k) - 1} if k else {}
    shapes = (
        ("Sc", t, [{**({1: 0} if k else {}), 2: b} for b in bs] + [{**padv, 2: b} for b in bs[:2]], []),
        ("Ar", T("arr", cap=3, t=t), [{**padv, 2: [b, bs[0], bs[(i + 1) % len(bs)]]} for i, b in enumerate(bs)], []),
        ("Li", T("alias", t=t, name="Al"), [{**({1: 0} if k else {}), 2: b} for b in bs], []),
        # the field in the MIDDLE of a buffer (word-at-a-time fast paths only engage when enough bytes follow),
        # followers all-zeros / all-ones / alternating so that a spill in either direction shows
        ("Fo", t, [{**(padv if i % 2 else ({1: 0} if k else {})), 2: b, 3: f, 4: (1 << 64) - 1 - f}
                   for i, b in enumerate(patterns(t)[:3] if only else patterns(t))
                   for f in ((0, (1 << 64) - 1) if only else (0, (1 << 64) - 1, 0xAAAAAAAAAAAAAAAA))],
         [(3, "f1", T("uint", n=64)), (4, "f2", T("uint", n=64))]),
    )
    for name, ft, vals, followers in shapes:
        if only is not None and name not in only:
            continue
        top = T("msg", name=name, fields=padf + [(2, "x", ft)] + followers)
        f = sg.SFile(0, base, base)
        s = sg.Schema([f], top)
        s.texts = {base + ".bitproto": text}
        out.append((s, vals, f"C14:{tt}@{k}:{name}"))
    return out


def run(ck):
    types = leaf_types()
    pairs = [(t, k) for t in types for k in range(8)]
    if ck.quick:
        pairs = [p for i, p in enumerate(pairs) if (i * 7 + ck.seed) % 16 == 0]
    cases = []
    for t, k in pairs:
        cases.extend(make_cases(t, k))
    if ck.quick:
        # every (type, offset) pair in the Python runtime, mid-buffer shape only: a defect confined to ONE pair must
        # not depend on the seed's slice to be seen
        sliced = set((type_text(t), k) for t, k in pairs)
        for t in types:
            for k in range(8):
                if (type_text(t), k) not in sliced:
                    cases.extend(make_cases(t, k, only=("Fo",)))
    pywire.run_py_wire(ck, "C14.v", want_decode=True, n_quick=(0, 0), n_thorough=(0, 0), extra_cases=cases)
    ck.coverage["exhaustive"] = not ck.quick
    ck.coverage["rule"] = ("the finite space {bool, byte, uint1..64, int1..64} x bit offset 0..7 x {scalar, 3-element array, alias} x "
                           "basis values (zero, all-ones, every single bit, min, max; pad all-zeros and all-ones) plus a mid-buffer shape (two uint64 "
                           "followers, alternating / extreme patterns); quick = the 1/16 slice of (type, offset) pairs selected by the seed in all "
                           "runtimes + ALL 1040 pairs in the mid-buffer shape in the Python runtime, thorough = all 1040 pairs, all shapes, all runtimes; executed on the real Python runtime "
                           "(encode, decode, re-encode) against Spec evaluated in Coq")
    ck.coverage["tie"]["type_offset_pairs"] = len(pairs)
    try:
        from c14_c import run_c14_c           # C runtime (LE/BE builds) — provided by the C03 module
        run_c14_c(ck, pairs if not ck.quick else pairs[::2], make_cases)   # quick: half of the slice
    except ImportError:
        ck.coverage["tie"]["c_runtime"] = "not merged yet"
    try:
        from c14_opmode import run_c14_opmode  # optimization-mode statements — provided by the C04 module
        run_c14_opmode(ck, pairs, make_cases)
    except ImportError:
        ck.coverage["tie"]["opmode"] = "not merged yet"
