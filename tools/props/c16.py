"""C16 — JSON output is valid JSON that states the message's values (Python to_json/to_dict,
generated C Json<Msg>)."""
import jsonside

LEVEL = "proof"


def run(ck):
    jsonside.run_json(ck, "C16.v")
