"""C08 — a schema is accepted iff it satisfies the documented constraints (proof + T0/T2 ties)."""
import copy
import json
import os
import random

import front_gen as fg
import front_mut as fm
import frontside as fs
from vlib import Broken

LEVEL = "proof"

# findings that also belong to other properties (C09 / C13); the lines are proposed for
# known_findings.jsonl — until they are merged there this module supplies them itself
PENDING_KNOWN = [
    {"status": "known", "property": "C08", "key": "div-zero",
     "what": "const A = 1 / 0 is rejected with a ZeroDivisionError traceback, not with a parser error citing file "
             "and line (same defect as C09/C13 div-zero)",
     "class": {"site": "parser.p_calculation_expression_divide", "cond": "divisor evaluates to 0"},
     "witness": "corpus/C08/div_zero.json"},
    {"status": "known", "property": "C08", "key": "import-in-message",
     "what": "an import statement inside a message is rejected with an AttributeError traceback "
             "(p_message_item_unsupported uses p[0]), not with ImportInMessageUnsupported citing file and line",
     "class": {"site": "parser.p_message_item_unsupported", "cond": "import item in message scope"},
     "witness": "corpus/C08/import_in_message.json"},
    {"status": "known", "property": "C08", "key": "import-in-enum-location",
     "what": "an import statement inside an enum is rejected with ImportInEnumUnsupported citing the IMPORTED file, "
             "line 0, instead of the importing file and the line of the import statement",
     "class": {"site": "parser.p_enum_item_unsupported", "cond": "import item in enum scope (from_token of a Proto)"},
     "witness": "corpus/C08/import_in_enum.json"},
]


def P(*items, name="rootp"):
    return {name + ".bitproto": [["proto", None, name]] + list(items)}


def fld(t, name="a", num=1):
    return ["field", None, t, name, num]


def S(s):
    return ["single", s]


def A(s, cap, ext=False):
    return ["arr", s, ["lit", cap] if isinstance(cap, int) else ["ref", cap], ext]


def M(name, *body, ext=False):
    return ["msg", None, name, ext, list(body)]


def pad(bits, num):
    """fields of exactly `bits` bits (bool arrays of legal capacity)"""
    out = []
    while bits > 0:
        n = min(bits, 65535)
        out.append(fld(A(["bool"], n) if n > 1 else S(["bool"]), f"p{num}", num))
        bits -= n
        num += 1
    return out


def boundary_cases():
    """explicit pairs on both sides of every numeric limit: (files, expected code, cited node)"""
    out = []

    def add(files, code, node=None, rule=""):
        out.append(dict(files=files, code=code, node=node, rule=rule, file=next(iter(files)), trad=False))

    for k, bad in (("uint", 1), ("int", 2)):
        for n, ok in ((1, True), (64, True), (0, False), (65, False)):
            f = fld(S([k, n]))
            add(P(M("Mm", f)), 0 if ok else bad, None if ok else f, f"{k}{n} field")
            al = ["alias", None, "Tt", S([k, n])]
            add(P(al), 0 if ok else bad, None if ok else al, f"{k}{n} alias")
            f = fld(A([k, n], 2))
            add(P(M("Mm", f)), 0 if ok else bad, None if ok else f, f"{k}{n} array element")
    for n, ok in ((1, True), (64, True), (0, False), (65, False)):
        e = ["enum", None, "Ee", ["uint", n], [["efield", None, "ZA", 0]]]
        add(P(e), 0 if ok else 1, None if ok else e, f"enum base uint{n}")
    for cap, ok in ((1, True), (65535, True), (0, False), (65536, False)):
        al = ["alias", None, "Tt", A(["bool"], cap)]
        add(P(al), 0 if ok else 3, None if ok else al, f"array capacity {cap}")
        c = ["const", None, "NCAP", ["expr", ["add", ["int", cap], ["int", 0]]]]
        al = ["alias", None, "Tt", A(["bool"], ["NCAP"], True)]
        add(P(c, al), 0 if ok else 3, None if ok else al, f"array capacity {cap} via constant expression")
    for num, ok in ((1, True), (255, True), (0, False), (256, False)):
        f = fld(S(["bool"]), "a", num)
        add(P(M("Mm", f)), 0 if ok else 15, None if ok else f, f"field number {num}")
    for n in (1, 3, 8, 63, 64):
        for v, ok in (((1 << n) - 1, True), (1 << n, False)):
            m = ["efield", None, "ZB", v]
            e = ["enum", None, "Ee", ["uint", n], [["efield", None, "ZA", 0], m]]
            add(P(e), 0 if ok else 12, None if ok else m, f"enum uint{n} value {v}")
    # message sizes: 65535 / 65536 bits without and with the 16-bit prefix
    for ext in (False, True):
        lim = 65535 - (16 if ext else 0)
        for bits, ok in ((lim, True), (lim + 1, False)):
            m = M("Mm", *pad(bits, 1), ext=ext)
            add(P(m), 0 if ok else 19, None if ok else m, f"message of {bits} bits, extensible={ext}")
            # the same size reached through a nested extensible message and an extensible array
            inner = M("In", fld(A(["bool"], 100, True)), ext=True)            # 16 + 16 + 100 = 132 bits
            m = M("Mm", inner, fld(S(["ref", ["In"]]), "i", 1), *pad(bits - 132, 2), ext=ext)
            add(P(m), 0 if ok else 19, None if ok else m, f"message of {bits} bits via nested extensible parts")
    for mb, w, ok in ((2, 16, True), (2, 17, False), (1, 8, True), (1, 9, False), (0, 64, True),
                      (8191, 65528, True), (8191, 65529, False), (8192, 65535, True)):
        t = S(["uint", w]) if w <= 64 else A(["bool"], w)
        for first in (True, False):
            o = ["option", None, "max_bytes", ["lit", ["i", mb]]]
            m = M("Mm", *([o, fld(t)] if first else [fld(t), o]))
            add(P(m), 0 if ok else 19, None if ok else m, f"max_bytes={mb} with {w} bits")
    return out


def in_known_class_cases():
    """inside the regions of the listed findings (separate small stream)"""
    out = []
    c = ["const", None, "ZA", ["expr", ["div", ["int", 1], ["int", 0]]]]
    out.append(dict(files=P(c), key="div-zero", rule="division by zero in a constant expression"))
    c2 = ["const", None, "ZB", ["expr", ["div", ["int", 7], ["sub", ["ref", ["ZA"]], ["int", 3]]]]]
    out.append(dict(files=P(["const", None, "ZA", ["expr", ["int", 3]]], M("Mm", fld(S(["bool"]))), c2),
                    key="div-zero", rule="division by zero through a constant"))
    lib = {"zlib.bitproto": [["proto", None, "zlib"]]}
    f = P(M("Mm", fld(S(["bool"])), ["import", None, None, "zlib.bitproto"]))
    f.update(lib)
    out.append(dict(files=f, key="import-in-message", rule="import inside a message"))
    imp = ["import", None, None, "zlib.bitproto"]
    f = P(["enum", None, "Ee", ["uint", 3], [["efield", None, "ZA", 0], imp]])
    f.update(lib)
    out.append(dict(files=f, key="import-in-enum-location", rule="import inside an enum", code=26,
                    file="rootp.bitproto", node=imp))
    return out


def gen_stream(ck, n_trees, n_mut, n_double):
    cases = []
    for i in range(n_trees):
        rng = random.Random(f"C08:{ck.seed}:{i}")
        params = fg.Params(shadow=0.3 if i % 3 == 0 else 0.0, max_depth=3 if i % 5 == 0 else 2)
        files, _b = fg.gen_valid(rng, params)
        cases.append(dict(files=copy.deepcopy(files), code=0, node=None, rule="valid", file=None,
                          trad=False, origin=f"valid#{i}"))
        for j in range(n_mut):
            info = fm.mutate(files, rng, which=fm.Mut.ALL[(i * n_mut + j) % len(fm.Mut.ALL)] if j == 0 else None)
            if info is None:
                continue
            if info.get("crash"):
                continue                      # class of a listed finding: separate stream
            info["origin"] = f"mutant#{i}.{j}:{info['mutator']}"
            cases.append(info)
        for j in range(n_double):
            a = fm.mutate(files, rng)
            if a is None or a.get("crash"):
                continue
            b = fm.mutate(a["files"], rng)
            if b is None or b.get("crash"):
                continue
            b.update(code=None, node=None, origin=f"double#{i}.{j}:{a['mutator']}+{b['mutator']}",
                     rule=f"two violations ({a['rule']}; {b['rule']})", trad=bool(a.get("trad")) or bool(b.get("trad")))
            cases.append(b)
    return cases


def run(ck):
    ck.assumptions.extend(fs.ASSUME)
    ck.coverage["trusted_base"] = ["Coq 8.16.1 kernel + vm_compute", "tools/translate_front.py",
                                   "tools/front_gen.py printer + ply tokenizer/LALR driver (text <-> tree)",
                                   "tools/run_front.py + CPython 3.12", "no axioms (Print Assumptions: closed)"]
    for kf in PENDING_KNOWN:
        if not any(k.get("key") == kf["key"] for k in ck.known):
            ck.known.append(kf)
    ck.try_prove("C08.v", model_vo=("theories/Front.vo", "theories/Spec.vo"))

    specs = []
    for j in fs.load_corpus("C08"):
        specs.append(dict(files=j["files"], code=j.get("expect_code"), node=None, rule=j.get("rule", "corpus"),
                          file=j.get("expect_file"), line=j.get("expect_line"), trad=bool(j.get("trad")),
                          origin="corpus:" + os.path.basename(j["_path"]), key=j.get("key"), texts=j.get("texts")))
    n_corpus = len(specs)
    for b in boundary_cases():
        b["origin"] = "boundary:" + b["rule"]
        specs.append(b)
    n_boundary = len(specs) - n_corpus
    for k in in_known_class_cases():
        k.setdefault("code", None)
        k.setdefault("node", None)
        k.setdefault("file", None)
        k.update(trad=False, origin="inside-known-class:" + k["rule"])
        specs.append(k)
    specs.extend(gen_stream(ck, fs.scaled(ck.n(45, 700)), ck.n(7, 8), ck.n(1, 2)))

    cases = []
    for i, s in enumerate(specs):
        rng = random.Random(f"C08:print:{ck.seed}:{i}")
        files = s["files"]
        root = next(iter(files))
        try:
            texts = s.get("texts") or fg.render(files, rng, fg.Trivia() if i % 4 else fg.PLAIN)
            if s.get("texts"):
                fg.render(files, random.Random(0), fg.PLAIN)
        except ValueError:
            continue
        cases.append(fs.Case(files, root, bool(s.get("trad")), s["origin"], expect=s, texts=texts,
                             cli=(i % 3 == 0) or i < n_corpus + 12))
    import time
    t0 = time.time()
    results = fs.run_front(ck, cases, "c")
    t1 = time.time()
    codes = fs.compare_model(ck, cases, results, "c08")
    ck.coverage["tie"]["timing_s"] = {"implementation": round(t1 - t0, 1), "coq_evaluation": round(time.time() - t1, 1)}

    n_tie = n_prop = n_cli = 0
    dist = {}
    distinct = set()
    for i, (c, r, code) in enumerate(zip(cases, results, codes)):
        s = c.expect
        if "obs" not in r:
            ck.broken(Broken(f"tie T2: the worker could not run case {c.origin}", str(r)[:500]))
            continue
        o = r["obs"]
        distinct.add(json.dumps(c.texts, sort_keys=True))
        dist[s.get("mutator", s["origin"].split(":")[0])] = dist.get(s.get("mutator", s["origin"].split(":")[0]), 0) + 1
        replay = {"files": c.files, "texts": c.texts, "root": c.root, "trad": c.trad, "origin": c.origin,
                  "rule": s.get("rule"), "observed": {k: o.get(k) for k in ("code", "cls", "file", "line", "msg")}}
        # --- property: a rejection is a ParserError citing file+line; crash = finding
        if o["code"] in (22, 36, 97, 98):
            key = s.get("key") or ("div-zero" if o["code"] == 36 else "import-in-message" if o["code"] == 22 else None)
            ck.violation(f"the compiler rejected a schema with a {o['cls']} traceback instead of a parser error "
                         f"citing file and line ({s.get('rule')})", replay, found_input=True, key=key)
        # --- tie: model vs implementation
        if code != 0:
            n_tie += 1
            if n_tie <= 3:
                replay["model"] = fs.model_obs(ck, c, f"c{i}")
            ck.broken(Broken(f"tie T2: Front.check and the real parser disagree on {c.origin} ({s.get('rule')})",
                             json.dumps(replay)[:3000]))
            if s.get("code") is None:
                ck.violation(f"real parser and model disagree on {c.origin}", replay, found_input=False)
        # --- property as read by the catalogue: expected class / file / line
        if s.get("code") is not None:
            exp_line = s["line"] if s.get("line") is not None else (s["node"][1] if s.get("node") is not None else 0)
            exp_file = (s.get("file") or "") if s["code"] != 0 else ""
            if (o["code"], o["file"], o["line"]) != (s["code"], exp_file, exp_line):
                n_prop += 1
                replay["expected"] = {"code": s["code"], "file": exp_file, "line": exp_line}
                ck.violation(f"{s.get('rule')}: expected kind {s['code']} at {exp_file}:{exp_line}, the compiler "
                             f"reported {o['cls'] or 'acceptance'} at {o['file']}:{o['line']}", replay,
                             found_input=True, key=s.get("key"))
        # --- CLI: exit status, stderr, no output file on rejection
        if "cli" in r:
            cli = r["cli"]
            rejected = o["code"] != 0
            bad = None
            if rejected and cli["rc"] == 0:
                bad = "exit status 0 for a rejected schema"
            elif rejected and cli["outfiles"]:
                bad = f"files generated for a rejected schema: {cli['outfiles']}"
            elif not rejected and cli["rc"] != 0:
                bad = f"exit status {cli['rc']} for an accepted schema: {cli['stderr'][-200:]}"
            elif not rejected and not cli["outfiles"]:
                bad = "no file generated for an accepted schema"
            elif rejected and 1 <= o["code"] <= 34 and o["code"] != 22 and o["line"] > 0 \
                    and f"{o['file']}:L{o['line']}" not in cli["stderr"]:
                bad = f"stderr does not cite {o['file']}:L{o['line']}: {cli['stderr'][-200:]}"
            if bad:
                n_cli += 1
                replay["cli"] = cli
                ck.violation("CLI: " + bad, replay, found_input=True,
                             key=s.get("key") if o["code"] in (22, 36) else None)

    cov = ck.coverage
    cov["evaluations"] = len(cases)
    cov["distinct_nontrivial"] = len(distinct)
    cov["rule"] = ("surface trees from tools/front_gen.py (valid by construction: nesting, shadowing, imports, constants, "
                   "aliases, options) and single-violation mutants from tools/front_mut.py (DESIGN Appendix B, every rule at a "
                   "random position / depth / file), explicit boundary pairs on both sides of every numeric limit, double "
                   "mutants (error precedence); each printed with random trivia; a case = the set of file texts; "
                   "distinct = distinct text sets")
    cov["tie"] = {**cov.get("tie", {}), "cases": len(cases), "corpus": n_corpus, "boundary": n_boundary,
                  "cli_runs": sum(1 for r in results if "cli" in r), "tie_mismatches": n_tie,
                  "catalogue_mismatches": n_prop, "cli_mismatches": n_cli,
                  "accepted": sum(1 for r in results if r.get("obs", {}).get("code") == 0),
                  "rejected_by_class": _hist(results)}
    cov["distribution"] = dist
    for c, r in list(zip(cases, results))[n_corpus + n_boundary + 3:][:2]:
        if "obs" in r:
            cov["samples"].append({"texts": c.texts, "origin": c.origin,
                                   "observed": {k: r["obs"].get(k) for k in ("code", "cls", "file", "line")}})


def _hist(results):
    h = {}
    for r in results:
        k = r.get("obs", {}).get("cls") or "accepted"
        h[k] = h.get(k, 0) + 1
    return h
