"""C08 — a schema is accepted iff it satisfies the documented constraints (proof + T0/T2 ties)."""
import copy
import json
import os
import random

import front_gen as fg
import front_mut as fm
import frontside as fs
import lexstage
from vlib import Broken

LEVEL = "proof"

def P(*items, name="rootp"):
    return {name + ".bitproto": [["proto", None, name]] + list(items)}


def fld(t, name="a", num=1):
    return ["field", None, t, name, num]


def S(s):
    return ["single", s]


def A(s, cap, ext=False):
    return ["arr", s, ["lit", cap] if isinstance(cap, int) else ["ref", cap], ext]


def M(name, *body, ext=False):
    return ["msg", None, name, ext, list(body)]


def pad(bits, num):
    """fields of exactly `bits` bits (bool arrays of legal capacity)"""
    out = []
    while bits > 0:
        n = min(bits, 65535)
        out.append(fld(A(["bool"], n) if n > 1 else S(["bool"]), f"p{num}", num))
        bits -= n
        num += 1
    return out


def boundary_cases():
    """explicit pairs on both sides of every numeric limit: (files, expected code, cited node)"""
    out = []

    def add(files, code, node=None, rule=""):
        out.append(dict(files=files, code=code, node=node, rule=rule, file=next(iter(files)), trad=False))

    for k, bad in (("uint", 1), ("int", 2)):
        for n, ok in ((1, True), (64, True), (0, False), (65, False)):
            f = fld(S([k, n]))
            add(P(M("Mm", f)), 0 if ok else bad, None if ok else f, f"{k}{n} field")
            al = ["alias", None, "Tt", S([k, n])]
            add(P(al), 0 if ok else bad, None if ok else al, f"{k}{n} alias")
            f = fld(A([k, n], 2))
            add(P(M("Mm", f)), 0 if ok else bad, None if ok else f, f"{k}{n} array element")
    for n, ok in ((1, True), (64, True), (0, False), (65, False)):
        e = ["enum", None, "Ee", ["uint", n], [["efield", None, "ZA", 0]]]
        add(P(e), 0 if ok else 1, None if ok else e, f"enum base uint{n}")
    for cap, ok in ((1, True), (65535, True), (0, False), (65536, False)):
        al = ["alias", None, "Tt", A(["bool"], cap)]
        add(P(al), 0 if ok else 3, None if ok else al, f"array capacity {cap}")
        c = ["const", None, "NCAP", ["expr", ["add", ["int", cap], ["int", 0]]]]
        al = ["alias", None, "Tt", A(["bool"], ["NCAP"], True)]
        add(P(c, al), 0 if ok else 3, None if ok else al, f"array capacity {cap} via constant expression")
    for num, ok in ((1, True), (255, True), (0, False), (256, False)):
        f = fld(S(["bool"]), "a", num)
        add(P(M("Mm", f)), 0 if ok else 15, None if ok else f, f"field number {num}")
    for n in (1, 3, 8, 63, 64):
        for v, ok in (((1 << n) - 1, True), (1 << n, False)):
            m = ["efield", None, "ZB", v]
            e = ["enum", None, "Ee", ["uint", n], [["efield", None, "ZA", 0], m]]
            add(P(e), 0 if ok else 12, None if ok else m, f"enum uint{n} value {v}")
    # message sizes: 65535 / 65536 bits without and with the 16-bit prefix
    for ext in (False, True):
        lim = 65535 - (16 if ext else 0)
        for bits, ok in ((lim, True), (lim + 1, False)):
            m = M("Mm", *pad(bits, 1), ext=ext)
            add(P(m), 0 if ok else 19, None if ok else m, f"message of {bits} bits, extensible={ext}")
            # the same size reached through a nested extensible message and an extensible array
            inner = M("In", fld(A(["bool"], 100, True)), ext=True)            # 16 + 16 + 100 = 132 bits
            m = M("Mm", inner, fld(S(["ref", ["In"]]), "i", 1), *pad(bits - 132, 2), ext=ext)
            add(P(m), 0 if ok else 19, None if ok else m, f"message of {bits} bits via nested extensible parts")
    for mb, w, ok in ((2, 16, True), (2, 17, False), (1, 8, True), (1, 9, False), (0, 64, True),
                      (8191, 65528, True), (8191, 65529, False), (8192, 65535, True)):
        t = S(["uint", w]) if w <= 64 else A(["bool"], w)
        for first in (True, False):
            o = ["option", None, "max_bytes", ["lit", ["i", mb]]]
            m = M("Mm", *([o, fld(t)] if first else [fld(t), o]))
            add(P(m), 0 if ok else 19, None if ok else m, f"max_bytes={mb} with {w} bits")
    return out


def catalogue_cases():
    """every rule of the catalogue once in its simplest form (deterministic, independent of the
    seed); the random mutants then vary position, depth and file"""
    out = []

    def add(files, code, node=None, rule="", file=None, trad=False):
        out.append(dict(files=files, code=code, node=node, rule="catalogue: " + rule,
                        file=file or next(iter(files)), trad=trad))

    def E(name, *members, n=3):
        return ["enum", None, name, ["uint", n], [["efield", None, m, i] for i, m in enumerate(members)]]

    def AL(name, t):
        return ["alias", None, name, t]

    def C(name, v):
        return ["const", None, name, ["expr", ["int", v]] if isinstance(v, int) else v]

    u3 = S(["uint", 3])
    ref = lambda *p: S(["ref", list(p)])          # noqa: E731
    # --- names unique per scope: every kind as the LATER duplicate
    for mk, what in ((lambda: M("Dd"), "message"), (lambda: E("Dd", "ZA"), "enum"), (lambda: AL("Dd", u3), "alias"),
                     (lambda: C("Dd", 1), "constant")):
        for mk0, what0 in ((lambda: M("Dd"), "message"), (lambda: C("Dd", 2), "constant")):
            later = mk()
            add(P(mk0(), later), 4, later, f"{what} after a {what0} of the same name")
    f2 = fld(u3, "a", 2)
    add(P(M("Mm", fld(u3, "a", 1), f2)), 4, f2, "two fields of one name")
    inner = M("a")
    add(P(M("Mm", fld(u3, "a", 1), inner)), 4, inner, "nested message named like a field")
    f2 = fld(u3, "Inn", 2)
    add(P(M("Mm", E("Inn", "ZA"), f2)), 4, f2, "field named like a nested enum")
    m2 = ["efield", None, "ZA", 1]
    add(P(["enum", None, "Ee", ["uint", 3], [["efield", None, "ZA", 0], m2]]), 4, m2, "two enum members of one name")
    lib = {"zl.bitproto": [["proto", None, "zl"], M("Kk", fld(u3))]}
    d = M("zl")
    f = P(["import", None, None, "zl.bitproto"], d); f.update(lib)
    add(f, 4, d, "definition named like an import")
    imp = ["import", None, None, "zl.bitproto"]
    f = P(M("zl"), imp); f.update(lib)
    add(f, 4, imp, "import named like a definition")
    imp2 = ["import", None, "zl", "zk.bitproto"]
    f = P(["import", None, None, "zl.bitproto"], imp2); f.update(lib); f["zk.bitproto"] = [["proto", None, "zk"]]
    add(f, 4, imp2, "two imports under one name")
    o2 = ["option", None, "max_bytes", ["lit", ["i", 9]]]
    add(P(M("Mm", ["option", None, "max_bytes", ["lit", ["i", 8]]], o2)), 4, o2, "option given twice")
    f2 = fld(u3, "b", 1)
    add(P(M("Mm", fld(u3, "a", 1), f2)), 16, f2, "duplicate field number")
    m2 = ["efield", None, "ZB", 0]
    add(P(["enum", None, "Ee", ["uint", 3], [["efield", None, "ZA", 0], m2]]), 13, m2, "duplicate enum value")
    # --- aliases name only unnamed types
    for mk, what in ((lambda: M("Tt"), "message"), (lambda: E("Tt", "ZA"), "enum"), (lambda: AL("Tt", u3), "alias")):
        a = AL("Uu", ref("Tt"))
        add(P(mk(), a), 14, a, f"alias of a {what}")
    add(P(AL("Tt", A(["uint", 3], 2)), AL("Uu", A(["ref", ["Tt"]], 2)), M("Mm", fld(ref("Uu")))), 0, None,
        "array of array through an alias is valid")
    # --- nothing declared in a scope that forbids it
    for it, code, what in ((AL("Zz", u3), 20, "alias"), (C("Zz", 1), 21, "constant"), (["proto", None, "zz"], 23, "proto")):
        add(P(M("Mm", fld(u3), it)), code, it, f"{what} inside a message")
    for it, code, what in ((AL("Zz", u3), 24, "alias"), (C("Zz", 1), 25, "constant"),
                           (["option", None, "max_bytes", ["lit", ["i", 1]]], 27, "option"), (E("Zz"), 28, "enum"),
                           (M("Zz"), 29, "message"), (fld(u3, "zz", 1), 30, "message field"), (["proto", None, "zz"], 23, "proto")):
        add(P(["enum", None, "Ee", ["uint", 3], [["efield", None, "ZA", 0], it]]), code, it, f"{what} inside an enum")
    for it, what in ((fld(u3, "zz", 1), "field at file level"), (["efield", None, "ZA", 1], "enum member at file level")):
        add(P(M("Mm"), it), 34, it, what)
    it = ["efield", None, "ZA", 1]
    add(P(M("Mm", fld(u3), it)), 34, it, "enum member inside a message")
    for b in (["int", 8], ["bool"], ["byte"], ["ref", ["Tt"]]):
        e = ["enum", None, "Ee", b, []]
        add(P(AL("Tt", u3), e), 34, e, f"enum over {b[0]}")
    # --- options
    for it, code, what in ((["option", None, "zzz", ["lit", ["i", 1]]], 17, "unknown option"),
                           (["option", None, "max_bytes", ["lit", ["i", 1]]], 17, "message option at file level"),
                           (["option", None, "c.name_prefix", ["lit", ["i", 1]]], 18, "string option given an integer"),
                           (["option", None, "c.struct_packing_alignment", ["lit", ["i", 9]]], 18, "alignment out of range"),
                           (["option", None, "c.struct_packing_alignment", ["lit", ["b", True]]], 18, "integer option given a boolean")):
        add(P(it, M("Mm")), code, it, what)
    for it, code, what in ((["option", None, "zzz", ["lit", ["i", 1]]], 17, "unknown option in a message"),
                           (["option", None, "c.name_prefix", ["lit", ["s", "p"]]], 17, "file option inside a message"),
                           (["option", None, "max_bytes", ["lit", ["s", "8"]]], 18, "max_bytes given a string"),
                           (["option", None, "max_bytes", ["ref", ["NEG"]]], 18, "max_bytes negative")):
        add(P(C("NEG", ["expr", ["sub", ["int", 1], ["int", 2]]]), M("Mm", fld(u3), it)), code, it, what)
    # --- references: declared earlier, right kind
    for t, code, what in ((ref("Nope"), 9, "undefined type"), (ref("Later"), 9, "type defined later"),
                          (ref("Mm"), 9, "message used inside itself"), (ref("KK"), 10, "constant used as a type"),
                          (ref("Oo", "In"), 0, "nested type through its path"), (ref("In"), 9, "nested type without its path"),
                          (ref("Tt", "x"), 9, "path continued past an alias"), (ref("Ee", "ZA", "q"), 9, "path continued past an enum member"),
                          (ref("Ee", "ZA"), 10, "enum member used as a type"), (ref("Oo", "f"), 10, "message field used as a type"),
                          (A(["ref", ["Ee"]], ["NOPE"]), 7, "undefined constant as capacity"),
                          (A(["ref", ["Ee"]], ["BB"]), 3, "boolean constant as capacity"),
                          (A(["ref", ["Ee"]], ["Ee"]), 8, "type used as capacity")):
        f = fld(t)
        add(P(C("KK", 3), C("BB", ["bool", True]), AL("Tt", u3), E("Ee", "ZA"), M("Oo", M("In", fld(u3)), fld(u3, "f", 1)),
              M("Mm", f), M("Later")), code, None if code == 0 else f, what)
    for v, code, what in ((["ref", ["Ee"]], 8, "type used as a constant"), (["ref", ["NOPE"]], 7, "undefined constant"),
                          (["expr", ["add", ["ref", ["BB"]], ["int", 1]]], 33, "boolean constant in arithmetic"),
                          (["expr", ["mul", ["int", 2], ["ref", ["SS"]]]], 33, "string constant in arithmetic"),
                          (["ref", ["BB"]], 0, "boolean constant copied"), (["ref", ["Ee", "ZA"]], 8, "enum member as a constant")):
        c = ["const", None, "ZK", v]
        add(P(C("BB", ["bool", True]), C("SS", ["str", "s"]), E("Ee", "ZA"), c), code, None if code == 0 else c, what)
    # --- imports
    imp = ["import", None, None, "rootp.bitproto"]
    add(P(imp), 6, imp, "import cycle of length 1")
    imp = ["import", None, None, "rootp.bitproto"]
    f = P(["import", None, None, "zl.bitproto"]); f["zl.bitproto"] = [["proto", None, "zl"], imp]
    add(f, 6, imp, "import cycle of length 2", file="zl.bitproto")
    imp2 = ["import", None, "again", "zl.bitproto"]
    f = P(["import", None, None, "zl.bitproto"], imp2); f.update(lib)
    add(f, 5, imp2, "the same file imported twice")
    add(P(["import", None, None, "zmissing.bitproto"]), 35, None, "missing file", file="zmissing.bitproto")
    fup = fld(ref("Up"))
    f = P(E("Up", "ZA"), ["import", None, None, "zl.bitproto"]); f["zl.bitproto"] = [["proto", None, "zl"], M("Kk", fup)]
    add(f, 9, fup, "definition of the importing file used in the imported file", file="zl.bitproto")
    # ... whatever the use (type, array capacity, option value, constant expression) and the depth
    for use, node, code in (("field type", fld(ref("Up")), 9), ("array capacity", fld(A(["bool"], ["UPK"])), 7),
                            ("option value", ["option", None, "max_bytes", ["ref", ["UPK"]]], 7),
                            ("constant expression", ["const", None, "ZK", ["expr", ["add", ["ref", ["UPK"]], ["int", 1]]]], 7),
                            ("constant copy", ["const", None, "ZK", ["ref", ["UPK"]]], 7)):
        for depth in (1, 2):
            inner = [["proto", None, "zl"]] + ([copy.deepcopy(node)] if node[0] == "const"
                                               else [M("Kk", fld(u3, "k", 9), copy.deepcopy(node))])
            used = inner[1] if node[0] == "const" else inner[1][4][1]
            f = P(E("Up", "ZA"), C("UPK", 4), ["import", None, None, "zl.bitproto" if depth == 1 else "zmid.bitproto"])
            if depth == 2:
                f["zmid.bitproto"] = [["proto", None, "zmid"], ["import", None, None, "zl.bitproto"]]
            f["zl.bitproto"] = inner
            add(f, code, used, f"definition of an importing file used in an imported file as {use}, import depth {depth}",
                file="zl.bitproto")
    # --- round 2: resolution depends on where / after what a name is used (every variant once,
    #     in the root file and in an imported file)
    for fam, fn in sorted(fg.SCENARIOS.items()):
        variants = {"dotted_reuse": ["escape", "escape_deep", "twin", "outer_later"],
                    "cross_kind": ["type_by_field", "type_by_outer_field", "const_by_nested", "const_by_field",
                                   "const_option_by_nested", "type_not_hidden_by_enum_member"],
                    "popped_by_member": ["one_level", "two_level", "two_level_deep", "const_by_enum_member", "import_by_field"],
                    "twin_short_names": ["nested", "import"]}[fam]
        for v in variants:
            for in_import in (False, True):
                rng = random.Random(f"catalogue:{fam}:{v}")
                files, _top, info = fn(rng, v)
                key = "rootp.bitproto"
                if in_import and len(files) == 1:
                    files = {"rootp.bitproto": [["proto", None, "rootp"], ["import", None, None, "zscen.bitproto"]],
                             "zscen.bitproto": [["proto", None, "zscen"]] + files["rootp.bitproto"][1:]}
                    key = "zscen.bitproto"
                elif in_import:
                    continue
                code, node = info["expect"]
                add(files, code, node, f"{fam} / {v}" + (" in an imported file" if in_import else ""), file=key)
    # capacities as quotients of operands beyond 2^53 (exact integer division), at the limit
    for n, ok in ((65535, True), (65536, False), (1, True), (0, False)):
        for sh in (56, 64):
            d = 1 << sh
            c = ["const", None, "BIGN", ["expr", ["div", ["int", (n + 1) * d - 1], ["int", d]]]]
            al = ["alias", None, "Tt", A(["bool"], ["BIGN"])]
            add(P(c, al), 0 if ok else 3, None if ok else al, f"capacity {n} as ((n+1)*2^{sh}-1) / 2^{sh}")
    add({"rootp.bitproto": [M("Mm")]}, 31, None, "missing proto statement")
    f = P(["import", None, None, "zl.bitproto"]); f["zl.bitproto"] = [M("Kk")]
    add(f, 31, None, "missing proto statement in an imported file", file="zl.bitproto")
    # --- traditional mode
    m = M("Mm", fld(u3), ext=True)
    add(P(m), 32, m, "extensible message in traditional mode", trad=True)
    fa = fld(A(["uint", 3], 2, True))
    add(P(M("Mm", fa)), 32, fa, "extensible array in traditional mode", trad=True)
    m = M("Kk", fld(u3), ext=True)
    f = P(["import", None, None, "zl.bitproto"]); f["zl.bitproto"] = [["proto", None, "zl"], m]
    add(f, 32, m, "extensible message of an imported file in traditional mode", file="zl.bitproto", trad=True)
    add(P(M("Mm", fld(u3))), 0, None, "traditional schema in traditional mode", trad=True)
    return out


def fixed_finding_cases():
    """regressions of the three fixed findings (fix: ba6c9a1, 5271e56), with the NEW outcome"""
    out = []
    c = ["const", None, "ZA", ["expr", ["div", ["int", 1], ["int", 0]]]]
    out.append(dict(files=P(c), code=33, node=c, file="rootp.bitproto", rule="fixed: division by zero in a constant expression"))
    c2 = ["const", None, "ZB", ["expr", ["div", ["int", 7], ["sub", ["ref", ["ZA"]], ["int", 3]]]]]
    out.append(dict(files=P(["const", None, "ZA", ["expr", ["int", 3]]], M("Mm", fld(S(["bool"]))), c2), code=33, node=c2,
                    file="rootp.bitproto", rule="fixed: division by zero through a constant"))
    lib = {"zlib.bitproto": [["proto", None, "zlib"]]}
    imp = ["import", None, None, "zlib.bitproto"]
    f = P(M("Mm", fld(S(["bool"])), imp))
    f.update(lib)
    out.append(dict(files=f, code=22, node=imp, file="rootp.bitproto", rule="fixed: import inside a message"))
    imp = ["import", None, None, "zlib.bitproto"]
    f = P(["enum", None, "Ee", ["uint", 3], [["efield", None, "ZA", 0], imp]])
    f.update(lib)
    out.append(dict(files=f, code=26, node=imp, file="rootp.bitproto", rule="fixed: import inside an enum"))
    return out


def gen_stream(ck, n_trees, n_mut, n_double):
    cases = []
    for i in range(n_trees):
        rng = random.Random(f"C08:{ck.seed}:{i}")
        params = fg.Params(shadow=0.3 if i % 3 == 0 else 0.0, max_depth=3 if i % 5 == 0 else 2)
        files, _b = fg.gen_valid(rng, params)
        cases.append(dict(files=copy.deepcopy(files), code=0, node=None, rule="valid", file=None,
                          trad=False, origin=f"valid#{i}"))
        for j in range(n_mut):
            info = fm.mutate(files, rng, which=fm.Mut.ALL[(i * n_mut + j) % len(fm.Mut.ALL)] if j == 0 else None)
            if info is None:
                continue
            info["origin"] = f"mutant#{i}.{j}:{info['mutator']}"
            cases.append(info)
        for j in range(n_double):
            a = fm.mutate(files, rng)
            if a is None:
                continue
            b = fm.mutate(a["files"], rng)
            if b is None:
                continue
            b.update(code=None, node=None, origin=f"double#{i}.{j}:{a['mutator']}+{b['mutator']}",
                     rule=f"two violations ({a['rule']}; {b['rule']})", trad=bool(a.get("trad")) or bool(b.get("trad")))
            cases.append(b)
    return cases


def run(ck):
    ck.assumptions.extend(fs.ASSUME)
    ck.coverage["trusted_base"] = ["Coq 8.16.1 kernel + vm_compute", "tools/translate_front.py",
                                   "tools/front_gen.py printer + ply tokenizer/LALR driver (text <-> tree)",
                                   "tools/run_front.py + CPython 3.12", "no axioms (Print Assumptions: closed)"]
    fs.ensure_model_translation()
    ck.try_prove("C08.v", model_vo=("theories/Front.vo", "theories/Spec.vo"))

    specs = []
    for j in fs.load_corpus("C08"):
        specs.append(dict(files=j["files"], code=j.get("expect_code"), node=None, rule=j.get("rule", "corpus"),
                          file=j.get("expect_file"), line=j.get("expect_line"), trad=bool(j.get("trad")),
                          origin="corpus:" + os.path.basename(j["_path"]), texts=j.get("texts")))
    n_corpus = len(specs)
    for b in boundary_cases():
        b["origin"] = "boundary:" + b["rule"]
        specs.append(b)
    for b in catalogue_cases():
        b["origin"] = b["rule"]
        specs.append(b)
    n_boundary = len(specs) - n_corpus
    for k in fixed_finding_cases():
        k.update(trad=False, origin=k["rule"])
        specs.append(k)
    specs.extend(gen_stream(ck, fs.scaled(ck.n(36, 700)), ck.n(7, 8), ck.n(1, 2)))

    cases = []
    for i, s in enumerate(specs):
        rng = random.Random(f"C08:print:{ck.seed}:{i}")
        files = s["files"]
        root = next(iter(files))
        try:
            texts = s.get("texts") or fg.render(files, rng, fg.Trivia() if (i % 4 and s.get("line") is None) else fg.PLAIN)
            if s.get("texts"):
                fg.render(files, random.Random(0), fg.PLAIN)
        except ValueError:
            continue
        cases.append(fs.Case(files, root, bool(s.get("trad")), s["origin"], expect=s, texts=texts,
                             cli=(i % 4 == 0) or i < n_corpus + 12))
    import time
    t0 = time.time()
    results = fs.run_front(ck, cases, "c")
    t1 = time.time()
    codes = fs.compare_model(ck, cases, results, "c08")
    ck.coverage["tie"]["timing_s"] = {"implementation": round(t1 - t0, 1), "coq_evaluation": round(time.time() - t1, 1)}

    n_tie = n_prop = n_cli = 0
    dist = {}
    distinct = set()
    for i, (c, r, code) in enumerate(zip(cases, results, codes)):
        s = c.expect
        if "obs" not in r:
            ck.broken(Broken(f"tie T2: the worker could not run case {c.origin}", str(r)[:500]))
            continue
        o = r["obs"]
        distinct.add(json.dumps(c.texts, sort_keys=True))
        dist[s.get("mutator", s["origin"].split(":")[0])] = dist.get(s.get("mutator", s["origin"].split(":")[0]), 0) + 1
        replay = {"files": c.files, "texts": c.texts, "root": c.root, "trad": c.trad, "origin": c.origin,
                  "rule": s.get("rule"), "observed": {k: o.get(k) for k in ("code", "cls", "file", "line", "msg")}}
        # --- property: a rejection is a ParserError citing file+line, never a traceback
        if o["code"] in (36, 97, 98):
            ck.violation(f"the compiler rejected a schema with a {o['cls']} traceback instead of a parser error "
                         f"citing file and line ({s.get('rule')})", replay, found_input=True)
        # --- tie: model vs implementation
        if code != 0:
            n_tie += 1
            if n_tie <= 3:
                replay["model"] = fs.model_obs(ck, c, f"c{i}")
            ck.broken(Broken(f"tie T2: Front.check and the real parser disagree on {c.origin} ({s.get('rule')})",
                             json.dumps(replay)[:3000]))
            if s.get("code") is None:
                ck.violation(f"real parser and model disagree on {c.origin}", replay, found_input=False)
        # --- property as read by the catalogue: expected class / file / line
        if s.get("code") is not None:
            exp_line = s["line"] if s.get("line") is not None else (s["node"][1] if s.get("node") is not None else 0)
            exp_file = (s.get("file") or "") if s["code"] != 0 else ""
            if (o["code"], o["file"], o["line"]) != (s["code"], exp_file, exp_line):
                n_prop += 1
                replay["expected"] = {"code": s["code"], "file": exp_file, "line": exp_line}
                ck.violation(f"{s.get('rule')}: expected kind {s['code']} at {exp_file}:{exp_line}, the compiler "
                             f"reported {o['cls'] or 'acceptance'} at {o['file']}:{o['line']}", replay,
                             found_input=True)
        # --- CLI: exit status, stderr, no output file on rejection
        if "cli" in r:
            cli = r["cli"]
            rejected = o["code"] != 0
            bad = None
            if rejected and cli["rc"] == 0:
                bad = "exit status 0 for a rejected schema"
            elif rejected and cli["outfiles"]:
                bad = f"files generated for a rejected schema: {cli['outfiles']}"
            elif not rejected and cli["rc"] != 0:
                bad = f"exit status {cli['rc']} for an accepted schema: {cli['stderr'][-200:]}"
            elif not rejected and not cli["outfiles"]:
                bad = "no file generated for an accepted schema"
            elif rejected and 1 <= o["code"] <= 34 and o["line"] > 0 \
                    and f"{o['file']}:L{o['line']}" not in cli["stderr"]:
                bad = f"stderr does not cite {o['file']}:L{o['line']}: {cli['stderr'][-200:]}"
            if bad:
                n_cli += 1
                replay["cli"] = cli
                ck.violation("CLI: " + bad, replay, found_input=True)

    cov = ck.coverage
    cov["evaluations"] = len(cases)
    cov["distinct_nontrivial"] = len(distinct)
    cov["rule"] = ("surface trees from tools/front_gen.py (valid by construction: nesting, shadowing, imports, constants, "
                   "aliases, options) and single-violation mutants from tools/front_mut.py (DESIGN Appendix B, every rule at a "
                   "random position / depth / file), explicit boundary pairs on both sides of every numeric limit, double "
                   "mutants (error precedence); each printed with random trivia; a case = the set of file texts; "
                   "distinct = distinct text sets")
    cov["tie"] = {**cov.get("tie", {}), "cases": len(cases), "corpus": n_corpus, "boundary": n_boundary,
                  "cli_runs": sum(1 for r in results if "cli" in r), "tie_mismatches": n_tie,
                  "catalogue_mismatches": n_prop, "cli_mismatches": n_cli,
                  "accepted": sum(1 for r in results if r.get("obs", {}).get("code") == 0),
                  "rejected_by_class": _hist(results)}
    cov["distribution"] = dist
    for c, r in list(zip(cases, results))[n_corpus + n_boundary + 3:][:2]:
        if "obs" in r:
            cov["samples"].append({"texts": c.texts, "origin": c.origin,
                                   "observed": {k: r["obs"].get(k) for k in ("code", "cls", "file", "line")}})
    lexstage.lex_stage(ck, "C08_lex.v", 1, 8, "C08")    # text level: the tokenizer (tools/lexstage.py)
    # the parser itself (token list -> reductions): LALR tables validated, driver modelled (tools/lrstage.py)
    import lrstage
    lrstage.lr_stage(ck, "C08_lr.v", lrstage.QUICK, lrstage.THOROUGH, "lr")


def _hist(results):
    h = {}
    for r in results:
        k = r.get("obs", {}).get("cls") or "accepted"
        h[k] = h.get(k, 0) + 1
    return h
