"""C01 — Python encoder emits exactly the specified bit layout (proof + T0/T1/T2 ties)."""
import pywire

LEVEL = "proof"


def run(ck):
    pywire.run_py_wire(ck, "C01.v", want_decode=False)
