"""C20 — Lint is advisory and diagnostics point at the right line.

proof:  props/C20.v over Main.v (decide), Lint.v (rules, pascal_case / snake_case, positions)
        and gen/GenCli.v (T0: rule table, indent expression, _get_col, current_indent, the
        lexer's rules with their regexes and the set of rules that write lineno).
T2:     (a) pascal_case / snake_case / isupper of the real utils on an exhaustive set of short
            names + random identifiers, compared in Coq with the hand-written model;
        (b) conforming and name-perturbed schemas through the real `-c` and compile runs:
            warnings (class, file, line) in order and exit status against the model and the
            property; outputs with and without -q textually identical;
        (c) lineno / token_col_start / indent of every definition and reference as recorded by
            the real parser against the positions known to the printer (model + property);
        (d) single-violation invalid schemas at random lines, also inside imported files:
            cited file and line.
   Input classes added in round 2: several one-line statements on ONE physical line
   (`const W = 4; const H = 8`, `type Row = uint8[4]; type Cell = uint8`, fields, enum members;
   with `;`, with blanks only), in the perturbed and the position streams; string constants with
   escape sequences (backslash-n, -t, -r, quotes) followed by later definitions, diagnostics
   and mutants; a boundary catalogue of warning COUNTS (255, 256, 257, 512; thorough: more)
   for the `-c` exit status, which is a process status (8 bits)."""
from __future__ import annotations

import itertools
import os
import random
import time
from typing import Any, Dict, List, Optional, Tuple

import cli_gen as cg
import cliside as cs
import lexstage
import pyside
from vlib import Broken, Check, cnat, run_workers

LEVEL = "proof"
ROOT = "root.bitproto"


def lint_schema(ck: Check, i: int) -> Tuple[cg.Schema, str]:
    rng = random.Random(f"{ck.prop}:{ck.seed}:lint:{i}")
    k = i % 4
    if k == 0:
        p, tag = cg.Params(n_imports=1 + (i // 4) % 2, nested_import=((i // 8) % 2 == 1), perturb=0.0, perturb_import=0.5, indent_noise=0.0, enum_no_zero=0.0), "conforming"
    elif k == 1:
        p, tag = cg.Params(n_imports=1, perturb=0.4, perturb_import=0.3, enum_no_zero=0.4, same_line=0.35), "perturbed"
    elif k == 2:
        p, tag = cg.Params(n_imports=0, perturb=0.25, indent_noise=0.25, enum_no_zero=0.2, same_line=0.2), "perturbed+indent"
    else:
        p, tag = cg.Params(n_imports=2, nested_import=True, perturb=0.15, perturb_import=0.6, enum_no_zero=0.1, same_line=0.15), "perturbed-imports"
    return cg.Gen(rng, p).schema(), f"{tag}#{i}"


def pos_schema(ck: Check, i: int, line1: bool) -> Tuple[cg.Schema, str]:
    rng = random.Random(f"{ck.prop}:{ck.seed}:pos:{i}:{line1}")
    p = cg.Params(n_imports=i % 3, nested_import=(i % 3 == 2), perturb=0.1, indent_noise=0.2, comments=0.4,
                  same_line=(0.3 if i % 2 else 0.0),
                  blanks=0.4, line1_def=line1, dup_simple_names=(i % 2 == 0))
    return cg.Gen(rng, p).schema(), f"{'line1' if line1 else 'pos'}#{i}"


def gen_names(ck: Check) -> List[str]:
    rng = random.Random(f"{ck.prop}:{ck.seed}:names")
    names = []
    for n in range(0, ck.n(6, 8)):
        for t in itertools.product("aB1_", repeat=n):
            names.append("".join(t))
    alpha = "abcxyzABCXYZ0189__"
    for _ in range(ck.n(700, 6000)):
        names.append("".join(rng.choice(alpha) for _ in range(rng.randint(1, 16))))
    for _ in range(ck.n(100, 500)):
        names.append("".join(rng.choice("aZ0_-") for _ in range(rng.randint(1, 10))))
    return names


def run(ck: Check) -> None:
    t0 = time.time()
    timing: Dict[str, float] = {}
    ck.try_prove("C20.v", model_vo=cs.MODEL_VO)
    model = cs.build_model(ck) if ck.model_ok else False
    timing["proof_s"] = round(time.time() - t0, 1)
    stats: Dict[str, int] = {}
    samples: List[str] = []

    # ------------------------------------------------------------------------------------------
    # (a) naming helpers
    # ------------------------------------------------------------------------------------------
    names = gen_names(ck)
    jobs = [{"op": "names", "names": names[k:k + 400]} for k in range(0, len(names), 400)]
    res = run_workers("run_cli.py", jobs, chunk=2, timeout=300)
    rows: List[Optional[List[Any]]] = []
    for j, r in zip(jobs, res):
        if "rows" not in r:
            ck.broken(Broken("C20 names worker failed", str(r)[:500]))
            rows.extend([None] * len(j["names"]))
        else:
            rows.extend(r["rows"])
    name_shards = pyside.Shards(ck, "c20_names", per_shard=1)
    for k in range(0, len(names), 500):
        exprs, metas = [], []
        for n, row in zip(names[k:k + 500], rows[k:k + 500]):
            if row is None:
                continue
            exprs.append(f"(names_case {cg.coq_string(n)} {cg.coq_string(row[0])} {cg.coq_string(row[1])} {cs.cbool(row[2])})")
            metas.append(("name", n, row))
        if exprs:
            name_shards.add("", exprs, metas)
    stats["names"] = len(names)

    # ------------------------------------------------------------------------------------------
    # (b) lint runs and (d) error positions: real CLI
    # ------------------------------------------------------------------------------------------
    lint_cases: List[Tuple[cg.Schema, str]] = []
    for j in cs.load_corpus("C20"):
        if j.get("stream") == "lint":
            lint_cases.append((cg.Schema.from_json(j["schema"]), "corpus:" + os.path.basename(j["_path"])))
    for i in range(ck.n(24, 120)):
        lint_cases.append(lint_schema(ck, i))
    # boundary catalogue of warning COUNTS (the exit status of -c is a process status: 8 bits)
    CHECK_RUNS = [dict(lang=None, c=True, q=False, O=False), dict(lang=None, c=True, q=True, O=False)]
    counts = [255, 256, 257, 512] + ([] if ck.quick else [1, 2, 127, 128, 254, 511, 513, 768, 1024])
    warn_first = len(lint_cases)
    for n in counts:
        lint_cases.append((cg.warn_schema(random.Random(f"{ck.prop}:{ck.seed}:warn:{n}"), n), f"warnings={n}"))
    LINT_RUNS = [dict(lang=None, c=True, q=False, O=False), dict(lang=None, c=True, q=True, O=False),
                 dict(lang=None, c=True, q=False, O=True),
                 dict(lang="c", c=False, q=False, O=False), dict(lang="c", c=False, q=True, O=False),
                 dict(lang="py", c=False, q=False, O=False), dict(lang="py", c=False, q=True, O=False)]

    def argv(r: Dict[str, Any], out: str) -> List[str]:
        a = ([r["lang"]] if r["lang"] else []) + [ROOT] + ([out] if r["lang"] else [])
        return a + (["-c"] if r["c"] else []) + (["-q"] if r["q"] else []) + (["-O"] if r["O"] else [])

    cli_jobs = []
    for si, (s, tag) in enumerate(lint_cases):
        cli_jobs.append({"op": "cli", "dir": os.path.join(ck.dir, f"l{si}"), "files": s.texts,
                         "runs": [{"args": argv(r, f"o{n}"), "out": f"o{n}" if r["lang"] else None}
                                  for n, r in enumerate(CHECK_RUNS if si >= warn_first else LINT_RUNS)]})
    err_cases = []
    n_err = ck.n(48, 400)
    for i in range(n_err):
        rng = random.Random(f"{ck.prop}:{ck.seed}:err:{i}")
        base = cg.Gen(rng, cg.Params(n_imports=1 + i % 2, nested_import=(i % 3 == 0), comments=0.4, blanks=0.4)).schema()
        kind = cg.INJECT_KINDS[i % len(cg.INJECT_KINDS)]
        inj = cg.inject(base, rng, kind)
        if inj is None:
            continue
        err_cases.append((base, inj))
    for ei, (base, inj) in enumerate(err_cases):
        mode = [["-c", ROOT], ["c", ROOT, "o0"], [ROOT, "-c", "-q"], ["py", ROOT, "o0", "-q"]][ei % 4]
        cli_jobs.append({"op": "cli", "dir": os.path.join(ck.dir, f"e{ei}"), "files": inj[0],
                         "runs": [{"args": mode, "out": "o0" if "o0" in mode else None}]})
    t1 = time.time()
    cli_res = run_workers("run_cli.py", cli_jobs, chunk=1, timeout=600)
    timing["cli_runs_s"] = round(time.time() - t1, 1)

    lint_shards = pyside.Shards(ck, "c20_lint", per_shard=8)
    stats.update({"lint_runs": 0, "warnings_seen": 0, "schemas_with_warnings": 0, "clean_schemas": 0})
    for si, (s, tag) in enumerate(lint_cases):
        res_ = cli_res[si]
        if "worker_error" in res_:
            ck.broken(Broken("C20 worker failed", res_["worker_error"]))
            continue
        root_defs = s.files[0].defs
        head = (f"Definition l{si}_ldefs : list ldef := {cg.coq_ldefs(root_defs)}.\n"
                f"Definition l{si}_mw : list warning := Eval vm_compute in lint l{si}_ldefs.\n"
                f"Definition l{si}_conf : bool := Eval vm_compute in spec_all_conforming l{si}_ldefs.\n"
                f"Definition l{si}_must : list warning := Eval vm_compute in spec_must_warn l{si}_ldefs.\n")
        exprs, metas = [], []
        outs: Dict[Tuple[Optional[str], bool], Dict[str, str]] = {}
        any_w = False
        for r, o in zip(CHECK_RUNS if si >= warn_first else LINT_RUNS, res_["runs"]):
            if o.get("timeout"):
                ck.broken(Broken("a CLI run did not finish within 10 minutes", f"{tag} {argv(r, 'out')}"))
                continue
            stats["lint_runs"] += 1
            ws = [d for d in o["diags"] if d["sev"] == "warning"]
            errs = [d for d in o["diags"] if d["sev"] == "error"]
            any_w = any_w or bool(ws)
            stats["warnings_seen"] += len(ws)
            replay = {"schema": s.to_json(), "argv": argv(r, "out"), "rc": o["rc"], "stderr": o["stderr"][-1500:], "tag": tag}
            if errs or o["traceback"] or cs.stderr_class(o) not in (0,):
                ck.violation("a valid generated schema is not accepted (or prints an error)", replay)
                continue
            bad_file = [w for w in ws if os.path.basename(w["file"]) != ROOT]
            if bad_file:
                ck.broken(Broken("lint warning cites a file other than the linted one (model: definitions bound to the "
                                 "root proto only)", str(bad_file[:2])))
            unknown = [w for w in ws if not w["cls"]]
            if unknown:
                ck.broken(Broken("lint warning with an unknown message text", str(unknown[:2])))
            obs = "[" + "; ".join(f"({cg.coq_string(w['cls'] or '?')}, {w['line']})" for w in ws) + "]"
            exprs.append(f"(c20_lint_case {cs.lang_term(r['lang'])} {cs.cbool(r['q'])} {cs.cbool(r['c'])} {cs.cbool(r['O'])} "
                         f"l{si}_mw l{si}_conf l{si}_must {o['rc']} {obs})")
            metas.append(("lint", si, r, replay))
            if r["lang"]:
                outs[(r["lang"], r["q"])] = o["files"]
        for lang in ("c", "py"):
            a, b = outs.get((lang, False)), outs.get((lang, True))
            if a is not None and b is not None and (a != b or not a):
                only_q, only_lint = [], []
                for fn in sorted(set(a) | set(b)):
                    la, lb = a.get(fn, "").splitlines(), b.get(fn, "").splitlines()
                    only_q += [f"{fn}: {x}" for x in lb if x not in la][:4]
                    only_lint += [f"{fn}: {x}" for x in la if x not in lb][:4]
                ck.violation("generated output differs with and without -q (lint is not advisory)",
                             {"schema": s.to_json(), "lang": lang, "tag": tag, "argv_lint": [lang, ROOT, "out"],
                              "argv_quiet": [lang, ROOT, "out", "-q"], "files_without_q": sorted(a),
                              "files_with_q": sorted(b), "lines_only_with_q": only_q[:8],
                              "lines_only_without_q": only_lint[:8]})
        stats["schemas_with_warnings" if any_w else "clean_schemas"] += 1
        if model and exprs:
            lint_shards.add(head, exprs, metas)
        if len(samples) < 2 and any_w:
            w0 = [d for d in res_["runs"][0]["diags"] if d["sev"] == "warning"][0]
            samples.append(f"{tag}: bitproto -c {ROOT} -> rc={res_['runs'][0]['rc']}, first warning {w0['cls']} at {w0['file']}:L{w0['line']}")

    # (d) error positions (property only: the model has no say on which token an error names)
    stats.update({"error_cases": 0, "error_in_import": 0})
    kinds_seen: Dict[str, int] = {}
    for ei, (base, inj) in enumerate(err_cases):
        res_ = cli_res[len(lint_cases) + ei]
        texts, fi, line, kind, ins = inj
        if "worker_error" in res_:
            ck.broken(Broken("C20 worker failed", res_["worker_error"]))
            continue
        o = res_["runs"][0]
        if o.get("timeout"):
            ck.broken(Broken("a CLI run did not finish within 10 minutes", f"err#{ei} {kind}"))
            continue
        stats["error_cases"] += 1
        stats["error_in_import"] += 1 if fi != 0 else 0
        kinds_seen[kind] = kinds_seen.get(kind, 0) + 1
        errs = [d for d in o["diags"] if d["sev"] == "error"]
        replay = {"files": texts, "argv": cli_jobs[len(lint_cases) + ei]["runs"][0]["args"], "kind": kind,
                  "inserted": ins, "expected": {"file": base.files[fi].name, "line": line},
                  "rc": o["rc"], "stderr": o["stderr"][-1500:]}
        if o["traceback"]:
            ck.violation("invalid schema produces a traceback instead of a diagnostic", replay)
        elif o["rc"] == 0 or o["files"]:
            ck.violation("invalid schema accepted (exit 0 or output written)", replay)
        elif len(errs) != 1 or cs.stderr_class(o) != 1:
            ck.violation("invalid schema: expected exactly one red error diagnostic", replay)
        elif os.path.basename(errs[0]["file"]) != base.files[fi].name or errs[0]["line"] != line:
            ck.violation(f"error cites {errs[0]['file']}:L{errs[0]['line']}, the offending token stands at "
                         f"{base.files[fi].name}:L{line}", replay)
        if len(samples) < 4 and errs and fi != 0:
            samples.append(f"err#{ei} {kind} in {base.files[fi].name}:L{line}: cited {errs[0]['file']}:L{errs[0]['line']}")

    # ------------------------------------------------------------------------------------------
    # (c) positions recorded by the real parser
    # ------------------------------------------------------------------------------------------
    pos_cases: List[Tuple[cg.Schema, str, bool]] = []
    for j in cs.load_corpus("C20"):
        if j.get("stream") == "pos":
            pos_cases.append((cg.Schema.from_json(j["schema"]), "corpus:" + os.path.basename(j["_path"]), True))
    for i in range(ck.n(24, 150)):
        s, tag = pos_schema(ck, i, False)
        pos_cases.append((s, tag, False))
    for i in range(ck.n(6, 30)):          # definitions on the first line of a file (regression of col-line1 / indent-line1)
        s, tag = pos_schema(ck, i, True)
        pos_cases.append((s, tag, True))
    pjobs = [{"op": "parse", "dir": os.path.join(ck.dir, f"p{pi}"), "files": s.texts, "root": ROOT}
             for pi, (s, tag, _) in enumerate(pos_cases)]
    t2 = time.time()
    pres = run_workers("run_cli.py", pjobs, chunk=3, timeout=600)
    timing["parse_s"] = round(time.time() - t2, 1)
    pos_shards = pyside.Shards(ck, "c20_pos", per_shard=6)
    stats.update({"positions": 0, "positions_line1": 0, "references": 0})
    for pi, ((s, tag, in_class), r) in enumerate(zip(pos_cases, pres)):
        if "protos" not in r:
            ck.violation("a valid generated schema is rejected by the parser", {"schema": s.to_json(), "tag": tag, "result": r})
            continue
        depth_of = s.import_depth()
        exprs, metas = [], []
        head = ""
        for fi, f in enumerate(s.files):
            got = r["protos"].get(f.name)
            if got is None:
                ck.broken(Broken("parser dump lacks a file of the set", f.name))
                continue
            head += f"Definition p{pi}_t{fi} : string := {cg.coq_string(f.text)}.\n"
            exp_ids = [(cg.KIND_CLASS[d.kind], d.name) for d in f.defs]
            obs_ids = [([c for c in g["mro"] if c in cg.KIND_CLASS.values()] + ["?"])[0] for g in got["defs"]]
            if exp_ids != list(zip(obs_ids, [g["name"] for g in got["defs"]])):
                ck.broken(Broken("order/identity of the bound definitions differs from the printer's "
                                 "(proto.filter order: children first)", f"{tag} {f.name}"))
                continue
            for d, g in zip(f.defs, got["defs"]):
                stats["positions"] += 1
                stats["positions_line1"] += 1 if d.line == 1 else 0
                if g["depth"] != d.depth + depth_of.get(fi, 0) or g["token"] != d.name:
                    ck.broken(Broken("scope depth / token of a definition differs from the printer's",
                                     f"{tag} {f.name} {d.name}: depth {g['depth']} vs {d.depth}+{depth_of.get(fi, 0)}, token {g['token']}"))
                exprs.append(f"(c20_pos_case p{pi}_t{fi} {cnat(d.pos)} {cnat(d.first_pos)} {g['lineno']} {g['col']} ({g['indent']}) true)")
                metas.append(("pos", pi, fi, "def", d.name, d.line, d.col, d.indent, g))
            if [(x.token) for x in f.refs] != [x["token"] for x in got["refs"]]:
                ck.broken(Broken("references recorded by the parser differ from the printer's", f"{tag} {f.name}: "
                                 f"{[x.token for x in f.refs]} vs {[x['token'] for x in got['refs']]}"))
                continue
            for x, g in zip(f.refs, got["refs"]):
                stats["references"] += 1
                exprs.append(f"(c20_pos_case p{pi}_t{fi} {cnat(x.pos)} 0%nat {g['lineno']} {g['col']} 0 false)")
                metas.append(("pos", pi, fi, "ref", x.token, x.line, x.col, 0, g))
        if model and exprs:
            pos_shards.add(head, exprs, metas)
        elif not model:
            # the Coq model does not build: compare recorded positions with the printer's directly
            for (_, _, fi2, what, name, line, col, indent, g) in metas:
                rp = {"schema": s.to_json(), "file": s.files[fi2].name, "name": name, "tag": tag,
                      "expected": {"line": line, "col": col, "indent": indent}, "recorded": g}
                if g["lineno"] != line:
                    ck.violation(f"{what} {name}: recorded line {g['lineno']}, it stands on line {line}", rp)
                if g["col"] != col:
                    ck.violation(f"{what} {name}: recorded column {g['col']}, it stands in column {col}", rp)
                if what == "def" and g["indent"] != indent:
                    ck.violation(f"{what} {name}: recorded indent {g['indent']}, it is {indent}", rp)

    # ------------------------------------------------------------------------------------------
    # Coq evaluation
    # ------------------------------------------------------------------------------------------
    if model:
        t3 = time.time()
        bad_names = [(meta[1], meta[2], code) for meta, code in name_shards.run(header=cs.HEADER) if code]
        if bad_names:
            ck.broken(Broken(f"pascal_case / snake_case / isupper: the model and utils.py disagree on {len(bad_names)} of "
                             f"{len(names)} names", "; ".join(f"{n!r}: utils gives {row} (bits {c})" for n, row, c in bad_names[:12])))
        for meta, code in lint_shards.run(header=cs.HEADER):
            if not code:
                continue
            _, si, r, replay = meta
            replay["code"] = code
            if code & (4096 | 8192):
                what = []
                if code & 4096:
                    what.append("exit status of the run is not (error or >=1 warning) in check mode / 0 otherwise")
                if code & 8192:
                    what.append("a style-conforming file warns, or a clear violation stays silent / cites another line")
                ck.violation("C20 fails on a concrete schema: " + "; ".join(what), replay)
            if code & (1 | 64):
                ck.broken(Broken("lint model and implementation disagree (" +
                                 ("exit status " if code & 1 else "") + ("warning list" if code & 64 else "") + ")",
                                 str({k: replay[k] for k in ("argv", "rc", "stderr", "tag")})[:1500]))
        for meta, code in pos_shards.run(header=cs.HEADER):
            if not code:
                continue
            _, pi, fi, what, name, line, col, indent, g = meta
            s, tag, in_class = pos_cases[pi]
            replay = {"schema": s.to_json(), "file": s.files[fi].name, "what_kind": what, "name": name, "tag": tag,
                      "expected": {"line": line, "col": col, "indent": indent},
                      "recorded": {"line": g["lineno"], "col": g["col"], "indent": g.get("indent")}, "code": code}
            if code & (128 | 256):
                ck.broken(Broken("_get_col / current_indent: translated model and parser disagree", str(replay["recorded"]) + " " + tag))
            if code & 512:
                ck.violation(f"{what} {name}: recorded line {g['lineno']}, it stands on line {line}", replay)
            if code & 16384:
                ck.violation(f"{what} {name} at {s.files[fi].name}:{line}:{col}: recorded column {g['col']}", replay)
            if code & 32768:
                ck.violation(f"{what} {name} at {s.files[fi].name}:{line}: indent {indent}, recorded {g['indent']}", replay)
        timing["coq_eval_s"] = round(time.time() - t3, 1)

    ck.coverage["evaluations"] = stats["names"] + stats["lint_runs"] + stats["error_cases"] + stats["positions"] + stats["references"]
    ck.coverage["distinct_nontrivial"] = stats["schemas_with_warnings"] + stats["error_cases"] + stats["positions_line1"]
    ck.coverage["rule"] = ("naming helpers == model on every name; per run: warnings (class, line) in order and exit status == model, "
                           "check exit <-> error or warning, conforming => silent, clear violation => its warning at its line, "
                           "outputs identical with/without -q; per recorded position: col/indent == translated arithmetic, "
                           "line/col/indent == true position (first line included); per invalid schema: one red "
                           "diagnostic citing the file and line of the inserted statement")
    ck.coverage["samples"] = samples
    ck.coverage["tie"].update({"T0": "gen/GenCli.v", "timing": timing, "error_kinds": kinds_seen})
    ck.coverage["distribution"] = stats
    ck.assumptions = cs.ASSUME_COMMON + [
        "Python str methods and re.sub on ASCII identifiers are modelled by hand in Lint.v (validated on every run against "
        "utils.py over all names of length <= 5 on {a,B,1,_} and random identifiers)",
        "the lexer facts behind C20_lineno (only t_newline writes lineno; no other rule, literal or ignored character "
        "can match a newline) come from a structural analysis of the regexes by the translator (re._parser)",
        "lint(proto) does not modify the proto the renderers read (Linter.lint is pinned by digest; every compile run is "
        "repeated with -q and the outputs are compared, also for several definitions on one line)",
        "lint applies to the definitions bound to the linted file only (imports are not linted): stated in the model, "
        "checked on every run",
    ]
    lexstage.lex_stage(ck, "C20_lex.v", 1, 8, "C20")    # text level: the tokenizer (tools/lexstage.py)
