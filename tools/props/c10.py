"""C10 — every accepted schema yields code the target toolchains accept.

Partial proof (coq/props/C10.v: emission order, name uniqueness, import names, Python defaults,
with `…_refuted` witnesses for the regions where the faithful model refutes the statement) +
toolchain observation (gcc, g++, CPython, a Go tokenizer) on generated schemas, with the
declaration lists parsed from the real outputs compared in Coq with Emit.render."""
from __future__ import annotations

import glob
import json
import os
import random
import re
from typing import Any, Dict, List, Optional, Set, Tuple

import c10_lib as cl
import pyside
import schema_gen as sg
from vlib import VERIF, Broken, Check, clist, run_workers

LEVEL = "proof"

ASSUME = [
    "Coq 8.16.1 kernel and its vm_compute (witnesses, correspondence evaluation)",
    "tools/translate_c10.py (T0) reads the block lists, dispatch chains, case-style tables and name templates of "
    "compiler/bitproto/renderer correctly; hand-modelled functions are pinned by AST digests (coq/ref/skeletons_c10.json)",
    "tools/c10_parse.py parses the emitted C / Python / Go faithfully (fail-closed on unknown top-level shapes)",
    "gcc 12 / g++ 12 / CPython 3.12 decide what 'the toolchain accepts'; Go is never compiled: only the lexical "
    "checks of c10_parse.go_check (balance, identifier resolution, import use)",
    "statement bodies of generated functions (-O copy statements, accessor bodies) are not modelled: only the "
    "generated names they mention",
    "coq/theories/EmitNames.v re-models pascal_case / snake_case by hand; it is compared with the real functions "
    "on a sweep of short strings and on every identifier of every run",
]

# verdict bit -> (category the toolchains report, default known-finding key)
BITS = {1: ("render", None), 2: ("dbu", "py-nested-import"), 4: ("unique", "helper-collision"),
        8: ("import", "import-filename"), 16: ("unused", "go-unused-import"), 32: ("layout", "empty-struct"),
        64: ("align", None), 128: ("syntax", None)}
# bit 64 (alignment that gcc refuses) belonged to the finding align-nonpow2, FIXED in /repo (6935f33): the
# compiler now rejects such a schema; if one is ever accepted again, the gcc failure is a plain VIOLATION.
# bits 1 (the Python renderer raises) and 128 (unescaped string constant) belonged to the findings
# empty-enum and str-escape, FIXED in /repo: the model never predicts them any more, and a toolchain
# failure of that kind is a plain VIOLATION
MODE_TARGETS = {"c": ["TgH", "TgC"], "co": ["TgHO", "TgCO"], "cof": ["TgHO", "TgCO"], "py": ["TgPy"], "go": ["TgGo"]}
MODE_LANG = {"c": "LC", "co": "LC", "cof": "LC", "py": "LPy", "go": "LGo"}
TARGET_EXT = {"TgH": ".h", "TgC": ".c", "TgHO": ".h", "TgCO": ".c", "TgPy": ".py", "TgGo": ".go"}
# how much of the `uses` is compared per target (EmitCheck.uses_cmp)
USES_MODE = {"TgH": 2, "TgC": 2, "TgHO": 2, "TgCO": 0, "TgPy": 2, "TgGo": 1}
ALL_MODES = ["c", "co", "cof", "py", "go"]

HEADER = """From Coq Require Import String Ascii List ZArith Bool.
From BP Require Import EmitBase EmitNames Emit EmitSpec EmitCheck.
Import ListNotations.
Open Scope string_scope.
Open Scope list_scope.
"""


FIXED_CLASSES = ("empty-enum", "empty-enum-unused", "str-escape")   # must now be accepted by every toolchain


# ---- known-class injections ------------------------------------------------------------------------

def inject(job: Dict[str, Any], cls: str, rng) -> Optional[Dict[str, Any]]:
    files = dict(job["files"])
    order = list(job["order"])
    root = order[0]
    add = ""
    if cls == "import-filename":
        if len(order) < 2:
            return None
        old = order[1]
        new = "renamed_" + old
        files[new] = files.pop(old)
        order[1] = new
        for k in list(files):
            files[k] = files[k].replace(f'"{old}"', f'"{new}"')
    elif cls == "empty-struct":
        add = "\nmessage Hollow {}\n"
    elif cls == "align-nonpow2":
        files[root] = files[root].replace("\n\n", f"\n\noption c.struct_packing_alignment = {rng.choice([3, 5, 6, 7])}\n", 1)
        files[root] = re.sub(r"option c\.struct_packing_alignment = [01248]\n", "", files[root])
    elif cls == "helper-collision":
        n = rng.choice([1, 2, 7])
        k = rng.choice([2, 5, 9])
        add = f"\nmessage Zq{n} {{\n    byte[2] xa = {k}\n}}\n\nmessage Zq {{\n    byte[3] xb = {n}{k}\n}}\n"
    elif cls == "derived-name-collision":
        v = rng.choice(["Encode", "Decode", "Json"])
        add = f"\ntype {v}Zq = uint3\n\nmessage Zq {{\n    bool xa = 1\n}}\n"
    elif cls == "py-nested-import":
        if len(order) < 2:
            return None
        dep = order[1]
        m = re.search(rf'import (?:(\w+) )?"{re.escape(dep)}"', files[root])
        if not m:
            return None
        proto = re.search(r"proto (\w+)", files[dep]).group(1)
        member = m.group(1) or proto
        files[dep] += "\nmessage Wrap {\n    message Core {\n        bool ok = 1\n    }\n    Core core = 1\n}\n"
        add = f"\nmessage UsesCore {{\n    {member}.Wrap.Core core = 1\n}}\n"
    elif cls == "go-unused-import":
        files["konst.bitproto"] = "proto konst\n\nconst WIDTH = 4\n"
        order.append("konst.bitproto")
        files[root] = files[root].replace("\n\n", '\n\nimport "konst.bitproto"\n', 1)
        add = "\nmessage UsesConst {\n    byte[konst.WIDTH] raw = 1\n}\n"
    elif cls == "empty-enum":
        add = "\nenum Void : uint3 {}\n\nmessage UsesVoid {\n    Void v = 1\n}\n"
    elif cls == "empty-enum-unused":
        add = "\nenum Void : uint3 {}\n"
    elif cls == "str-escape":
        add = ('\nconst QUOTED = "say \\"hi\\""\nconst BACKSLASHED = "a\\\\b"\n'
               'const LINES = "one\\ntwo\\r\\tend"\n')
    else:
        return None
    files[root] += add
    tag = "feature-of-fixed-finding" if cls in FIXED_CLASSES else "inside-known-class"
    out = {"files": files, "order": order, "filter": job.get("filter") or [], "origin": f"{tag}:{cls}"}
    if cls == "align-nonpow2":
        # FIXED finding: the compiler must now REJECT the schema (regression: if it is accepted again the
        # usual path runs and the gcc failure is reported as a violation with this input)
        out["origin"] = f"regression-of-fixed-finding:{cls}"
        out["expect_reject"] = "c.struct_packing_alignment"
    return out


# ---- one job -> Coq --------------------------------------------------------------------------------

def job_modes(job: Dict[str, Any]) -> List[str]:
    return list(job.get("modes") or ALL_MODES)


def build_case(j: int, job: Dict[str, Any], r: Dict[str, Any]) -> Tuple[str, List[str], List[Any]]:
    """Coq definitions + result expressions + metas for one job."""
    order = job["order"]
    ast = r["ast"]
    defs = f"Definition s_{j} : schema := {cl.coq_schema(ast, order)}.\n"
    exprs = [f"(bit (negb (wf s_{j})) 1)"]
    metas: List[Any] = [(j, "wf", None, None)]
    for i in range(len(order)):
        for L in ("LC", "LPy", "LGo"):
            exprs.append(f"(guard_mask {L} s_{j} {i})")
            metas.append((j, "guard", i, L))
    flt = cl.cstrs(job.get("filter") or [])
    for mode in job_modes(job):
        out = r["out"].get(mode, {})
        lang = {"c": "c", "co": "c", "cof": "c", "py": "py", "go": "go"}[mode]
        items_by_out: Dict[str, List[Dict[str, Any]]] = {}
        for fn, o in out.items():
            for bn, its in (o.get("items") or {}).items():
                items_by_out[bn] = its
        names, members = cl.universe(items_by_out, lang)
        f_arg = flt if mode == "cof" else "[]"
        for i, fn in enumerate(order):
            o = out.get(fn)
            if o is None or "skipped" in o:
                continue
            base = ast[fn]["base"]
            for tg in MODE_TARGETS[mode]:
                bn = base + "_bp" + TARGET_EXT[tg]
                if "error" in o:
                    real = "None"
                elif bn in (o.get("items") or {}):
                    real = f"(Some {cl.fps(o['items'][bn], lang, names, members, USES_MODE[tg])})"
                else:
                    real = None     # the emitted file could not be parsed: reported through `observed`
                if real is not None:
                    exprs.append(f"(tie_code {USES_MODE[tg]} (render s_{j} {i} {tg} {f_arg}) {real})")
                    metas.append((j, "tie", i, (mode, tg)))
                exprs.append(f"(verdict s_{j} {i} {tg} {f_arg})")
                metas.append((j, "verdict", i, (mode, tg)))
                if tg == "TgPy" and real is not None and real != "None":
                    exprs.append(f"(Z.of_nat (first_mismatch (py_attrs_fp s_{j} {i}) {cl.py_attrs_fps(o['items'][bn])} 0))")
                    metas.append((j, "tie", i, (mode, "class attributes")))
    return defs, exprs, metas


def observed(job: Dict[str, Any], r: Dict[str, Any], mode: str) -> Tuple[Set[str], List[str]]:
    """categories of what the toolchains (and the renderer itself) reported for one mode"""
    cats: Set[str] = set()
    diags: List[str] = []
    out = r["out"].get(mode, {})
    for fn, o in out.items():
        if "error" in o:
            diags.append(f"render {fn}: {o['error']}")
            cats.add("render" if o["error"].startswith("IndexError") else "render-other")
        for bn, e in (o.get("parse_errors") or {}).items():
            diags.append(f"parse {bn}: {e}")
            cats.add("syntax")
    t = r.get("tool", {}).get(mode)
    if mode in ("c", "co", "cof"):
        if not t or "error" in t:
            cats.add("other")
            diags.append(f"C toolchain driver: {t}")
            return cats, diags
        lines: List[str] = []
        for c, v in t["syntax"].items():
            lines += v["errors"]
            lines += [w for w in v["warnings"] if "redefined" in w]
            if v["rc"] != 0 and not v["errors"]:
                lines.append(f"{c}: gcc exit status {v['rc']}")
        if t["link"]:
            lines += [w for w in t["link"].get("warnings", []) if "redefined" in w]
        if t["link"] and t["link"]["rc"] != 0:
            lines += t["link"]["errors"] or [f"link exit status {t['link']['rc']}"]
        if t["probe"] and "error" in t["probe"]:
            lines.append(t["probe"]["error"])
        if t["gxx"] and t["gxx"]["rc"] != 0:
            lines += t["gxx"]["errors"] or [f"g++ exit status {t['gxx']['rc']}"]
        cats |= cl.categorize_c(lines)
        diags += lines
    elif mode == "py":
        if not t or "error" in t:
            if not any("error" in o for o in out.values()):
                cats.add("other")
                diags.append(f"python driver: {t}")
            return cats, diags
        for mod, v in t.items():
            if not v.get("compile", False) or not v.get("import", False):
                cats.add(cl.categorize_py(v.get("error", "")))
                diags.append(f"{mod}: {v.get('error')}")
                continue
            for cname, ok in v.get("instantiate", {}).items():
                if ok is not True:
                    cats.add(cl.categorize_py(str(ok)))
                    diags.append(f"{mod}.{cname}(): {ok}")
    elif mode == "go":
        for bn, errs in (r.get("tool", {}).get("go") or {}).items():
            cats |= cl.categorize_go(errs)
            diags += [f"{bn}: {e}" for e in errs]
    return cats, diags


def key_for(bit: int, guards: int, lang: str) -> Optional[str]:
    """known-finding key that EXPLAINS a predicted verdict bit, from the guard mask of the schema"""
    if bit == 1:
        return None
    if bit == 2:
        return "py-nested-import" if guards & 8 else None
    if bit == 4:
        if guards & 2:
            return "helper-collision"
        if guards & 4:
            return "derived-name-collision"
        return None
    if bit == 8:
        return "import-filename" if guards & 16 else None
    if bit == 16:
        return "go-unused-import" if guards & 64 else ("py-nested-import" if guards & 8 else None)
    if bit == 32:
        return "empty-struct" if guards & 128 else None
    if bit == 64:
        return None
    return None


def run(ck: Check) -> None:
    import sys
    import time
    t_start = time.time()

    def lap(what: str) -> None:
        ck.coverage.setdefault("timing_s", {})[what] = round(time.time() - t_start, 1)
        if os.environ.get("VERIF_C10_TIMING"):
            print(f"[C10] {what}: {time.time() - t_start:.1f}s", file=sys.stderr)

    ck.assumptions.extend(ASSUME)
    ck.coverage["trusted_base"] = ["Coq 8.16.1 kernel + vm_compute", "tools/translate_c10.py", "tools/c10_parse.py",
                                   "tools/run_c10.py + gcc/g++ 12 + CPython 3.12", "no axioms (Print Assumptions: closed)"]
    ck.try_prove("C10.v", model_vo=("theories/EmitCheck.vo",))

    lap("proofs built")
    # ---- jobs: corpus first, then the two generated streams, then inside-known-class ----
    jobs: List[Dict[str, Any]] = []
    for p in sorted(glob.glob(os.path.join(VERIF, "corpus", "C10", "*.json"))):
        try:
            c = json.load(open(p))
        except Exception:
            continue
        jobs.append({"files": c["files"], "order": c["order"], "filter": c.get("filter") or [],
                     "modes": c.get("modes"), "origin": "corpus:" + os.path.basename(p), "expect": c.get("expect"),
                     "expect_reject": (c.get("expect") or {}).get("reject")})
    n_corpus = len(jobs)
    n_own = ck.n(12, 300)
    n_sg = ck.n(5, 100)
    if os.environ.get("VERIF_C10_N"):            # development aid: "own,schema_gen" sizes
        n_own, n_sg = [int(x) for x in os.environ["VERIF_C10_N"].split(",")]
    own: List[Dict[str, Any]] = []
    n_over_budget = 0
    for k in range(n_own):
        # a schema set above the declaration budget is replaced, deterministically, by the next sub-seed:
        # a single schema set must never exceed what one coqc evaluates within its memory / time limit
        for sub in range(20):
            rng = random.Random(f"C10:{ck.seed}:own:{k}" + (f":{sub}" if sub else ""))
            jb = cl.G(rng).job()
            if cl.decl_count(jb["files"]) <= cl.DECL_BUDGET:
                break
            n_over_budget += 1
        jb["origin"] = f"own#{k}"
        own.append(jb)
    jobs.extend(own)
    for k in range(n_sg):
        for sub in range(20):
            rng = random.Random(f"C10:{ck.seed}:sg:{k}" + (f":{sub}" if sub else ""))
            params = sg.Params(allow_ext=(k % 2 == 1), max_bits=600, max_leaves=80, max_fields=5)
            s = sg.Gen(rng, params).schema()
            if cl.decl_count(s.texts) <= cl.DECL_BUDGET:
                break
            n_over_budget += 1
        order = [s.main] + [f.base + ".bitproto" for f in s.files[1:]]
        msgs = re.findall(r"^\s*message (\w+)", "\n".join(s.texts.values()), flags=re.M)
        jobs.append({"files": dict(s.texts), "order": order, "filter": msgs[: max(1, len(msgs) // 2)],
                     "origin": f"schema_gen#{k}"})
    classes = ["import-filename", "empty-struct", "align-nonpow2", "helper-collision", "derived-name-collision",
               "py-nested-import", "go-unused-import", "empty-enum", "empty-enum-unused", "str-escape"]
    n_inside = 0
    for k, cls in enumerate(classes * ck.n(1, 6)):
        rng = random.Random(f"C10:{ck.seed}:inside:{k}")
        for base in own[k % max(1, len(own)):] + own:
            jb = inject(base, cls, rng)
            if jb is not None:
                jobs.append(jb)
                n_inside += 1
                break

    for j, jb in enumerate(jobs):
        jb["id"] = j
        jb["dir"] = os.path.join(ck.dir, f"j{j}")
        jb["modes"] = job_modes(jb)
    for j, jb in enumerate(jobs):
        jb["syntax_always"] = not ck.quick
        # quick tier: the -O -F variant on every other generated job (always on corpus / known-class jobs)
        if ck.quick and jb["origin"].startswith(("own#", "schema_gen#")) and j % 2 == 1:
            jb["modes"] = [m for m in jb["modes"] if m != "cof"]
    wjobs = [{k: v for k, v in jb.items() if k in ("id", "dir", "files", "order", "filter", "modes", "syntax_always")} for jb in jobs]

    # ---- case converters: sweep of short strings + the identifiers of this run ----
    alpha = ["a", "b", "A", "B", "1", "_"]
    depth = ck.n(4, 5)
    words = [""]
    for k in range(depth):
        words = words + [w + c for w in words if len(w) == k for c in alpha]      # = EmitCheck.words_upto
    n_sweep = len(words)
    idents: Set[str] = set()
    for jb in jobs:
        for t in jb["files"].values():
            idents.update(re.findall(r"[A-Za-z_][A-Za-z0-9_]*", t))
    id_words = sorted(idents)
    words = words + id_words
    conv_jobs = [{"id": -1 - q, "kind": "caseconv", "words": words[q:q + 1000]} for q in range(0, len(words), 1000)]

    results = run_workers("run_c10.py", conv_jobs + wjobs, chunk=2, timeout=900)
    lap("implementation + toolchains run")
    conv_res = results[:len(conv_jobs)]
    results = results[len(conv_jobs):]

    shard_items: List[Tuple[str, List[str], List[Any]]] = []
    # converters: sweep words and identifiers as literals, in chunks that stay small for coqc
    conv_all: List[List[str]] = []
    for cj, cr in zip(conv_jobs, conv_res):
        if "conv" not in cr:
            ck.broken(Broken("tie T2: case-conversion worker failed", str(cr)[:500]))
            conv_all = []
            break
        conv_all.extend(cr["conv"])
    if conv_all:
        exp = [cl.conv_fp(*c) for c in conv_all]
        # the sweep words are generated inside Coq (EmitCheck.words_upto, no string literals), evaluated in
        # slices so that no single case file carries the whole sweep; identifiers are literals
        SL = 1500
        for q in range(0, n_sweep, SL):
            ex = exp[q:min(q + SL, n_sweep)]
            defs = (f"Definition sweep_exp_{q} : list Z := {clist(f'{v}%Z' for v in ex)}.\n")
            expr = (f"(Z.of_nat (first_mismatch (map (fun w => conv_fp (unchars w)) (firstn {len(ex)} (skipn {q} "
                    f"(words_upto {depth} [\"a\"; \"b\"; \"A\"; \"B\"; \"1\"; \"_\"]%char)))) sweep_exp_{q} 0))")
            shard_items.append((defs, [expr], [(None, "sweep", q, None)]))
        for q in range(0, len(id_words), 150):
            ws = id_words[q:q + 150]
            ex = exp[n_sweep + q:n_sweep + q + len(ws)]
            shard_items.append(("", [f"(if Z.eqb (conv_fp {cl.cs(w)}) {v} then 0 else 1)%Z" for w, v in zip(ws, ex)],
                                [(None, "conv", w, None) for w in ws]))

    bad_impl = 0
    n_rejected_as_expected = 0
    for jb, r in zip(jobs, results):
        j = jb["id"]
        if "ast" not in r:
            bad_impl += 1
            ck.violation("the compiler could not be run on a generated schema: " + str(r.get("worker_error"))[:300],
                         {"files": jb["files"], "order": jb["order"], "origin": jb["origin"], "error": str(r)[:1500]})
            continue
        perr = [n for n, a in r["ast"].items() if "parse_error" in a]
        if perr and jb.get("expect_reject") and all(
                "InvalidOptionValue" in r["ast"][n]["parse_error"] and jb["expect_reject"] in r["ast"][n]["parse_error"]
                for n in perr):
            n_rejected_as_expected += 1           # regression case of a fixed finding: rejected at compile time
            continue
        if perr:
            bad_impl += 1
            ck.violation("the generator produced a schema the compiler rejects (generator bug or compiler regression): "
                         + r["ast"][perr[0]]["parse_error"],
                         {"files": jb["files"], "order": jb["order"], "origin": jb["origin"]})
            r["skip"] = True
            continue
        defs, exprs, metas = build_case(j, jb, r)
        shard_items.append((defs, exprs, metas))

    out = cl.run_shards(ck, "c10", shard_items, HEADER, per_shard=cl.SHARD_MAX_ITEMS, timeout=ck.n(300, 600))

    lap("Coq evaluation of the case files")
    # ---- interpretation ----
    conv_bad = [m[2] for m, code in out if m[1] == "conv" and code != 0]
    for m, code in out:
        if m[1] == "sweep" and code != 0:
            conv_bad.append(words[m[2] + code - 1])

    if conv_bad:
        ck.broken(Broken(f"tie T2: EmitNames.pascal_case/snake_case/upper_case differ from bitproto.utils on "
                         f"{len(conv_bad)} strings, e.g. {conv_bad[:5]!r}", json.dumps(conv_bad[:50])))
    per_job: Dict[int, Dict[str, Any]] = {}
    n_eval = 0
    for (j, kind, i, extra), code in out:
        if j is None:
            continue
        d = per_job.setdefault(j, {"wf": 0, "guard": {}, "tie": [], "verdict": {}})
        if kind == "wf":
            d["wf"] = code
        elif kind == "guard":
            d["guard"][(i, extra)] = code
        elif kind == "tie":
            n_eval += 1
            if code != 0:
                d["tie"].append((i, extra, code))
        elif kind == "verdict":
            d["verdict"][(i, extra)] = code

    corpus_status: Dict[str, Any] = {}
    n_tie_bad = 0
    n_outside_pre = 0
    n_clean = 0
    n_known = 0
    feature: Dict[str, int] = {}
    distinct: Set[str] = set()
    for jb, r in zip(jobs, results):
        j = jb["id"]
        if j not in per_job:
            continue
        d = per_job[j]
        text_all = "\n".join(jb["files"][n] for n in jb["order"])
        distinct.add(text_all)
        for feat, pat in (("import as", r'import \w+ "'), ("import plain", r'import "'), ("nested", r"\n\s+message |\n\s+enum "),
                          ("c.name_prefix", "c.name_prefix"), ("alignment", "struct_packing_alignment"),
                          ("py.module_name", "py.module_name"), ("name ends in digit", r"(message|enum|type) \w*\d\b"),
                          ("empty enum", r"enum \w+ : uint\d+ \{\n?\s*\}"), ("empty message", r"message \w+ \{\s*\}"),
                          ("const", r"\nconst "), ("array of named", r"\n\s+[A-Z][\w.]*\[\d+\]"), ("extensible", r"'")):
            if re.search(pat, text_all):
                feature[feat] = feature.get(feat, 0) + 1
        if any(ast["base"] != ast["proto"] for ast in r["ast"].values()):
            feature["file name != proto name"] = feature.get("file name != proto name", 0) + 1
        if d["wf"] != 0:
            n_tie_bad += 1
            ck.broken(Broken(f"tie T2: the parser accepted a schema that EmitSpec.wf rejects ({jb['origin']})",
                             json.dumps(jb["files"])[:2000]))
        for (i, extra, code) in d["tie"][:3]:
            n_tie_bad += 1
            mode, tg = extra
            ck.broken(Broken(f"tie T2: declarations emitted for {jb['order'][i]} ({mode}, {tg}) differ from Emit.render "
                             f"(code {code}: first differing item, -1 = only the real renderer raised, -2 = only the model) "
                             f"[{jb['origin']}]", json.dumps(jb["files"])[:2500]))
        for mode in jb["modes"]:
            L = MODE_LANG[mode]
            guards = 0
            for i in range(len(jb["order"])):
                guards |= d["guard"].get((i, L), 0)
            pred = 0
            for (i, (m2, tg)), code in d["verdict"].items():
                if m2 == mode:
                    pred |= code
            cats, diags = observed(jb, r, mode)
            if ck.quick and mode in ("co", "cof"):
                pred &= ~32       # quick tier: the C++ layout comparison runs on the standard-mode header only
            if guards & 1:
                n_outside_pre += 1        # outside the property's own precondition for this language
                continue
            expected = {BITS[b][0] for b in BITS if pred & b}
            replay = {"files": jb["files"], "order": jb["order"], "filter": jb.get("filter"), "mode": mode,
                      "origin": jb["origin"], "model_verdict_bits": pred, "guard_mask": guards,
                      "toolchain": diags[:12]}
            if not pred and not cats:
                n_clean += 1
                continue
            unexplained = cats - expected
            if "import" in expected:
                unexplained -= {"dbu"}        # a missing header hides / causes follow-up errors
            if "syntax" in expected or "render" in expected:
                unexplained -= {"dbu", "other", "import"}   # a module that does not compile breaks its importers
            if unexplained:
                ck.violation(f"{mode}: the toolchain rejects the generated code ({', '.join(sorted(unexplained))}) "
                             f"although the model predicts no such failure: {diags[:2]}", replay, found_input=True, key=None)
                continue
            for b in BITS:
                if not pred & b:
                    continue
                key = key_for(b, guards, L)
                cat = BITS[b][0]
                seen = cat in cats or (b == 1 and "render" in cats) or (b == 128 and bool(cats & {"dbu", "other", "syntax"}))
                masked = ("import" in cats or "render" in cats or "syntax" in cats) and not seen
                if not seen and not masked:
                    ck.broken(Broken(f"tie T2: the model predicts a '{cat}' failure for {jb['origin']} ({mode}) that the "
                                     f"toolchain does not report", json.dumps(replay)[:2500]))
                    continue
                n_known += 1
                if jb["origin"].startswith("corpus:"):
                    corpus_status.setdefault(jb["origin"], set()).add(key or f"unclassified-{cat}")
                ck.violation(f"{mode}: {cat} failure predicted by the model and confirmed by the toolchain: {diags[:2]}",
                             replay, found_input=True, key=key)

    # the witness of every known finding must still reproduce it (otherwise the finding was fixed and
    # the known_findings entry / the `_refuted` theorem must be revisited)
    not_reproduced = []
    for jb in jobs[:n_corpus]:
        want = (jb.get("expect") or {}).get("key")
        if want and want not in corpus_status.get(jb["origin"], set()):
            not_reproduced.append(f"{jb['origin']} ({want})")
    if not_reproduced:
        ck.broken(Broken("corpus witnesses of known findings no longer reproduce them: " + ", ".join(not_reproduced),
                         "either the defect was fixed in /repo (move the entry to status=fixed and drop the guard) or "
                         "the harness no longer observes it"))
    cov = ck.coverage
    cov["evaluations"] = n_eval
    cov["distinct_nontrivial"] = len([t for t in distinct if "message " in t])
    cov["rule"] = ("a case is (schema set, target) with target in {C header, C source} x {standard, -O, -O -F} + Python + Go; "
                   "own feature stream (imports with/without as, file name vs proto name, c.name_prefix, "
                   "c.struct_packing_alignment, py.module_name, go.package_path, nested definitions, names ending in "
                   "digits, keyword-like field names, empty unused enums, constants) + tools/schema_gen.py streams "
                   "(traditional and extensible) + one injected schema per known-finding class + corpus; distinct = "
                   "distinct schema-set texts containing a message")
    cov["tie"] = {**cov.get("tie", {}), "jobs": len(jobs), "corpus": n_corpus, "own_stream": n_own, "schema_gen_stream": n_sg,
                  "inside_known_class": n_inside, "tie_mismatches": n_tie_bad, "mode_runs_clean": n_clean,
                  "mode_runs_outside_pre": n_outside_pre, "mode_runs_in_known_class": n_known,
                  "case_conversion_strings": len(words), "impl_failures": bad_impl,
                  "rejected_as_expected": n_rejected_as_expected,
                  "schema_sets_over_declaration_budget_replaced": n_over_budget,
                  "corpus_known_reproduced": {k: sorted(v) for k, v in corpus_status.items()}}
    cov["distribution"] = feature
    for jb, r in list(zip(jobs, results))[n_corpus:n_corpus + 2]:
        if "ast" in r:
            cov["samples"].append({"files": jb["files"], "origin": jb["origin"],
                                   "generated": {m: {f: o.get("names") for f, o in v.items()} for m, v in r["out"].items()},
                                   "gcc": {c: v["rc"] for c, v in (r.get("tool", {}).get("c", {}).get("syntax", {}) or {}).items()}})
