"""C12 — the wire format depends only on field numbers and resolved types (proof + T0/T2 ties)."""
import copy
import json
import os
import random

import front_gen as fg
import front_rw as frw
import frontside as fs
import pyside
from vlib import Broken, cbool, clist, cnat, cz, run_workers

LEVEL = "proof"


def coq_val(tree, v):
    k = tree[0]
    if k == "bool":
        return f"(VB {cbool(bool(v))})"
    if k in ("byte", "uint", "int", "enum"):
        return f"(VZ {cz(int(v))})"
    if k == "alias":
        return coq_val(tree[1], v)
    if k == "arr":
        return f"(VL {clist(coq_val(tree[2], x) for x in v)})"
    return "(VM " + clist(f"({n}, {coq_val(ft, v[str(n)])})" for n, _nm, ft in tree[1]) + ")"


def shape(tree):
    """what must correspond between the two schemas of a pair: the tree by RANK of field number,
    without names, aliases and absolute numbers"""
    k = tree[0]
    if k == "alias":
        return shape(tree[1])
    if k == "arr":
        return ["arr", tree[1], tree[3], shape(tree[2])]
    if k == "msg":
        return ["msg", tree[2], [shape(ft) for _n, _nm, ft in sorted(tree[1], key=lambda f: f[0])]]
    if k == "enum":
        return ["enum", tree[1]]
    return tree


def pick_top(files, rng):
    root = next(iter(files))
    msgs = []

    def rec(items, pre):
        for it in items:
            if it[0] == "msg":
                if any(x[0] == "field" for x in it[4]):
                    msgs.append(pre + [it[2]])
                rec(it[4], pre + [it[2]])
    rec(files[root], [])
    return rng.choice(msgs) if msgs else None


def run(ck):
    ck.assumptions.extend(fs.ASSUME)
    ck.assumptions.append("values of the two schemas of a pair correspond by rank of field number (generated in the worker "
                          "from one seed, walking fields in ascending number order); the generated Python and bitprotolib of "
                          "the tree under test execute encode()")
    ck.coverage["trusted_base"] = ["Coq 8.16.1 kernel + vm_compute", "tools/translate_front.py",
                                   "tools/front_gen.py printer + ply tokenizer/LALR driver (text <-> tree)",
                                   "tools/run_front_py.py + run_py.py helpers + CPython 3.12",
                                   "no axioms (Print Assumptions: closed)"]
    fs.ensure_model_translation()
    ck.try_prove("C12.v", model_vo=("theories/Front.vo", "theories/Spec.vo"))

    pairs = []
    for j in fs.load_corpus("C12"):
        pairs.append(dict(a=j["a"], b=j["b"], top_a=j["top_a"], top_b=j["top_b"], rws=j.get("rws", []),
                          origin="corpus:" + os.path.basename(j["_path"])))
    n_corpus = len(pairs)
    n = fs.scaled(ck.n(60, 1200))
    i = 0
    attempts = 0
    while len(pairs) - n_corpus < n and attempts < 4 * n:
        attempts += 1
        rng = random.Random(f"C12:{ck.seed}:{attempts}")
        params = fg.Params(unique=True, py_safe=True, max_bits=300, max_depth=2, n_imports=(0, 1), p_option=0.0,
                           max_items=5, max_top=5)
        files, _ = fg.gen_valid(rng, params)
        top = pick_top(files, rng)
        if top is None:
            continue
        b = copy.deepcopy(files)
        top_b = list(top)
        rws = []
        k = (len(pairs) - n_corpus) % (len(frw.RW.ALL) + 3)
        seq = [frw.RW.ALL[k]] if k < len(frw.RW.ALL) else [None] * rng.randint(2, 4)
        for w in seq:
            r = frw.rewrite(b, top_b, rng, which=w)
            if r is not None:
                rws.append(r)
        if not rws and k < len(frw.RW.ALL):
            continue
        pairs.append(dict(a=files, b=b, top_a=top, top_b=top_b, rws=rws, origin=f"pair#{len(pairs) - n_corpus}"))

    # dotted references whose head is shadowed by a nested message (names not unique): rename the
    # file-scope definition / import, rename the nested one, move the nested one to file level
    for i in range(fs.scaled(ck.n(9, 90))):
        rng = random.Random(f"C12:shadow:{ck.seed}:{i}")
        files, top, info = fg.head_shadow(rng, variant="message" if i % 3 else "import", py_safe=True)
        a = copy.deepcopy(files)
        what = frw.head_shadow_rewrite(files, info, ["rename_top", "rename_nested", "move_top"][(i // 3 + i) % 3])
        pairs.append(dict(a=a, b=files, top_a=list(top), top_b=list(top), rws=[("head_shadow", what)],
                          origin=f"head-shadow#{i}"))
    # two different types of one short name, both used as `Name[n]`: rename / move one, or swap the
    # two messages
    for i in range(fs.scaled(ck.n(6, 60))):
        rng = random.Random(f"C12:twin:{ck.seed}:{i}")
        files, top, info = fg.twin_short_names(rng, variant="import" if i % 3 == 2 else "nested")
        a = copy.deepcopy(files)
        what = frw.twin_rewrite(files, info, ["rename_nested", "swap", "move_top"][i % 3])
        pairs.append(dict(a=a, b=files, top_a=list(top), top_b=list(top), rws=[("twin_short_names", what)],
                          origin=f"twin#{i}"))
    # the name an import is bound to does not matter, also when it equals another file's proto name
    for i in range(fs.scaled(ck.n(3, 30))):
        rng = random.Random(f"C12:aliasclash:{ck.seed}:{i}")
        files, top, info = fg.alias_clash_imports(rng)
        b = copy.deepcopy(files)
        imp = b["rootp.bitproto"][1]
        new = rng.choice(["metric", "zother", "m2"])
        for x in b["rootp.bitproto"]:
            frw._retarget(x, imp[2], [new])
        imp[2] = new
        pairs.append(dict(a=files, b=b, top_a=list(top), top_b=list(top),
                          rws=[("rename_import_as", f"import bound to the other file's proto name renamed to {new}")],
                          origin=f"alias-clash#{i}"))
    # a literal array capacity against unparenthesised operator chains of equal value
    for i in range(fs.scaled(ck.n(6, 60))):
        rng = random.Random(f"C12:chain:{ck.seed}:{i}")
        n = rng.choice([1, 2, 3, 5, 7, 8, 13])
        chains = frw.equal_valued_chains(n, rng)
        e = chains[0] if i % 3 == 0 else chains[-1] if i % 3 == 1 else rng.choice(chains)   # [-1]: operands beyond 2^53
        if i == 0:
            n, e = 7, ["div", ["mul", ["int", 2], ["int", 7]], ["int", 2]]
        body = [["field", None, ["arr", ["byte"], ["lit", n], False], "data", 1], ["field", None, ["single", ["uint", 7]], "t", 2]]
        a = {"rootp.bitproto": [["proto", None, "rootp"], ["msg", None, "Mm", False, body]]}
        b = copy.deepcopy(a)
        kk = ["const", None, "KK", ["expr", ["int", e[1][2][1]]]] if (i % 4 == 2 and e[0] == "div" and e[1][0] == "mul") else None
        if kk is not None:
            e = ["div", ["mul", e[1][1], ["ref", ["KK"]]], e[2]]
        b["rootp.bitproto"][1][4][0][2][2] = ["ref", ["NN"]]
        b["rootp.bitproto"][1:1] = ([kk] if kk else []) + [["const", None, "NN", ["expr", e]]]
        pairs.append(dict(a=a, b=b, top_a=["Mm"], top_b=["Mm"], rws=[("const_expr", f"capacity {n} written as an operator chain")],
                          origin=f"chain#{i}"))

    jobs = []
    meta = []
    nv = ck.n(4, 6)
    for pi, p in enumerate(pairs):
        for side in ("a", "b"):
            rng = random.Random(f"C12:print:{ck.seed}:{pi}:{side}")
            files = p[side]
            # the rewritten side is printed with random trivia (rewrite 7: comments, whitespace,
            # optional semicolons), the original canonically
            texts = fg.render(files, rng, fg.PLAIN if side == "a" else fg.Trivia())
            p["texts_" + side] = texts
            jobs.append(dict(id=len(jobs), dir=os.path.join(ck.dir, f"p{pi}{side}"), files=texts,
                             root=next(iter(files)), path=p["top_" + side], seed=f"{ck.seed}:{pi}", nvalues=nv))
            meta.append((pi, side))
    import time
    t0 = time.time()
    results = run_workers("run_front_py.py", jobs, chunk=max(3, len(jobs) // 32))
    t1 = time.time()

    sh = pyside.Shards(ck, "c12", per_shard=30)
    n_pair_bad = n_impl_fail = 0
    by_rw = {}
    evals = 0
    distinct = set()
    for pi, p in enumerate(pairs):
        ra, rb = results[2 * pi], results[2 * pi + 1]
        replay = {"a": p["a"], "b": p["b"], "top_a": p["top_a"], "top_b": p["top_b"], "rws": p["rws"],
                  "texts_a": p["texts_a"], "texts_b": p["texts_b"], "origin": p["origin"]}
        for w, _ in p["rws"]:
            by_rw[w] = by_rw.get(w, 0) + 1
        if "enc" not in ra or "enc" not in rb:
            n_impl_fail += 1
            err = {s: (r.get("compile_error") or r.get("import_error") or r.get("worker_error")) for s, r in (("a", ra), ("b", rb))}
            replay["error"] = err
            if "enc" in ra:
                ck.violation(f"the rewritten schema ({'; '.join(w for _, w in p['rws'])}) is not compiled although the "
                             f"original is: {err['b']}", replay, found_input=True)
            else:
                ck.broken(Broken(f"tie T2: the generator produced a schema the compiler rejects ({p['origin']}): {err['a']}",
                                 json.dumps(replay)[:2500]))
            continue
        if shape(ra["tree"]) != shape(rb["tree"]):
            # the compiler resolved the two schemas to different layouts (widths / capacities / structure):
            # no value can correspond; on the unchanged tree this never happens for the rewrites of the list
            replay.update(shape_a=shape(ra["tree"]), shape_b=shape(rb["tree"]))
            n_pair_bad += 1
            ck.violation(f"rewrite {[w for w, _ in p['rws']]} changed the resolved layout of the message, hence its bytes "
                         f"({'; '.join(w for _, w in p['rws'])})", replay, found_input=True)
            continue
        defs = (f"Definition a_{pi} : files := {fg.coq_files(p['a'])}.\n"
                f"Definition b_{pi} : files := {fg.coq_files(p['b'])}.\n"
                f"Definition ta_{pi} := Eval vm_compute in msg_ty_at (check a_{pi} {fg.cstr(next(iter(p['a'])))} false) {fg.cpath(p['top_a'])}.\n"
                f"Definition tb_{pi} := Eval vm_compute in msg_ty_at (check b_{pi} {fg.cstr(next(iter(p['b'])))} false) {fg.cpath(p['top_b'])}.\n")
        exprs, metas = [], []
        for k, (va, vb, ea, eb) in enumerate(zip(ra["values"], rb["values"], ra["enc"], rb["enc"])):
            evals += 1
            distinct.add((json.dumps(p["texts_b"], sort_keys=True), json.dumps(vb, sort_keys=True)))
            if isinstance(ea, dict) or isinstance(eb, dict) or ea != eb:
                n_pair_bad += 1
                replay.update(value_a=va, value_b=vb, bytes_a=ea, bytes_b=eb)
                ck.violation(f"rewrite {[w for w, _ in p['rws']]} changed the encoded bytes of corresponding values "
                             f"({'; '.join(w for _, w in p['rws'])})", replay, found_input=True)
                continue
            # model side: Front.check elaborates both; Spec.wire of both equals the observed bytes
            exprs.append(f"(match ta_{pi}, tb_{pi} with Some ta, Some tb => "
                         f"(if zl_eqb (wire ta {coq_val(ra['tree'], va)}) {pyside.bytes_term(ea)} then 0 else 1) + "
                         f"(if zl_eqb (wire tb {coq_val(rb['tree'], vb)}) {pyside.bytes_term(eb)} then 0 else 2) "
                         f"| _, _ => 4 end)")
            metas.append((pi, k))
        if exprs:
            sh.add(defs, exprs, metas)
    out = sh.run(header=fs.HEADER)
    t2 = time.time()
    n_tie = 0
    for (pi, k), code in out:
        if code != 0:
            n_tie += 1
            p = pairs[pi]
            if n_tie <= 4:
                ck.broken(Broken(f"tie T2: Spec.wire of the type Front.check elaborates differs from the bytes the generated "
                                 f"Python encodes (code {code}: 1 original, 2 rewritten, 4 not elaborated) in {p['origin']} "
                                 f"rewrites {[w for w, _ in p['rws']]}",
                                 json.dumps({"texts_a": p["texts_a"], "texts_b": p["texts_b"], "top_a": p["top_a"],
                                             "top_b": p["top_b"]})[:2500]))
    cov = ck.coverage
    cov["evaluations"] = evals
    cov["distinct_nontrivial"] = len(distinct)
    cov["rule"] = ("valid trees with globally unique names from tools/front_gen.py; one rewrite of the property's list "
                   "(tools/front_rw.py: rename, reorder_fields, reorder_defs, alias_intro, alias_inline, unnest (nest = inverse), "
                   "move_to_import, const_expr, renumber) or a random sequence of 2-4; the rewritten side printed with random "
                   "trivia (comments, whitespace, semicolons); both compiled by the real compiler to Python; values correspond by "
                   "rank of field number; a case = (rewritten texts, value); compared: bytes(original) = bytes(rewritten), and "
                   "each = Spec.wire of the type Front.check elaborates")
    cov["tie"] = {**cov.get("tie", {}), "pairs": len(pairs), "corpus": n_corpus, "values_per_pair": nv,
                  "pairs_not_run": n_impl_fail, "byte_mismatches": n_pair_bad, "tie_mismatches": n_tie,
                  "timing_s": {"implementation": round(t1 - t0, 1), "coq_evaluation": round(t2 - t1, 1)}}
    cov["distribution"] = by_rw
    for p, ra in list(zip(pairs, results[0::2]))[n_corpus:][:2]:
        if "enc" in ra and ra["enc"] and not isinstance(ra["enc"][0], dict):
            cov["samples"].append({"original": p["texts_a"], "rewritten": p["texts_b"], "rewrites": [w for _, w in p["rws"]],
                                   "message": p["top_a"], "value": ra["values"][0],
                                   "implementation_bytes": bytes(ra["enc"][0]).hex()})
