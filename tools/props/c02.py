"""C02 — Python decode(encode(v)) == v and re-encoding reproduces the bytes."""
import pywire

LEVEL = "proof"


def run(ck):
    pywire.run_py_wire(ck, "C02.v", want_decode=True, guard=True)
